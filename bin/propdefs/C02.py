PROP = {
    "groups": ["protocol", "file-script", "e2e-faults"],
    "timeout": 900,
    "rule": "protocol: the real recvFileMD5 / sendFileMD5 / checkInteger on scripted lines (digests equal, one byte larger or smaller, shorter, longer, random) against the model comparisons; e2e-faults: byte-level faults on the connection between the real client (filter) and the real trz/tsz child: bit flip, deletion, duplication, insertion, truncation of the tail at offsets sampled uniformly over the recorded fault-free wire of either direction (phases trigger/ACT/CFG/NUM/NAME/SIZE/DATA/payload/SUCC/MD5/EXIT), for configurations over direction x base64/binary x protocol field absent/2/3/4 x overwrite x escape; oracle: any side reporting success implies destination = source; non-trivial = the fault changed the outcome (no success); distinct = distinct (fault, configuration)",
    "trusted": ["modelled, not verified: MD5 (abstract function H; unforged-digest and collision-freeness on the compared pair are premises), zstd/zlib/base64 decoding (abstract decode), line framing (C03) and escape coding (C04) are separate theorems"],
    "assumptions": ["a corrupted digest line does not happen to equal the digest of the corrupted content", "MD5 does not collide on (accepted content, source)"],
}
TEXT = {
    "text": "Proof over the message-level decision logic of both protocol generations: for ANY sequence of delivered lines the receiver accepts a file only if the decoded stream has exactly the announced size (protocol >= 2) and the digest line equals the digest of what it wrote; the sender reports success only after matching per-frame acks, a final ack with step = size and an echoed digest equal to its own; hence, under the two explicit digest hypotheses, accepted content = source. Tied to the code by fault injection on the real binaries with the oracle success => identical.",
    "note": "The model covers the decision logic, not the concurrent pipeline that implements it (C11) nor the codecs (trusted libraries). The tie between this model and the code is the fault-injection oracle (a search engine), not a line-by-line correspondence.",
    "technique": "Coq proof over all delivered line sequences + fault injection on the real client/server with success=>identical oracle",
}
