PROP = {
    "shared_groups": "also runs the neighbouring groups whose code can break this property: e2e-fidelity (described under C01); dupnames (described under C09)",
    "groups": ["resume", "e2e-fidelity", "dupnames"],
    "timeout": 900,
    "nontrivial_floor": 0.3,
    "rule": "end-to-end overwrite (-y) transfers, real client (trzsz.NewTrzszFilter, in-process) against the real trz/tsz "
            "children, uploads and downloads x protocols 2/3/4 (handshake rewritten) x base64/binary, 8 (source, previous "
            "destination) pairs per transfer plus bystander files; pairs enumerated from (relative length, first differing "
            "offset): absent, empty, shorter prefix, identical, longer, diverging at 0, 1, kB-1, kB, kB+1 (k=1..3), last byte, "
            "with shorter/equal/longer destination and equal/unrelated tail, source lengths 0,1,B-1,B,B+1,2B,2B+1,3B-1,3B+7,5B. "
            "Dense sweep: a second copy of the harness and of trz/tsz built with `go build -overlay` in which ONLY the literal "
            "of kPrefixHashStep is rewritten to 64 (instrumentation; theorems are parametric in B>0; /repo untouched); "
            "a few cases with the real 10 MiB block (21-35 MiB files) compared through the arithmetic closed form. "
            "Per file the harness decodes the HASH / SUCC(step,match) / SIZE / DATA lines from the recorded wire and hands "
            "(B, protocol, observed number of HASH lines, source, destination) to the extracted model, which must reproduce the "
            "hash steps, the ack sequence, both offsets, the payload length and the final content. Unit level: the real "
            "recvPrefixHash and pipelineRecvHashAck on random adversarial HASH/SUCC sequences (steps below matchStep, beyond the "
            "file, zero-length, wrong digests, missing Over). non-trivial = a hash exchange took place (>=1 ack) / >=2 messages; "
            "distinct = distinct input line",
    "trusted": ["modelled, not verified: MD5 (abstract H; collision-freeness for the compared prefixes is an explicit hypothesis of "
                "C08_identical/C08_skip_bounded), the OS file semantics of O_RDWR|O_CREATE[|O_TRUNC], read, write, lseek, ftruncate "
                "(model: byte list + offset), JSON/zlib/base64 framing of the HASH/SUCC lines (decoded by the harness)",
                "the overlay build replaces one literal (kPrefixHashStep = 64) in a temp copy of append.go for the dense sweep"],
    "assumptions": ["the digests of the compared prefixes do not collide (MD5)", "source and destination files are not modified by "
                    "third parties during the transfer", "B > 0 (proved for the constant in the source)"],
}
TEXT = {
    "text": "Machine-checked proof over an executable model of append.go (hash sender with early stop, receiver, ack reader, "
            "seek/truncate, data written from the offset left behind) and of the truncate path of protocol 2: for ALL source and "
            "previous destination contents, every protocol, every block size B>0 and every early stop of the hash sender, a "
            "completed exchange leaves both ends at the same offset m = B x (leading blocks with equal cumulative digest) capped at "
            "min(|src|,|dst|); the final content is dst[:m] ++ src[m:], has the source's length unconditionally, equals the source "
            "when the compared digests do not collide; m never exceeds the common prefix; the exchange completes for every "
            "non-empty source. The model is tied to the code by regenerated constants (block size, protocol threshold, the "
            "truncate flags of both receive paths) and by end-to-end differential execution on the real binaries.",
    "note": "Finding (liveness): an empty source over a non-empty destination with -y and protocol>=3 stalls until the timeout "
            "(proved in the model as C08_empty_source_stalls, reproduced end to end; listed in KNOWN_FINDINGS.txt; fix in "
            "hooks/fixes/C08-empty-source.diff). 'Files outside the transferred names are untouched' is an end-to-end oracle "
            "(bystander files), not a theorem. The receiver's allocation of a peer-chosen size is transcribed "
            "(C08_peer_step_sink) and left to C12.",
    "technique": "Coq proof (induction over the announced steps / fuel) + regenerated constants + extracted-model correspondence on "
                 "end-to-end transcripts (overlay build with a 64-byte block, real 10 MiB block for a few cases) + direct oracles",
}
