PROP = {
    "groups": ["resume"],
    "timeout": 900,
    "nontrivial_floor": 0.3,
    "rule": "placeholder",
    "trusted": [],
    "assumptions": [],
}
TEXT = {"text": "placeholder", "note": "", "technique": ""}
