PROP = {
    "groups": ["names", "e2e-stop"],
    "timeout": 600,
    "rule": "names: the real name-creation and deleteCreatedFiles functions against Model/Names.v in deep sandboxes (shared with C07/C09; here for the deletion clause); e2e-stop: the real client (filter, in-process) against the real trz/tsz children; a stop is delivered exactly at a sampled write boundary of either direction (client: StopTransferringFiles(keep|delete) called inline in the writer, or the user's own sequence Ctrl-C then a stop choice in the prompt; server: SIGINT), for configurations over direction x base64/binary x protocol field absent/0/2/3/4 x flat files / directory tree / archive mode x overwrite x destinations with pre-existing content incl. a colliding name; oracles: both sides end (never a hang) and within 8 s of the stop, the outcome shown is Stopped / Stopped and deleted or, only with every file complete and identical, success; with delete nothing this transfer created is left and every pre-existing entry is unchanged; with a plain stop a file that reached its full size is intact; every run is non-trivial; distinct = distinct (boundary, kind, side, configuration)",
    "trusted": ["source tie go/cmd/gen/stop.go (position of the stop checks, text of checkStop, first statements of stopTransferringFiles, nextBuffer's stop arm)",
                "modelled, not verified: the OS file system beyond Model/Fs.v; wall-clock bounds are measured, not proved"],
    "assumptions": ["a stage that observes the stop error cancels its pipeline (the error paths are Branch [Cancel; Return] in the generated skeletons)"],
    "nontrivial_floor": 0.3,
}
TEXT = {
    "text": "Proof in three parts, each tied to the source: the stop flag is consulted before the first wire operation of every sending/receiving function and wakes a blocked reader (generated skeleton, pinned); after the resulting cancellation the C11 theorems give a bounded number of further steps under every schedule with every goroutine exited, and success is only signalled after the final acknowledgement; stop-and-delete over the abstract file system removes only paths this transfer recorded (and what lies below them), changes no other path, and without overwrite leaves every pre-existing entry untouched; a plain stop runs no deletion. The real binaries are exercised with stops at sampled write boundaries from either side.",
    "note": "Partial: the time bound and the claim that every observation of the stop error reaches ctx.cancel are exercised (e2e-stop), not proved; the file-system model has no links/permissions.",
    "technique": "Coq proof (source-tied stop checks + C11 termination theorems + file-system deletion lemma) + stop injection at write boundaries on the real client/server",
}
