PROP = {
    "shared_groups": "also runs the neighbouring groups whose code can break this property: filter-history (described under C05); e2e-tmux (described under C16); relayneg (described under C14)",
    "groups": ["detector", "filter-history", "e2e-tmux", "relayneg"],
    "rule": "detectTrzsz histories (one case = flags relay/tmux/windows-environment + optional seeded id table + list of (tunnel, buffer) calls on ONE detector): "
            "test-suite corpus; grammar triggers (modes S/R/D, version fields up to and beyond 2^32-1, ids absent/short/13+ digits with every two-digit suffix, "
            "ports absent/present/oversized) after clean, noisy, earlier-marker and tmux control-mode prefixes; every single-byte truncation, deletion and "
            "substitution of four base triggers; finished-transfer words at offsets 30..52 after the marker; id histories of 150..400 calls crossing two prunings; "
            "seeded id tables around the 100-entry threshold; plus the three regexps, rewriteTrzszTrigger, addRelaySuffix, parseTrzszVersion and the "
            "printer's format in isolation; non-trivial = some buffer of the history has >= 24 bytes and contains the marker (for building blocks: the "
            "function matched / changed its input); distinct = distinct input line",
    "trusted": ["modelled, not verified: Go's regexp engine (replaced by hand-written deterministic matchers whose source strings are pinned by reflexivity lemmas and which are compared against the real regexps on every run)",
                "strconv.Atoi is modelled for a 64-bit int"],
    "assumptions": ["isWindowsEnvironment() is constant during one detector's life", "one goroutine calls detectTrzsz at a time (as in filter.go/relay.go)"],
    "timeout": 900,
}
TEXT = {
    "text": "Machine-checked proof over a byte-level executable model of comm.go's trigger detector (detectTrzsz with the relay/tmux/tunnel/windows flags, rewriteTrzszTrigger, addRelaySuffix, isRepeatedID with the pruned id table, parseTrzszVersion and deterministic matchers for the three regexps), tied to the code by regenerated constants, pinned regex sources and differential execution of the extracted model against the real functions on whole call histories.",
    "note": "Trusted: Coq kernel, gen translator, ExtrOcamlBasic extraction, OCaml driver, Go harness. Modelled not verified: Go's regexp engine (hand-written matchers compared on every run), the filter/relay code around the detector (C05, C13, C14).",
    "technique": "Coq proof (induction over buffers and over the whole history of calls) + regenerated constants + extracted-model correspondence + direct oracles",
}
