PROP = {
    "groups": ["noise", "e2e-tmux"],
    "rule": "real recvLine (through a trzszTransfer with TmuxOutputJunk / windowsProtocol) and stripTmuxStatusLine vs the extracted model, "
            "every chunk queued beforehand, several recvLine calls per buffer: captured strings of buffer_test.go / transfer_test.go with "
            "random chunkings; renderings from a Go generator that mirrors the constructors of the noise relations (tmux: junk in front, "
            "status pairs also inside the marker, truncated status, CR LF wraps of any multiplicity; Windows: padding, VT100, newlines, "
            "cursor moves, re-prints, cursor-home) incl. every insertion position of each single kind on a fixed line; malformed byte soup "
            "and every sequence of up to 5 (quick) / 6 state-machine tokens; direct oracle: documented noise => exactly '#ty:payload' "
            "returned, Ctrl-C => Interrupted; every case is non-trivial except noise-free strip_tmux inputs; distinct = distinct input line",
    "trusted": ["which byte patterns tmux and the Windows console really emit is taken from the captured strings in the test-suite and the comments in the code (the noise relations of Model/Noise.v state them precisely)"],
    "assumptions": ["payload and type contain no LF, CR, Ctrl-C, ESC, '#' (tmux) / are protocol letters without '#' in the payload (Windows)",
                    "tmux: text in front of the line does not contain the marker '#ty:' and no bare LF; status texts contain no '#', CR, LF",
                    "Windows: a cursor-home redraw is followed by a further letter of the line, and no cursor move occurs between a re-printed/replaced character and the next letter (the two excluded shapes are the known findings)"],
    "timeout": 600,
}
TEXT = {
    "text": "Machine-checked proof over an executable model of recvLine's junk-tolerant path (readLine in junk mode, last-marker cut, stripTmuxStatusLine) and of readLineOnWindows with its six flags transcribed statement by statement: for every payload, every tmux-noisy rendering (unrelated marker-free text in front, CR LF wraps at any positions with any multiplicity, status control strings anywhere incl. inside the marker, a truncated status at the end) and every chunking, exactly '#type:payload' is returned; for every Windows-console rendering built from padding, VT100 sequences, newlines, cursor moves, re-prints after newline+move and cursor-home redraws (under the two stated exclusions) every chunking returns the payload; Ctrl-C before the end of the line always interrupts, both readers. The two excluded Windows shapes are shown NOT to be recovered by witnesses that are replayed on the real code on every run (known findings).",
    "note": "Trusted: Coq kernel, gen translator, extraction, OCaml driver, Go harness. Known findings: win-home-before-terminator, win-stale-flags-after-home. The LF after '!' is consumed only when it is in the same chunk (and is looked for at a wrong index when the cursor is not at the start of the chunk); the theorems say exactly what is left unread.",
    "technique": "Coq proof (induction over noise derivations and chunk lists, composed with the C03 flat-stream theorem) + regenerated constants + extracted-model correspondence + generator-driven direct oracle",
}
