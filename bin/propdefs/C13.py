PROP = {
    "shared_groups": "also runs the neighbouring groups whose code can break this property: relayneg (described under C14); tunnel-relay (described under C17)",
    "groups": ["relay", "e2e-tmux-relay", "relayneg", "tunnel-relay"],
    "rule": "scripted relay runs on the real trzsz.NewTrzszRelay over io.Pipes (1-3 transfers per relay; outcomes confirm / cancel / "
            "malformed ACT / malformed CFG; client type-ahead racing with the trigger, junk in front of the handshake line, the line split "
            "over several reads, the tail of the line and following bytes in one read, bytes after the line, transfer traffic racing with "
            "the flush, end of transfer from either side), first on the unmodified package, then on an overlay build with a seeded "
            "yield/sleep in front of every atomic, lock, channel and buffer operation of relay.go and buffer.go; each run is "
            "judged by the direct conservation oracle in both directions. Model evaluations (relay_run): one transfer per case driven one "
            "chunk at a time (all four outcomes, junk before the line, tail of the line and following bytes in one read, transfer traffic, "
            "end marker or not); the same history is replayed as a label sequence on the extracted model and the logs and final status "
            "are compared; non-trivial = every case (each contains a handshake). The model is also tied to the source by the "
            "regenerated synchronisation skeleton (skel_matches) and the status constants. TRACE VALIDATION (relay_trace): a third pass of "
            "perturbed runs on the overlay build with logging on (one event per synchronisation operation executed: goroutine role, program "
            "point, operation, observed value; real order by a per-relay mutex around operation+append); the extracted rv_run replays every "
            "trace: each event must be an enabled step of step_fn with the observed value (status loaded is current, chunk sent/parked/popped "
            "is the model's, CAS result, channel, flush argument) and the model's three logs must equal the bytes the real writers received; "
            "input_distribution key traces_validated_against_impl counts the traces, trace:events the events. RESET GUARD: (a) late_reset:* -- "
            "direct scenario on the unmodified build: slow server, the input reader blocked on its channel send with the end marker of transfer 1, "
            "the server ends transfer 1 and starts transfer 2, then the stale reset request runs; transfer 2 must be answered and both directions "
            "conserved; (b) sched:* -- the extracted model WITHOUT the guard (rg_step true) is searched for the schedules that break its invariant "
            "(every way of delaying one thread in front of one operation of a two-transfer history, relay_search_list), each is replayed operation "
            "by operation on the real relay through the scripted scheduler of the overlay and judged by the oracle and by trace validation; the model "
            "with the current source's reset (relay_search gen) must find none. PUBLICATION ORDER: the same search on the model with 'handshaking' "
            "published by the worker (rp_step late) finds the schedules in which the input reader runs between the forward of the trigger and the "
            "worker's first step; they are replayed on the real relay (sched:replay_publish:*); entry:* -- the client answers the trigger from inside the "
            "Write that delivers it, fresh relays at GOMAXPROCS 2,4,8,16. Every relay runs in a child process with a journal: a relay that dies is reported "
            "(relay-inner-crash-<pass>) with the panic and the chunks the killing run had been fed; malformed:* counts handshake lines with the colon first "
            "and other malformed shapes"
            "; group e2e-tmux-relay: the real `trzsz -r` inside a pane of a real tmux server between the in-process client and trz/tsz (handshake parked and flushed through bypassTmuxChan to the client tty): tree identical, names, stop, status-interval restored after the relay exits",
    "trusted": ["modelled, not verified: the Go memory model is taken as sequentially consistent at the granularity of one atomic/lock/channel/buffer operation; "
                "channel sends never block (a blocking send only removes schedules); readLine is abstracted to 'consumes some prefix of the parked bytes, "
                "then accepts, rejects or waits' (its parsing is C03/C16); the detector is an arbitrary per-chunk rewriting (C06); "
                "the tunnel (tunnelConnector, tunnelRelay, tunnelConnected) is outside the model: no tunnel connector configured and the client's ACT does not claim a tunnel; "
                "r.trigger / r.clientIsWindows (racy plain fields) are outside the model",
                "skeleton translator go/cmd/gen/skel_relay.go; overlay instrumenter and trace logger go/cmd/overlay (main.go, vl.go: the event<->label table vlCodeOf); "
                "trace parser ocaml/m_relay.ml (relay_trace)"],
    "assumptions": ["no tunnel: SetTunnelConnector is not used and the ACT line has tunnel=false (see finding on tunnel=true in the report)",
                    "in tmux mode the two client-side writers are different devices: order is claimed per device (clog / blog)"],
    "timeout": 900,
}
TEXT = {
    "text": "Machine-checked proof over an interleaving model of the relay (input reader, output reader, handshake worker, one step per atomic/lock/channel/buffer operation, every schedule, every arrival pattern, every handshake outcome, any number of transfers): what each side's writer receives is the other side's input with exactly the consumed handshake lines removed and the relay's own lines inserted, everything else in order, nothing lost, duplicated or crossing sides; standby is the identity; without the status re-read under the lock the invariant is violated (explicit schedule), and so it is without the expected-state guard of the reset (explicit schedule; the guard's presence is regenerated from the source), and without the publication of 'handshaking' in front of the forward of the trigger there is a schedule after which no thread of the relay can move while bytes are parked (explicit; the position of the store is regenerated). The model's program points are pinned to the current source by a regenerated synchronisation skeleton. The real relay is run over pipes with scripted peers, also under seeded schedule perturbation injected by go build -overlay, and judged by a direct conservation oracle; hundreds of those executions are logged operation by operation and replayed on the extracted model (trace validation): a proved theorem says an accepted trace is a path of the model, so the invariant holds in every state of the executions actually observed, and an execution the model cannot replay is reported with the first offending operation.",
    "note": "Trusted: Coq kernel, skeleton translator, overlay instrumenter, Go harness. Not covered: tunnel relay threads, blocking/liveness (C11/C14), end-marker split across reads (C14).",
    "technique": "Coq proof (inductive invariant over an interleaving transition system with ghost history) + regenerated synchronisation skeleton + direct oracle on the implementation under overlay-injected schedule perturbation + trace validation (observed executions replayed on the extracted transition function)",
}
