PROP = {
    "shared_groups": "also runs the neighbouring groups whose code can break this property: noise (described under C16)",
    "groups": ["guards", "hostile", "handshake", "scanners", "noise"],
    "gen": ["guards", "Skel_guards.v"],
    "timeout": 600,
    "rule": "guards: the real pipelineRecvBinaryData / recvData / recvPrefixHash / recvConfig / pipelineRecvCurrentAck / "
            "pipelineRecvFinalAck / createProgressBar+newTextProgressBar / recvInteger / parseTrzszVersion / unmarshalTargetFile "
            "against Model/Guards.v on boundary numerals (0, +-1, 2^31 and 2^63 neighbourhoods, values around the data bound for "
            "14 buffer sizes incl. overflowing ones, around the hash block size), signs, leading zeros, non-digits, JSON literals of "
            "the wrong type, sequences of hash records with good and bad digests; non-trivial = everything except well-formed "
            "short numerals; distinct = distinct input line. "
            "hostile: transcripts of both roles recorded from real transfers (protocols 1-4 x base64/binary x progress on/off, resume, archive, "
            "directory, two files, empty file, large file with COMP, escape-all) are mutated message by message - every numeric field and JSON "
            "member to -1, 0, 1, 2^31-1, 2^31, 2^31+1, 5e7, 2^33, 2^62, 2^63-1, 2^63, -2^63, -2^63-1, 40 digits, non-numeric, empty, float, "
            "exponent, sign, hex, blank, orig+-1, orig*2, wrong JSON type, absent; truncated / corrupt JSON, base64, zlib, zstd, escape "
            "sequences, binary payloads; lines missing, duplicated, cut, retyped, without colon, 1 MB long; FAIL / EXIT injected; trigger "
            "version / port / id - and each mutant is replayed against the real trz / tsz (ulimit -v 4 GiB) or the real client in a child "
            "process (RLIMIT_AS 4 GiB); oracle: no crash text, no recovered panic, ends by itself or at the user's interrupt, peak RSS < 600 MB, "
            "client forwards a probe both ways afterwards; every replay is non-trivial; distinct = distinct scenario+message+field+value; "
            "negative SIZE / NUM / name-record size followed by the recorded data are always replayed against the receiving client with a "
            "progress display for protocols 2,3,4 x base64/binary. "
            "scanners: detectOSC52, detectTrzsz (client, relay, relay+tmux, tunnel), addRelaySuffix, rewriteTrzszTrigger, detectZmodem, "
            "detectDragFiles and its Linux / macOS / Windows variants, nextLinuxPath / nextWinPath / nextMsysPath / nextCygPath / "
            "unixPathToWinPath, trimVT100, stripTmuxStatusLine, readLineOnWindows, recvLine+recvCheck (tmux / windows / junk modes), "
            "unescapeData with short destinations, escapeTable.UnmarshalJSON, archive header and name-record parsing are called directly "
            "under recover on every string up to length 3..7 over each scanner's own alphabet, on complete and truncated sequences with "
            "every cut into 2 and 3 chunks, on 100000-digit runs and the 100000-byte OSC 52 overflow path, and on random strings "
            "(0.7 million calls quick); oracle: no panic, result bounded by the input. "
            "guards also runs the real pipelineRecvAck goroutine over scripted acknowledgement sequences for 25 announced buffer limits "
            "(-2^63 .. 2^63-1) against the model of the buffer-size evolution, with the direct oracle that every size stays within "
            "1..max(10240, limit, 1 GiB) and newSendDataWriter's make does not panic. "
            "handshake: the real client (child process, RLIMIT_AS) and the real trz / tsz transfer 400 KB of incompressible data while one "
            "member of the CFG or ACT line is replaced on the wire by -1, 0, 1, +-2^31, +-2^62, +-2^63, a fraction, a string, null; oracle: "
            "no crash text, no recovered panic, both sides end within 25 s, client RSS < 600 MB; in the same group a real relay (child process) "
            "between a scripted client and server gets 20 kinds of hostile line in place of the ACT or the CFG: it must survive and pass bytes "
            "both ways again. "
            "Round 3: the acknowledgement goroutine runs in a child with chunk times scripted through trzszAck.begin over every interval between "
            "the thresholds and whole seconds (c12_bufevo_ms, a death of the child is bufsize-time-crash:<ms>); archive entries no honest sender "
            "produces (directory with a size, sizes <= 0 / 2^62, unknown path id, refused names) through the real recvFiles path and through the "
            "real writer directly; the line splitters of recvCheck and of the relay against gd_line_split; the progress display under a scripted "
            "clock. Round 5: pairs of numbers that bound each other are replaced together by the same hostile value (NAME size x HASH step, "
            "SIZE line x HASH step, SIZE x DATA length, NUM x SIZE, bufsize x DATA length, ...: hostile-pair:<a>-<b>:<value>:<role>), and the "
            "real recvPrefixHash is run with announced sizes up to 2^63-1 (hash-pair:size=..:step=..)",
    "trusted": ["modelled, not verified: encoding/json, zlib, zstd, base64 and the Go runtime on malformed input (exercised by the hostile group, not proved)",
                "goroutines without recover are a structural fact (Gen/Skel_guards.recover_sites), not a theorem",
                "totality of the progress display for unguarded steps and sizes is C20's theorem"],
    "assumptions": ["the configuration is one the code can be in: bufsize from recvConfig (clamped) or from the servers' own argument parser",
                    "int is 64 bits"],
}
TEXT = {
    "text": "Machine-checked proof over a model of every check that stands between a number sent by the other side and an allocation, a repeat count or the progress position (binary #DATA size, prefix-hash step, tmux pane width, acknowledgement steps, NUM, SIZE, sizes in name records and archive headers, bufsize, timeout, protocol, version, port): on the fixed code every accepted number is bounded linearly in the negotiated buffer size (data), by the hash block size (hash step) or by the local terminal width (pane); the integer parsers are total and reject what does not fit; the three unfixed guards are refuted with the confirmed inputs. The guards are located in the AST on every run and pinned by reflexivity; the model is run against the real functions. A transcript mutator replays boundary-value mutants of recorded transfers against the real trz/tsz and the real client in memory-capped child processes.",
    "note": "Runtime, encoding/json, zlib, zstd, base64 on malformed input are tested (hostile group), not proved. Steps and sizes that reach the progress display unguarded rely on C20.",
    "technique": "Coq proof over guard model + AST-derived guard skeleton pinned by reflexivity + extracted-model correspondence + hostile transcript mutation against the real binaries",
}
