PROP = {
    "groups": ["e2e-fidelity", "e2e-fds", "codec"],
    "timeout": 600,
    "rule": "end-to-end transfers: the real client (trzsz.NewTrzszFilter, in-process) against the real trz/tsz binaries built from /repo (child processes) over a fault-free transport that re-chunks every write at random; configurations drawn from direction x base64/binary x escape-all x compress auto/yes/no x protocol field absent/2/3/4/9 (handshake rewritten by the transport) x buffer limit x overwrite x directory mode x quiet; trees with sizes 0,1,511..513,4096,70000,131071/131072,700000, compressible/incompressible/protected-byte content, unicode names, empty and nested directories, equal base names; every run is non-trivial (a complete transfer); distinct = distinct configuration+tree seed",
    "trusted": ["modelled, not verified: zstd/zlib/base64 library codecs, the OS file system, the Go runtime; the message-level model is tied by the typed transcript, payload fidelity at scale by the direct oracle (destination = source)"],
    "assumptions": ["the trigger line reaches the client within one read (the detector works per read, see C06)"],
}
TEXT = {
    "text": "Proof (in progress: the codec stacks and the message-level exchange) plus an end-to-end differential oracle on the real binaries: success on both sides implies destination tree = source tree and names shown = names written, and a fault-free cooperative transfer always succeeds, over a sampled configuration matrix with random re-chunking.",
    "note": "The e2e oracle is a search engine, not a theorem; the theorem part covers the models of the codecs (C03, C04) and is being extended to the message-level exchange (Protocol.v). Library codecs, OS and runtime are trusted.",
    "technique": "Coq proof over codec/protocol models + end-to-end differential oracle on the real binaries",
}
