PROP = {
    "groups": ["archive"],
    "rule": "real archiveFileReader/archiveFileWriter (through writeAll) against the extracted model on trees generated in temp dirs "
            "(unit-test corpus, corner trees, random trees with depth/fan-out/empty files/empty dirs/one-byte files/unicode names, files of several "
            "32 KiB buffers) with independent random read sizes and write segmentations; all subsets of the interesting cut positions and every "
            "single cut for tiny trees; files shrunk/grown between scan and read; explicit entries with odd announced sizes; damaged and hand-made "
            "writer streams; HEADER CODEC: 24 shapes of highly compressible headers (nested node_modules to depth 64, runs of one character up to 255 bytes, one name on 60 levels, 1000 components, 64 names of 255 bytes, JSON-escaped names, controls) through real encode -> decode (ahdr_ok), on disk through the whole archive round trip, and as whole transfers; SHRINKING: every file of a fixed tree shortened to zero / by one / to half before the read and to zero in the middle of it; NAMES: the real checkFileName on every BMP code point (alone, inside a name, after a dot), samples and look-alikes above the BMP, invalid values, against anm_valid; tree names include code points whose low byte / UTF-16 high byte is a separator, dot or NUL; STREAM AS A SOURCE FILE: real sendCompressFlag on archive readers of announced sizes 0..3 MiB (128 KiB +-1) x protocol x compress type x binary against amo_compress, whole transfers of trees whose stream is exactly 127/128/129/200/600 KiB with compress auto/yes/no in process and through the binaries; WHO DECIDES ARCHIVE: roots with zero / exactly one (file, empty file, empty directory) / chained / many entries and sets of several roots with plain files, under protocol 2-5 and overwrite on/off - real scan, archiveSourceFiles, NAME record, sender's and receiver's next step against amo_plan; whole transfers real sendFiles vs real recvFiles in process and a few through the real binaries (destination tree = source tree); every caller buffer is ONE reused array scribbled over between calls (reader: before each Read; writer: after each writeAll), and one write per tree goes through io.CopyBuffer into a bufio.Writer with independent sizes; non-trivial = more than one entry is read, or a write segmentation cuts inside a header or exactly at an entry/header "
            "boundary, or the case belongs to the size/shrink/damaged-stream families; distinct = distinct input line",
    "trusted": ["modelled, not verified: zlib+base64+JSON coding of the header line (abstract hdr/parse with parse(hdr m) = m and no newline in hdr m, for the entries at hand; the compression ratio length(json)/length(header) is UNBOUNDED in this hypothesis, and it is tied to the code by evaluating its boolean form (C15_header_tie) on the real encoder's and decoder's results, including strata of headers that compress 4:1 ... 100:1 and paths up to 16 KB; "
                "the harness passes the real header strings as the lookup table), the file system (abstract tree: MkdirAll / O_CREATE|O_TRUNC semantics), "
                "os.File.Read on a regular file returning min(len, rest) bytes",
                "not modelled: permissions, filepath.Join cleaning of odd names (C09), Close/Write errors of the destination file"],
    "assumptions": ["caller read buffers have length >= 1; write segments are non-empty",
                    "C15_writer/C15_roundtrip: entries have distinct non-root paths and no entry lies below a file (what a directory scan yields); "
                    "no file is shorter than announced",
                    "C15_mode_agree / C15_mode_tree: a root that has entries below it is a directory (only directories have children in a scan)",
                    "C15_fds for the writer is proved for the writer with hooks/fix_archive.diff applied; the unfixed writer is refuted (C15_fds_unfixed_refuted)"],
    "timeout": 900,
}
TEXT = {
    "text": "Machine-checked proof over an executable model of archive.go (reader and writer state machines, writeAll loop, createDirOrFile effects on an abstract tree): "
            "announced size = bytes produced; the reader's output is the entry stream for all positive read sizes; the writer rebuilds exactly the tree for every "
            "segmentation of the stream; a shrunk file is an error; checkFileName refuses a name iff it is empty, a dot, two dots or contains the code point U+002F (any code points); sendCompressFlag never fails on an archive stream and answers compress when the decision is open; the NAME record's archive flag, the sender's own test and the receiver's createDirOrFile agree for every scan list and root (zero, one, many entries), and every directory root arrives as its tree; at most one descriptor open at any step (writer: after the fix). Tied to the code by regenerated "
            "constants and differential execution on real temp-dir trees.",
    "note": "Trusted: Coq kernel, gen translator, extraction, OCaml driver, Go harness. Header coding and the file system are abstract (see trusted).",
    "technique": "Coq proof (byte-at-a-time characterisation of the writer, induction over entries and read sizes) + regenerated constants + extracted-model correspondence + /proc/self/fd sampling",
}
