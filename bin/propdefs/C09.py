PROP = {
    "groups": ["names", "dupnames"],
    "rule": "real receiver name handling (recvFileName over the wire, createFile, unmarshalSourceFile+createDirOrFile with "
            "truncate on/off, archiveFileWriter.Write headers incl. nested, deleteCreatedFiles, getNewName) in real directory "
            "trees <private mktemp root>/l1/../l8/r/sb/{dest,outside,evil} (11 levels deep, at most 6 '..' per name, so that a tree "
            "without the validation cannot escape the root): pre-states with colliding files/dirs, name.N series with gaps and full "
            "1001-series, file-where-dir-needed and vice versa; name sequences clean (unicode, spaces, leading dots, 251..255 "
            "bytes) and hostile ('..', 'a/../..', absolute, empty, '.', NUL, 256/300 bytes, malformed JSON); whole-tree snapshots "
            "(relative paths, types, bytes, mtimes) before, after every message and after the deletion are turned into an effect "
            "list and compared with the model's effect log, per-message accept/reject and chosen name, createdFiles, deleted list "
            "and both trees; filepath.Join itself is compared with the model's join; non-trivial = a message was refused, renamed, "
            "something was deleted or a full series was present; distinct = distinct input line. Chain strata of the names group: "
            "ONE name arrives 52-65 times in a row, or the destination already holds name, name.0 .. name.(L-1) with L up to 101 "
            "(counters beyond 47 and into three digits), the name drawn from names with fmt verbs (%[1]c %c %d %s %v %% %5d %x) "
            "that checkFileName accepts; oracle fresh-shape (local name = name or name.N, N the first free decimal counter). "
            "Group dupnames: the real checkDuplicateNames on hand-built scan lists and on the real scan of real trees vs "
            "NamesDup.nd_check, oracles accepted => joined relative names pairwise distinct, refused => first repeated name; end "
            "to end with -y, both directions, protocols 1-4, plain and directory mode: two different sources with one destination "
            "name are refused with nothing written (or both arrive), distinct names pass, the same path twice is refused",
    "trusted": ["modelled, not verified: json.Unmarshal into sourceFile (an arbitrary function `decode` in every theorem); the "
                "operating system's path resolution, open/mkdir/unlink (Model/Fs.v transcribes Linux behaviour for a process that "
                "may do everything: ENOENT vs ENOTDIR/ENAMETOOLONG/EINVAL, NAME_MAX 255) — compared with the real kernel by the "
                "correspondence run, not proved; no symbolic or hard links, permissions, PATH_MAX, concurrent processes; Windows "
                "separator handling of checkFileName (os.IsPathSeparator) is not executed here"],
    "assumptions": ["the destination is an absolute, clean path that exists as a directory (trz: filepath.Abs + checkPathWritable)",
                    "no symbolic links inside the destination that point outside it (the user's own state)"],
}
TEXT = {
    "text": "Machine-checked proof over an executable model of the receiver's name handling (checkFileName, unmarshalSourceFile, "
            "getNewName, createFile, createDirOrFile, doCreateDirectory, doCreateFile, archive entry headers, deleteCreatedFiles) on "
            "a model of filepath.Join and of a file system with an effect log: for every file system, destination, configuration, "
            "JSON decoder and every sequence of arbitrary NAME strings / path lists / archive headers, with or without the final "
            "deletion, every path created, opened for writing, truncated or removed lies strictly inside the destination and every "
            "other path keeps its node and bytes; a name with an empty, '.', '..' element or a '/' is refused with the state "
            "unchanged. The same model without the validation (the code before the fix) is refuted by '../x'. The fresh name derived from a "
            "validated name is the name or name.<decimal counter>, again a single path element, whatever bytes (fmt verbs) "
            "the name has. With overwrite requested the scan list is accepted by checkDuplicateNames exactly when its "
            "destination-relative names are pairwise distinct (hence distinct destination paths), a refusal names the first "
            "repeated one and hands nothing to sendFiles (both call sites pinned). The model is tied to "
            "the code by regenerated constants (limits, rejected literals, and where checkFileName is called) and by differential "
            "execution against the real functions in real directory trees.",
    "note": "Trusted: Coq kernel, gen translator, ExtrOcamlBasic extraction, OCaml driver, Go harness. Modelled not verified: JSON "
            "decoding (arbitrary function), Linux path resolution and file operations (validated by correspondence only). Not "
            "covered: symlinks, permissions, PATH_MAX, races with other processes, Windows separators (validated by the code, not "
            "executed).",
    "technique": "Coq proof (invariant over message sequences for arbitrary file systems) + regenerated constants + extracted-model "
                 "correspondence on real directory trees + direct snapshot oracles",
}
