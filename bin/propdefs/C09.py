PROP = {
    "groups": ["names"],
    "rule": "placeholder",
    "trusted": [],
    "assumptions": [],
}
TEXT = {"text": "placeholder", "note": "", "technique": ""}
