PROP = {
    "shared_groups": "also runs the neighbouring groups whose code can break this property: e2e-stop (described under C10)",
    "groups": ["pausemodel", "pausecomp", "pausedown", "pausedowncomp", "pauseprobe", "pausesend", "e2e-pause", "e2e-stop"],
    "timeout": 900,
    "nontrivial_floor": 0.02,
    "rule": "pausemodel: the REAL recvCheckV2 and checkStopAndPause of a real trzszTransfer (Timeout 1 s, protocol 2/3/4) are driven "
            "with real time by scripted schedules on a 10 ms grid (call, line arrives incl. keep-alives and malformed lines, pause, "
            "resume, stop; pause before / during the read, shorter and longer than the timeout, repeated; resume while idle / in the "
            "pausing loop / in the read; lines before the original deadline, between it and the resumed one, after both; random "
            "schedules) and the outcome class (delivered payload / timeout / stopped / bad line / still waiting), the returned `pause` "
            "flag, the time of return (+-80 ms) and the number of keep-alive lines written are compared with the extracted model on the "
            "same schedule; schedules keep every event >= 20 ms away from any timer or sleep expiry so that jitter cannot flip an "
            "outcome; non-trivial = the schedule contains a pause, a stop or a keep-alive; distinct = distinct schedule. "
            "pausecomp: random schedules (moves of the four goroutines, ticks, pauses, resumes; T 3..14 ticks, sleeps 1..3, window 1/2/5, "
            "0..13 frames, pause budgets below and above the bound) run through BOTH extracted composition machines (the one built from the reader "
            "machine and the abstraction the theorem is proved for): same enabledness and abs_of(concrete) = abstract after every step. "
            "pausedown: the REAL pipelineRecvData + pipelineSendAck goroutines of a real transfer (our side of a download; Timeout 1 s) under "
            "real time on a 10 ms grid: DATA frames, the empty finish frame, pause, resume and 'disk has everything' at scripted slots (pause "
            "with everything acknowledged / with a frame arriving during it / longer than the timeout so that the blocked read expires and is "
            "retried into the pausing loop / two cycles / during the final-ack loop / disk event while pausing; random schedules); every line the "
            "side writes (keep-alive '#SUCC:=', '#SUCC:len/step', progress '#SUCC:step', final '#SUCC:size') with its time (+-80 ms) is compared "
            "with the extracted model on the same schedule (reader machine + gate in the data phase, then the final loop machine); direct "
            "oracles: no error, no acknowledgement written while pausing. "
            "pausedowncomp: as pausecomp, for the two download composition machines (ydstep built from the reader machine, ystep abstract). "
            "pauseprobe: the REAL pipelineRecvAck goroutine over every sequence of up to 4 (thorough 6) acknowledgements and random longer ones "
            "(buffer grows / does not, marked `pause` or not) starting in the buffer-size probing phase: which of them call bufInitDone() and when "
            "the probing phase ends, against the model; direct oracle: in the probing phase every acknowledgement releases the encoder and "
            "the goroutine never gets stuck; non-trivial = a pause-marked acknowledgement inside the probing phase. "
            "pausesend: the REAL pipelineSendData goroutine (wire sender of an upload, protocol 3/4 and 2) under real time over queued encoded "
            "blocks; the ack window fills at once and every scripted take lets one more chunk out; the chunk size (t.bufferSize) is changed "
            "while blocks are queued so that they are re-split; pause after the first / second piece of a block, twice inside one block, the size "
            "changing between two pieces, before the zero-length finish chunk, stop while pausing, never resumed, random; every keep-alive, whole "
            "frame and piece on the wire with its time and every taken ack against the extracted model of the sender at chunk granularity; "
            "direct oracle on every run: no file data on the wire between the real pause and resume times. "
            "The same group runs, meanwhile, end-to-end re-split cases: real client and trz, -B 10k, timeout 6 s, one 3.2 s stall of the acknowledgements (chunk size / 3: the queued blocks "
            "are cut into four pieces), Ctrl-C while the header of the first piece of such a block is held, continue 0.5 s later, protocol 3/4 x "
            "base64/binary; oracles: at most one DATA chunk begun between pause and resume, no hang, success, identical tree; non-trivial = paused "
            "inside a split block with keep-alives on the wire. "
            "e2e-pause: real client (filter) vs real trz/tsz children, Ctrl-C typed at a sampled write boundary of either direction, "
            "'Continue' chosen after 0.3-3.5 s, 1-2 cycles, upload/download x base64/binary x protocol 3/4 x directory; oracles: no "
            "hang, success => identical trees, a pause clearly shorter than the timeout does not end in an error, no DATA frame "
            "written by the paused side during the pause window; non-trivial = keep-alives were observed on the wire",
    "trusted": ["modelled, not verified: the Go runtime fires timers and ends sleeps on time and schedules runnable goroutines (the model's Tick); "
                "select chooses arbitrarily between simultaneously ready arms (the model orders events; schedules avoid ties); "
                "the composition theorem assumes line latency 0 and a peer that processes lines as they arrive (fault-free exchange)"],
    "assumptions": ["protocol >= 3 on both sides (older protocols have no pause handling)",
                    "composition (both directions' data phase, upload's final phase): an episode of pausing lasts at most P ticks with P + one sleep (100 ms) < Timeout, and a new pause begins at least one sleep (upload final phase: more than one sleep) after the previous resume; the download's final-ack loop needs no bound on the pauses, only gate sleep and poll interval < Timeout",
                    "final phases: the peer's acker polls every 200 ms < Timeout",
                    "Timeout > 0 for the no-hang statements (Timeout <= 0 means wait for ever by configuration)"],
}
TEXT = {
    "text": "Machine-checked proofs over a discrete-time model of the pause machinery (recvCheckV2 with the pause generation and the "
            "replaceable read timer of nextBuffer; the gate checkStopAndPause in front of every DATA/SUCC write; one direction of a "
            "transfer with the ack window): a keep-alive line never completes or fails a read and re-arms its timer in every reachable "
            "state; the reader reports a timeout only when no pause began since the read took its generation snapshot and no resume "
            "timer is pending, never while paused; while pausing the gate lets no frame through except the one already past its check, "
            "and opens within one sleep after the resume; every blocked read has a timer; for pauses shorter than the timeout minus one "
            "sleep the composed exchange delivers the same frames in the same order with no timeout on either side, in the upload AND the "
            "download direction (both proved for the composition of the reader machines themselves, via a simulation to an abstract "
            "machine), and after the last frame of an upload; the download's final-ack loop survives pauses of any length; an un-paused "
            "reader returns within one sleep plus two timeouts; in the buffer-size probing phase every acknowledgement releases the "
            "encoder whatever its pause flag; while paused the wire sender writes no file data on any path -- whole frame, piece of a block that "
            "is re-split because the chunk size shrank, the finish chunk -- except the one chunk already past its check, and re-splitting "
            "conserves the bytes. The model is tied "
            "to the code by regenerated constants, a regenerated structural skeleton of the eight functions involved, differential "
            "execution of the extracted model against the real functions under real time, and end-to-end pause injection.",
    "note": "Trusted: Coq kernel, gen translator, extraction, OCaml driver, Go harness, the Go runtime's timers. The composition is proved for "
            "latency 0 and an instantly reacting peer; for longer pauses an error is possible by design and shown by witness runs: in a "
            "download our acker emits keep-alives only while it holds an acknowledgement, after the upload's last frame the peer waits "
            "for the MD5 line with a plain timed read, and in the probing phase of an upload the sender has nothing to send until the "
            "paused ack reader releases the encoder; never a hang (every read has a timer, proved bound max(1,sleep) + 2 Timeout) and "
            "never a wrong success (C02).",
    "technique": "Coq proof (invariants over all event schedules) + regenerated constants and control skeleton + real-time differential execution + e2e pause injection",
}
