PROP = {
    "shared_groups": "also runs the neighbouring groups whose code can break this property: relayneg (described under C14)",
    "groups": ["progress", "progress-session", "progress-session-e2e", "progress-files", "e2e-tmux-pane", "relayneg"],
    "rule": "real textProgressBar (export_verif_progress.go, clock pinned) vs extracted model, under the library's real RuneWidth/StringWidth "
            "values passed per case: getEllipsisString (corpus x maxima, random names), getProgressBar (lengths around the minimum, steps "
            "inside/at ties/beyond the size/negative, sizes to 2^62), getProgressText at every width 1..500 (+ -7, 0, 600, 1000, 5000) x names "
            "(ASCII, CJK, emoji ZWJ, combining, control, white space, invalid UTF-8, empty) x counts x field texts, exact line compared; percentage "
            "through the state machine (exact below 2^40 incl. .5 ties); random call histories (onNum/onName/onSize/onStep/onDone/setPreSize/"
            "setPause/setTerminalColumns, repeats, regressions, overshoots, resumed files, redraw throttle, tmux pane mode) with a 2000-column "
            "probe bar in lockstep supplying the real total/speed/ETA texts; every write and the final state compared. Direct oracles on the "
            "implementation: no panic, display width (SGR removed, runewidth.StringWidth) <= columns for columns >= 5, percentage in 0..100 and "
            "non-decreasing within a file, bar cells add up; premises of the theorems checked on every string (StringWidth <= sum of RuneWidth, "
            "RuneWidth in 0..2). Non-trivial = everything except ellipsis calls that do not cut and bars below the minimum length. "
            "Group progress-session: a bare TrzszFilter (export VerifSession) through histories of {SetTerminalColumns at any moment, "
            "createProgressBar (quiet or not, any announced pane width), the callbacks of the running transfer, the real confirmStopTransfer "
            "answered with 'continue', resetProgressBar}, one to three transfers per session, every write and the final width state compared with "
            "the model's sess_step; oracles: no line wider than the most recent width the session was told, the session remembers it, a resize "
            "reaches the live bar, a new bar / the bar after the prompt is laid out for the current width. Group progress-session-e2e: the real "
            "client (NewTrzszFilter over pipes) through sessions of two or three consecutive real tsz/trz transfers with resizes while idle, while a "
            "transfer runs (link held), before and during an open stop prompt; every progress line that reaches the terminal is measured against "
            "the most recent width and the widths of the lines with a bar are compared with the model's layout width. "
            "Group progress-files: multi-file callback histories in the order transfer.go / append.go make them (name; full size, matched hash "
            "steps, setPreSize, remaining size when a prefix is at the destination; data steps; done) with every file independently fresh / "
            "resumed after a partial, complete or empty match / empty / a directory entry (strata resumed-then-fresh, fresh-then-resumed), "
            "and the callback order of REAL overwrite transfers (export VerifRunFilesPair: real sendFiles/recvFiles back to back, protocol 3 and "
            "4, callbacks of the sender or of the receiver, partial / complete / mismatching / longer destinations); the bar's writes compared "
            "with the model (prun); oracles: every line of file k equals the line a fresh bar that saw only file k's callbacks shows (percentage, "
            "total, speed, ETA; draw/no-draw where nothing is throttled), a fresh file starts at 0 % / 0.00 B, a data step shows prefix + sent of the "
            "file's own size, every file ends at 100 % of its own size; end to end: the real client uploads / downloads two files with -y, one "
            "partly at the destination: the last line of each file shows 100 % of its own size and no line more bytes than the file has. ORDER of the callbacks: every real transfer's callback sequence (delivery order) must be a word of the model's language cb_lang_ok (pcborder; a constructed late-step order must be rejected); six more real transfers (protocols 2, 3, 4 x sender / receiver, three files, the second resumed) run with a LAGGING display goroutine (export hook `before`: the first step beyond 0 of every hash and data phase is held until the next file is announced or 300 ms): no callback may be attempted while another is under way (files:callbacks-overlap, files:callback-after-next-file), the percentage of the real bar may not fall between two onName calls (pct-decreased); end to end the terminal takes 120 ms per progress line: two progress writes never overlap (files:e2e:progress-writes-overlap) and the percentage of the lines that reach the terminal never falls within a file. ; group e2e-tmux-pane: real transfers in a real tmux pane of 30/34 columns (tmux_pane_width from trz/tsz or from the relay) and in control mode: every pane-relative redraw of the progress line moves pane width - 1 columns left and its text is no wider",
    "trusted": [
        "modelled, not verified: github.com/mattn/go-runewidth (RuneWidth, StringWidth) and the terminal's rendering - premises width_model; "
        "binary64 arithmetic of math.Round(k*a/b) - premises round_model (the exact-rational instance is proved to satisfy them and is what the "
        "correspondence executes; exact percentage compared only for sizes below 2^40)",
        "not modelled: convertSizeToString/convertTimeToString/recentSpeed (their output enters the model as arbitrary ASCII text), the lipgloss "
        "colour path of getProgressBar (compared after removing SGR sequences), encodeTmuxOutput (tmuxPrefix)",
    ],
    "assumptions": [
        "file names are handled in their []rune view (invalid UTF-8 bytes count as U+FFFD)",
        "total/speed/ETA texts are printable ASCII (they come from fmt %.0f/%.1f/%.2f formatting)",
        "columns <= kmax where the binary64 facts of round_model hold (any int32 width does: k < 2^31)",
        "onName precedes the first onStep/onDone (the speed computation dereferences the start time onName sets; callers always do)",
        "the bar's colour sequences are zero-width and its block characters one column wide on the terminal (not true in an East-Asian-ambiguous-wide locale)",
    ],
}
TEXT = {
    "text": "Machine-checked proof over an executable model of progress.go (ellipsis, the layout ladder generated statement by statement from "
            "getProgressText, bar cell arithmetic, percentage, and the onNum/onName/onSize/onStep/onDone/setPreSize/setPause/setTerminalColumns "
            "state machine with the redraw throttle; and of the client session around it: options.TerminalColumns, createProgressBar, SetTerminalColumns "
            "with and without a live bar, the stop prompt, resetProgressBar; and the per-file figures across the files of one transfer: after onName/onSize "
            "they do not depend on earlier files, a fresh file starts at 0 %, a resumed or fresh file ends at 100 % of its own size): for every call history and every input the rendering never has a negative repeat count, "
            "every line is at most as wide as the terminal from 4 columns up, the percentage is within 0..100, is what the line shows, and never "
            "decreases within a file. The defect of the code before the clamp fix (step beyond size, negative size) is kept as a refutation with "
            "its witness. The model is tied to the code by regenerated constants/ladder, pinned function texts, and differential execution.",
    "note": "Trusted: Coq kernel, gen translator, ExtrOcamlBasic extraction, OCaml driver, Go harness. Premises (not proved): behaviour of "
            "go-runewidth and of the terminal (width_model), binary64 rounding facts (round_model).",
    "technique": "Coq proof (invariant over the generated ladder, induction over call histories) + regenerated constants and ladder + extracted-model correspondence + direct oracles",
}
