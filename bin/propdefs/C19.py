PROP = {
    "groups": ["zmodem"],
    "timeout": 600,
    "nontrivial_floor": 0.02,
    "rule": "(a) detectZmodem and the finish expression on buffers assembled from header pieces, near misses, cancel / cannot-open "
            "fragments, raw and multi-byte bytes; (b) whole sessions on the real filter (NewTrzszFilter over pipes, EnableZmodem) with a "
            "fake rz/sz on PATH driven by a scripted server, user and helper on a 400 ms grid: helper exits at once 0/3, exits later "
            "0/1/3, prints a finish header, stays silent, prints after both sides finished, work dir missing, chooser fails, helper "
            "absent from PATH; server finishes, cancels before/after the helper starts, keeps sending, goes quiet; Ctrl-C at any slot; "
            "both directions; the 20 s timers once each; every run ends with a probe (server text after 1.6 s of quiet, then typed "
            "text); compared with the extracted model on the same script: terminal items, writes to the server, bytes the helper "
            "received, final flags, session pointer; non-trivial = a session script or a buffer containing a header prefix",
    "trusted": ["modelled, not verified: os/exec, the Go timers and scheduler (one event = one complete activation of a goroutine; "
                "races inside an activation, notably on the unsynchronised cleanupTimer pointer, are outside the model), the dialog "
                "library (its failure is the chooser-error event), regexp (the two expressions are hand-written matchers pinned to "
                "their sources and compared with the real ones)"],
    "assumptions": ["the start header arrives within one read", "no trzsz trigger in the same chunk",
                    "events of a dropped session whose helper is still alive after the NEXT session started are not modelled",
                    "the code under check includes hooks/fix_zmodem.diff (handleZmodemError arms the cleanup timer when no helper exists); "
                    "on the pinned upstream code C19_returns is refuted (C19_returns_unfixed_refuted)"],
}
TEXT = {
    "text": "Machine-checked proof over an executable model of zmodem.go and the zmodem hooks of filter.go (five flags, helper handle, three timers, session pointer; one event per goroutine activation): a header without cancel/cannot-open starts the matching direction and nothing else does; every terminating event sends the cancel sequence to the side still waiting; a stopped session always has a cleanup timer armed, is cleaned already, or has a running helper with a kill scheduled whose exit arms the timer, and the armed timer survives every event of a quiet server, so the session becomes cleaned; once stopped and cleaned the next server chunk and typed input are forwarded. The model is tied to the code by regenerated constants, a pinned effect skeleton of every function involved and differential execution of whole scripted sessions on the real filter with a fake rz/sz.",
    "note": "On the pinned upstream code the launch-failure / chooser-error path never arms the cleanup timer (typed input swallowed for ever): C19_returns_unfixed_refuted gives the event sequence, hooks/fix_zmodem.diff the fix. Trusted: Coq kernel, gen translator, extraction, OCaml driver, Go harness, OS process and timer semantics.",
    "technique": "Coq proof (invariants over all event sequences) + regenerated constants and effect skeleton + extracted-model correspondence on scripted sessions + direct probe oracles",
}
