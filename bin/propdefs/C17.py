PROP = {
    "shared_groups": "also runs the neighbouring groups whose code can break this property: relayneg (described under C14); errtell (described under C11)",
    "groups": ["tunnel", "tunnel-e2e", "tunnel-relay", "relayneg", "errtell"],
    "timeout": 300,
    "rule": "group tunnel (real tunnel code through export_verif_tunnel.go on real 127.0.0.1 sockets, in-process): "
            "getHelloConstant on ids of length 0..17 (digits, arbitrary bytes, ':' and '%') x ports incl. 0, negative and 64-bit extremes; "
            "sequential scenarios = trace replay of the interleaving model: 1..7 connections of kinds wrong greeting / right prefix wrong id or port / "
            "right greeting (first, second, after the winner) / greeting split across two writes / greeting followed by more bytes in the same write / "
            "13-digit id / flood (random, or greeting-prefixed, 0.3-6 KiB) / silent / connect-and-close / server hello, events (connect, write, close, in-band chunk, "
            "ACT with tunnel true/false delivered in-band or through the adopted connection, payload on adopted and non-adopted connections) interleaved at random, "
            "one event at a time, every kind alone and before/after a genuine greeting as corpus; racy scenarios (2..8 connections at once, random sub-2ms delays) judged by the direct oracles only; "
            "client scenarios: connector returns nil / right server / wrong, extended, split, echoing server / close without answer / silent / late (1.15 s) / dead connection. "
            "group tunnel-e2e: the real filter (SetTunnelConnector) against the real trz/tsz child processes, trigger line held back while intruders talk to the announced port, "
            "connector outcomes genuine / refuses / late / dead / reaches a silent stranger, stragglers (connect early, speak after the genuine handshake) and late-comers, "
            "in-band garbage written to the child's stdin after the tunnel was agreed; compared: who was answered and the path (tunnel / in-band). "
            "group tunnel-relay (the RELAY's tunnel code, relay.go, through a real trzsz.NewTrzszRelay with SetTunnelConnector on real 127.0.0.1 sockets; every scenario in a child process of the harness, "
            "9 sequential or 3 end-to-end scenarios per child, because the relay's tunnel pumps busy-loop once their connection is closed locally): "
            "rtunnel_rewrite = the real listenForTunnel on buffers with no / one / several / overlapping / prefix-extended occurrences of `:<id>:<server port>`; "
            "rtunnel_run = trace replay of the second interleaving model: 1..6 clients on the relay's announced port of the kinds of group tunnel plus `hello computed from the server's port`, a scripted connector "
            "(nil / reaches a harness server that answers right / for another id / for the relay's port / extended / split / echoes / is silent / closes / is dead), events interleaved at random one at a time, "
            "SetTunnelConnector(nil), payload on the adopted pair while the relay is handshaking (parked) and after resetToStandby (crosses both ways), payload on intruders and losers, "
            "a straggler greeting after the reset (second bridge in a later era), the client leaving after the reset; every client kind alone / before / after a genuine pair, every server kind, every end game as corpus; "
            "compared per client and per server connection: refused / closed unanswered / open / exactly which bytes arrived / closed by the relay, and which pair is in tunnelRelay; "
            "rtunnel_hs = the relay's own ACT/CFG handshake with bytes arriving IN-BAND at every point of it (keys typed at the client's terminal, noise printed by the server; before the ACT, between ACT and CFG, "
            "after the CFG, after the reset) for every shape of handshake (tunnel agreed with the ACT through the tunnel or typed in-band / a tunnel exists but the ACT says tunnel=false / no tunnel / confirm=false / a junk line), "
            "ended by nothing, by #EXIT: through the tunnel or by #EXIT: in-band; every phase alone and all together for every shape as corpus; compared: both in-band streams (the relay's own lines as tokens), "
            "what every tunnel connection received, who is adopted; tunnel segments around the handshake lines (the ACT's segment carries trailing bytes, a further client segment arrives inside the handshake, "
            "the CFG's segment carries trailing bytes, a further server segment follows, one more each way while transferring) with the per-direction oracle far stream = near stream (order and content); "
            "rtunnel_e2e = real filter -> real relay -> real trz/tsz child with the tunnel through the relay, the RELAYED trigger held back while intruders talk to the relay's port, keys typed in-band at the relay's client side "
            "before the ACT, between ACT and CFG (the server's CFG is held back on the relay's tunnel connection meanwhile) and after the CFG, both tunnel hops logged. "
            "non-trivial = every scenario (at least one connection is handled); distinct = distinct input line",
    "trusted": ["modelled, not verified: the kernel's TCP (a Read returns what has arrived, at most the buffer size; a listener's backlog is FIFO; connecting to a closed listener is refused), "
                "the Go runtime (goroutines run, time.After fires, atomic.Pointer is sequentially consistent), JSON/zlib/base64 of the ACT line",
                "the statement skeleton of acceptOnTunnel, connectToTunnel, addReceivedData, cleanup, wrapTransferInput and of the tunnel parts of sendAction/recvAction is regenerated from the source "
                "(Gen/Skel_tunnel.v) and proved equal to the one the model transcribes (C17_skeleton)",
                "relay: the statement skeleton of SetTunnelConnector, listenForTunnel, acceptOnTunnel, handleTunnelConn, newTunnelRelay, tunnelRelay.wrapInput / wrapOutput and resetToStandby, every send into / close of a bridge channel "
                "with its guard, every write of tunnelRelay / tunnelConnected / tunnelListener / tunnelConnector / tr.relay, every write of the plain fields r.trigger / r.tunnelRelayPort and every start of a tunnel goroutine are regenerated "
                "(Gen/Skel_rtunnel.v) and proved equal to what the model transcribes (C17_relay_skeleton); channel capacity, read sizes, pump buffer size and the rewrite format come from Gen/Consts.v (rtunnel_*)"],
    "assumptions": ["sequentially consistent interleaving of the acceptor, handler, pump, connector, select and main goroutines at the granularity of one I/O / atomic / channel / wait-group / timer operation",
                    "reads of the unsynchronised local `timeout` of connectToTunnel return an arbitrary boolean (no theorem relies on it)",
                    "the `stopped` flag of addReceivedData (which only discards) is not modelled",
                    "the peer that knows the transfer's id and port (both shown on the terminal) is by definition authenticated: what an ADOPTED connection sends is the transfer's input",
                    "relay model: one trigger (one listener, one quadruple of hellos) with resetToStandby and everything that keeps running after it; resetToStandby's four tunnel statements are one step "
                    "(it runs under the relayStatus compare-and-swap and never concurrently with the relay's own sends); a pump's Read and the channel send that follows are one step; relayStatus is outside the model "
                    "as far as it decides where bytes go: the status word, tunnelConnected, the two handshake buffers, bufferLock, the handshake goroutine's program point and the two in-band pumps are in the model; how many bytes a readLine of the "
                    "handshake goroutine consumes, whether the line decodes, the ACT's tunnel/confirm fields and the bytes of the lines the relay writes itself are arbitrary (carried by the label); a pump's Read, its status check and "
                    "addHandshakeBuffer or the send that follows are one step, as are the two loads and the send of sendStringToClient/ToServer and of one round of flushHandshakeBuffer; a second trigger and the trigger detector on in-band output are outside",
                    "relay: the unsynchronised plain fields r.trigger and r.tunnelRelayPort (read by every handler, written by wrapOutput at the NEXT trigger) are outside the model: a handler still running when a second trigger arrives "
                    "would dial the new server port with the old id (rejected by that server, C17_unauth_closed_unanswered)",
                    "relay: a server connection that answers the hello for (id, server port) is by definition the transfer's server (it knows id and port), as a client that presents the hello for (id, relay port) is the transfer's client"],
}
TEXT = {
    "text": "Machine-checked proof over an executable interleaving model of acceptOnTunnel / connectToTunnel / addReceivedData / sendAction / recvAction (every schedule, every number and behaviour of connecting peers): "
            "whatever is adopted had its single first read equal to the hello derived from id and port; at most one connection ever wins the compare-and-swap and the cell never changes again; a connection presenting anything else "
            "gets no byte and is closed by the very next step of its handler; only the adopted connection's bytes enter the transfer's buffer; once tunnelConnected is set no in-band chunk does; without an adopted connection the "
            "writer stays the terminal, nothing is dropped and the ACT says tunnel=false; sendAction gets past the wait in at most five steps of the client's own threads and the timer. "
            "WITH A RELAY IN THE PATH, a second interleaving model of the relay's own tunnel code (listenForTunnel, acceptOnTunnel, handleTunnelConn, newTunnelRelay, tunnelRelay.wrapInput/wrapOutput, resetToStandby): a client connection is bridged "
            "to the server only if its single first read was exactly the hello for (id, relay port) and the single answer of the connection the connector returned was exactly the hello for (id, server port); the client is answered only after the "
            "server answered; a client presenting anything else gets no byte, no server connection is even opened for it, and its handler's next statement closes it; tunnelRelay holds a pair exactly when it won the compare-and-swap since the last "
            "reset, at most one per era, and changes only by a reset; every chunk on a bridge was read from that pair's own other connection or sent by the relay itself, and only a pair that won ever has a chunk, a pump or the back-pointer; the pair "
            "that loses the swap gets both connections closed; once tunnelConnected is set (the relay has read an ACT with tunnel=true) a chunk the relay reads in-band — in any phase of its handshake, while transferring, after the reset — is never parked, "
            "never in a bridge, never written to a tunnel connection, but passed on in-band unchanged in that very step, and nothing read from a tunnel connection is written in-band while tunnelConnected is set; per pair and direction what is written to the far tunnel connection, then in the bridge's channel, then parked in the relay's handshake buffer is — in this order — what the pump read from the near connection with bytes left out and nothing overtaken (C17_relay_order), a pump forwards only when nothing of its pair and direction is parked; the rewrite of `:<id>:<server port>` to `:<id>:<relay port>` in the relayed trigger is what makes the genuine client's hello match (a hello computed from the server's port is rejected). "
            "Tied to the code by regenerated constants and statement skeleton, by trace replay of the extracted models against the real functions on real loopback sockets (the relay through trzsz.NewTrzszRelay, in child processes), "
            "and by end-to-end runs of the real binaries, with and without a relay, with scripted intruders.",
    "note": "Limits: a connection that presents the right hello after another one won the swap has been ANSWERED and is simply dropped (not adopted, feeds nothing; its descriptor is closed only when the Go garbage collector finalizes it); "
            "a connection that says nothing keeps its handler goroutine and descriptor until the process exits (the single Read has no deadline); a connection that is accepted but never adopted on the client (late connector) stays adopted and "
            "open on the server; between the handler's Write of the server hello and its CompareAndSwap a second AUTHENTICATED connection can win, in which case the first client believes it has a tunnel the server never reads (both peers know id and port, "
            "so outside the property's letter). The unsynchronised `timeout` flag is outside the model. "
            "Relay: 'at most one bridge EVER' is false and refuted in the model (C17_relay_at_most_one_ever_refuted: a client that connected before the listener was closed and greets only after resetToStandby wins a second swap if the connector still "
            "reaches somebody who answers with the server's hello; reproduced on the real relay by the correspondence run); between the relay's Write of the server hello to the client and its compare-and-swap a second authenticated pair can win, "
            "the loser is then closed; in-band bytes that reach the relay after the client's ACT line has been parked but before the handshake goroutine has stored tunnelConnected (a few instructions) are parked behind the ACT and flushed into the tunnel "
            "(C17_relay_inband_before_agreement_may_cross: they arrived before the agreement; not observed on the real relay); a reset between a handler's swap and its tr.relay.Store(r) leaves a non-adopted bridge with its back-pointer set (C17_relay_stale_backpointer_reachable; a window of a few instructions, not observed); a silent client "
            "or a silent server connection keeps its handler and descriptors for ever (no deadline on the single Reads). Observed, outside the listed properties: the relay's tunnel pumps busy-loop for ever once their own connection has been closed by the "
            "relay itself (C17_relay_obs_pump_spins_for_ever; counted in the evidence as observation:busy-loop).",
    "technique": "Coq proof (invariants over an executable labelled transition system) + regenerated constants and statement skeleton + trace-replay correspondence on real sockets + end-to-end oracle on the real binaries",
}
