PROP = {
    "groups": ["tunnel"],
    "timeout": 600,
    "rule": "real tunnel code on real 127.0.0.1 sockets",
    "trusted": [],
    "assumptions": [],
}
TEXT = {"text": "", "note": "", "technique": ""}
