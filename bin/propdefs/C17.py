PROP = {
    "groups": ["tunnel", "tunnel-e2e", "tunnel-relay"],
    "timeout": 300,
    "rule": "group tunnel (real tunnel code through export_verif_tunnel.go on real 127.0.0.1 sockets, in-process): "
            "getHelloConstant on ids of length 0..17 (digits, arbitrary bytes, ':' and '%') x ports incl. 0, negative and 64-bit extremes; "
            "sequential scenarios = trace replay of the interleaving model: 1..7 connections of kinds wrong greeting / right prefix wrong id or port / "
            "right greeting (first, second, after the winner) / greeting split across two writes / greeting followed by more bytes in the same write / "
            "13-digit id / flood (random, or greeting-prefixed, 0.3-6 KiB) / silent / connect-and-close / server hello, events (connect, write, close, in-band chunk, "
            "ACT with tunnel true/false delivered in-band or through the adopted connection, payload on adopted and non-adopted connections) interleaved at random, "
            "one event at a time, every kind alone and before/after a genuine greeting as corpus; racy scenarios (2..8 connections at once, random sub-2ms delays) judged by the direct oracles only; "
            "client scenarios: connector returns nil / right server / wrong, extended, split, echoing server / close without answer / silent / late (1.15 s) / dead connection. "
            "group tunnel-e2e: the real filter (SetTunnelConnector) against the real trz/tsz child processes, trigger line held back while intruders talk to the announced port, "
            "connector outcomes genuine / refuses / late / dead / reaches a silent stranger, stragglers (connect early, speak after the genuine handshake) and late-comers, "
            "in-band garbage written to the child's stdin after the tunnel was agreed; compared: who was answered and the path (tunnel / in-band). "
            "non-trivial = every scenario (at least one connection is handled); distinct = distinct input line",
    "trusted": ["modelled, not verified: the kernel's TCP (a Read returns what has arrived, at most the buffer size; a listener's backlog is FIFO; connecting to a closed listener is refused), "
                "the Go runtime (goroutines run, time.After fires, atomic.Pointer is sequentially consistent), JSON/zlib/base64 of the ACT line",
                "the statement skeleton of acceptOnTunnel, connectToTunnel, addReceivedData, cleanup, wrapTransferInput and of the tunnel parts of sendAction/recvAction is regenerated from the source "
                "(Gen/Skel_tunnel.v) and proved equal to the one the model transcribes (C17_skeleton)"],
    "assumptions": ["sequentially consistent interleaving of the acceptor, handler, pump, connector, select and main goroutines at the granularity of one I/O / atomic / channel / wait-group / timer operation",
                    "reads of the unsynchronised local `timeout` of connectToTunnel return an arbitrary boolean (no theorem relies on it)",
                    "the `stopped` flag of addReceivedData (which only discards) is not modelled",
                    "the peer that knows the transfer's id and port (both shown on the terminal) is by definition authenticated: what an ADOPTED connection sends is the transfer's input",
                    "the relay's own tunnel code (relay.go) is not covered"],
}
TEXT = {
    "text": "Machine-checked proof over an executable interleaving model of acceptOnTunnel / connectToTunnel / addReceivedData / sendAction / recvAction (every schedule, every number and behaviour of connecting peers): "
            "whatever is adopted had its single first read equal to the hello derived from id and port; at most one connection ever wins the compare-and-swap and the cell never changes again; a connection presenting anything else "
            "gets no byte and is closed by the very next step of its handler; only the adopted connection's bytes enter the transfer's buffer; once tunnelConnected is set no in-band chunk does; without an adopted connection the "
            "writer stays the terminal, nothing is dropped and the ACT says tunnel=false; sendAction gets past the wait in at most five steps of the client's own threads and the timer. Tied to the code by regenerated constants "
            "and statement skeleton, by trace replay of the extracted model against the real functions on real loopback sockets, and by end-to-end runs of the real binaries with scripted intruders.",
    "note": "Limits: a connection that presents the right hello after another one won the swap has been ANSWERED and is simply dropped (not adopted, feeds nothing; its descriptor is closed only when the Go garbage collector finalizes it); "
            "a connection that says nothing keeps its handler goroutine and descriptor until the process exits (the single Read has no deadline); a connection that is accepted but never adopted on the client (late connector) stays adopted and "
            "open on the server; between the handler's Write of the server hello and its CompareAndSwap a second AUTHENTICATED connection can win, in which case the first client believes it has a tunnel the server never reads (both peers know id and port, "
            "so outside the property's letter). The unsynchronised `timeout` flag is outside the model.",
    "technique": "Coq proof (invariants over an executable labelled transition system) + regenerated constants and statement skeleton + trace-replay correspondence on real sockets + end-to-end oracle on the real binaries",
}
