PROP = {
    "shared_groups": "also runs the neighbouring groups whose code can break this property: e2e-pause (described under C18); e2e-stop (described under C10); archive (described under C15: its section 13 runs the real archive writer and the real recvFileDataV2 on destinations that fail - a swallowed write error makes the save stage spin and both sides wait for ever)",
    "groups": ["proc", "errtell", "e2e-hang", "e2e-pause", "e2e-stop", "archive", "cfgtimeout"],
    "rule": "proc: for each of the three generated nets (send, recv, hash) the numbers of goroutines, channels, "
            "defer-closed channels, range loops and the sorted channel capacities counted by an independent name-based "
            "go/ast walk vs the numbers the extracted model computes from the generated skeleton; proc_faults: 'every return "
            "of a stage goroutine that is not behind ctx.Done()/ctx.Err() and does not follow a result send is directly "
            "preceded by a call of cancel', the number of `defer ...cancel(nil)` of the main function and the number of "
            "error tests separated from their operation by a select, decided by a plain go/ast walk, vs faults_cancel and "
            "the counts of the extracted model; plus the real sender against a peer that falls silent at the 1st/2nd DATA "
            "frame: goroutines left after the client returned vs wf(send_net) && faults_cancel(send_net); every case is "
            "non-trivial; distinct = distinct input line. "
            "errtell: the real clientError / serverError called with an error of every class the code distinguishes "
            "(plain error; *trzszError with errType \"\", fail, FAIL, EXIT, panic, colon, SUCC x trace flag x message is / is not "
            "the text of errStoppedAndDeleted) x stopAndDelete flag x a created file exists or not x tunnel state (none / a "
            "connection accepted but the ACT not read = the window / connected), 696 cases: the lines written to the peer (type, "
            "with or without the deleted names, before or after cleanInput / serverExit, on the writer in force or on the accepted "
            "tunnel connection), whether "
            "the terminal was reset and whether the created file was deleted, vs the extracted interpreter run on the "
            "regenerated skeleton; direct oracles: a side whose error is not the peer's own EXIT/fail/FAIL line writes exactly "
            "one fail/FAIL line after cleanInput on the writer in force, the server exactly in the tunnel window the same line once "
            "more on the accepted tunnel connection (never outside it), a side whose error is such a line writes nothing. "
            "cfgtimeout: the real handshake in-process (client sendAction, server recvAction + sendConfig, client recvConfig over two "
            "pipes) for Timeout in {-5,-1,0,1,7,20,100} (thorough: also int32 extremes, 2, 19, 21, 3600) x the other members of the CFG "
            "record (each on its own, random mixtures, a client that announces protocol 2): the timeout both ends work with afterwards, "
            "whether getNewTimeout() arms a timer on either end, whether the record carried the member, vs the extracted model on the "
            "shape regenerated from the source; direct oracle timeout-not-honoured:<value>:<side>. "
            "e2e-hang: the real client (filter) against the real trz/tsz children with a fault injected at a sampled write boundary after the handshake has begun: one direction falls silent, one write is discarded, the server's input is closed, the source shrinks or disappears mid-transfer, the destination directory disappears, the destination file accepts no byte (a link to /dev/full opened with overwrite: ENOSPC on every write); oracles: both sides return within 3 x timeout + 6 s, and 1.5 s after all runs no goroutine with a trzszTransfer / sendDataWriter / recvDataReader frame is left in the client process.",
    "trusted": [
        "skeleton translator go/cmd/gen/skel_*.go: syntactic; classification table of wire/file calls (skTable); "
        "a call it cannot classify becomes Io Unknown, which wf rejects",
        "error paths (IoE k h): the translator follows the error variable an operation assigns (`x, err := OP()`, "
        "`if err := OP(); err != nil`) through the statements that follow, once knowing it holds an error (h) and once "
        "knowing it holds none; 'holds an error' = not nil and not io.EOF; an operation whose error path rejoins the normal "
        "path, or whose error nobody tests, stays a bare Io, which faults_cancel rejects; `if err != nil {..}` on an error "
        "that was not assigned by an operation of the table and `if cond { ...; return }` in a stage goroutine (other than "
        "`ch <- result; return`) are failures of the stage itself (IoE Check); error returns inside the codec wrappers around "
        "the channel-backed reader/writer surface as the error of the wrapper call",
        "modelled, not verified: Io operations return (wire read: data | stop | timeout with Timeout > 0, justified by "
        "buffer.go nextBuffer; wire write; file I/O; pause gate; a computation of the stage itself); goroutines started inside zstd are outside the model",
        "over-approximations of the language: Branch is a free choice, LoopCtx/LoopData heads may leave at any visit, "
        "break/continue/inlined return inside such a loop = skip the rest of the iteration, all goroutines of a net "
        "exist from the start (the net starts where the main function creates its context; what it does before is kept "
        "apart as <net>_main_prelude), deferred calls count as registered from the start",
        "cfgtimeout: go/cmd/gen/cfgtimeout.go reads the shape of sendConfig / recvConfig / newTransfer / getNewTimeout / the relay's "
        "recvConfig and the json tag as values; encoding/json is not modelled (a present integer member arrives as written, an absent one "
        "leaves the field); /repo/trzsz/export_verif_cfgtimeout.go (build tag verif)",
        "errtell: the error classes of the interpreter (errType \"\", fail, FAIL, EXIT, other) and the hand-written mapping "
        "of the harness's errType strings onto them (ocaml/m_errtell.ml, go/cmd/gen/errtell.go etTypeOf); "
        "/repo/trzsz/export_verif_errtell.go (build tag verif)",
    ],
    "assumptions": ["Timeout > 0 (a timeout <= 0 means the user asked to wait indefinitely; that such a wish reaches both ends unchanged "
                    "and arms no timer is C11_timeout_roundtrip; JSON itself is not modelled: a member that is present arrives as written, "
                    "an absent one leaves the default)",
                    "the Go runtime schedules runnable goroutines and fires timers (wall-clock bounds are measured, not proved): "
                    "between a fault and ctx.cancel the failing goroutine has to be scheduled (at most |h| + 2 times)",
                    "fault => cancel is proved per goroutine; for two error paths (file reader of the sender, decoder of the receiver: "
                    "a Read that fails after delivering bytes hands those bytes on before it cancels) the hand-over may wait for "
                    "a consumer: that it cannot wait for ever is 'no deadlock without a fault', exercised by the e2e sweep, not proved"],
    "nontrivial_floor": 0.3,
    "timeout": 600,
}
TEXT = {
    "text": "Machine-checked proof about the goroutine skeletons regenerated on every run from pipeline.go and append.go "
            "(process-network language, interleaving semantics with bounded channels, close flags, wait groups). "
            "(1) Every fault reaches ctx.cancel: the translator ties the error path of every operation that can fail (wire read, "
            "wire write, pause gate, file I/O, codec / parsing / consistency checks of a stage) to the operation; on every path "
            "through every error path the goroutine calls ctx.cancel before it leaves (faults_cancel = true for the send, receive "
            "and hash nets, by computation on the generated terms), and the main functions cancel on every exit (defer "
            "ctx.cancel(nil)). Consequence proved once for the language: from any reachable state in which an operation fails, "
            "along every execution the failing goroutine has not left and has taken fewer than |h|+2 own steps until the context "
            "is cancelled, it can move in every state until then (error paths that wait for nobody: all but two), and an "
            "execution can only stop with every goroutine exited. "
            "(2) From every reachable cancelled state every execution under every schedule has at most an explicit number of "
            "further steps and ends with every goroutine exited (well-formed nets: all three, the send net only since the fix of "
            "the buffer-size probing wait, a real goroutine leak found by this check: KNOWN_FINDINGS fixed bufinit-wait-leak). "
            "(3) A side that can still talk tells its peer why: the decision skeletons of clientError / serverError and of the "
            "error predicates they consult are regenerated and interpreted for all 320 error classes x environments: cleanInput first; "
            "exactly one fail/FAIL line on the writer in force (fail with the deleted names after a stop-and-delete that deleted "
            "something, else by the traceback flag) and, exactly when the server has accepted a tunnel connection but not yet read "
            "the ACT, the same line once more on that connection (a client on either path gets exactly one), unless the error is the "
            "peer's own EXIT/fail/FAIL line, then none; the server resets the terminal exactly once, "
            "last; the call sites in filter.go, trz.go, tsz.go are pinned. "
            "(4) A timeout of zero or less means wait indefinitely, on both ends: for every integer t the server's -t arrives as t in "
            "both transferConfigs after the handshake and a read timer is armed iff t > 0 (shape of sendConfig / recvConfig / newTransfer / "
            "getNewTimeout regenerated as values; tied by the real in-process handshake over a ladder of timeouts around zero). "
            "Tied to the code by regenerating the skeletons, by translator sanity counts, by calling the real clientError / "
            "serverError on every error class, and by fault injection on the real client and server with hang and "
            "goroutine-leak oracles.",
    "note": "Trusted: Coq kernel, skeleton translators, extraction, OCaml driver, Go harness. Not proved: wall-clock bounds, "
            "absence of deadlock without a fault (so: that the two error paths that first hand bytes on cannot wait for ever), "
            "the check/send race on ctx.succ (send on a closed channel is a modelled panic step, not excluded). Observed: in "
            "trz/tsz the recover that turns a panic into a FAIL line is deferred in TrzMain/TszMain, not in the goroutine "
            "that runs the transfer (a panic there ends the process without a line; C12 is the property about panics).",
    "technique": "Coq proof (truncated measure for boundedness; rank induction for deadlock freedom; per-goroutine error-path analysis for fault => cancel; exhaustive interpretation of the error-reporting skeleton) over regenerated skeletons + translator sanity counts + real clientError/serverError on every error class + fault sweep on the real client and server",
}
