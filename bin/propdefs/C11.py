PROP = {
    "groups": ["proc", "errtell", "e2e-hang"],
    "rule": "proc: for each of the three generated nets (send, recv, hash) the numbers of goroutines, channels, "
            "defer-closed channels, range loops and the sorted channel capacities counted by an independent name-based "
            "go/ast walk vs the numbers the extracted model computes from the generated skeleton; plus the real sender "
            "against a peer that falls silent at the 1st/2nd DATA frame: goroutines left after the client returned vs "
            "wf(send_net); every case is non-trivial; distinct = distinct input line. "
            "e2e-hang: the real client (filter) against the real trz/tsz children with a fault injected at a sampled write boundary after the handshake has begun: one direction falls silent, one write is discarded, the server's input is closed, the source shrinks or disappears mid-transfer, the destination directory disappears; oracles: both sides return within 3 x timeout + 6 s, and 1.5 s after all runs no goroutine with a trzszTransfer / sendDataWriter / recvDataReader frame is left in the client process.",
    "trusted": [
        "skeleton translator go/cmd/gen/skel_*.go: syntactic; classification table of wire/file calls (skTable); "
        "a call it cannot classify becomes Io Unknown, which wf rejects",
        "modelled, not verified: Io operations return (wire read: data | stop | timeout with Timeout > 0, justified by "
        "buffer.go nextBuffer; wire write; file I/O; pause gate); goroutines started inside zstd are outside the model",
        "over-approximations of the language: Branch is a free choice, LoopCtx/LoopData heads may leave at any visit, "
        "break/continue/inlined return inside such a loop = skip the rest of the iteration, all goroutines of a net "
        "exist from the start, deferred calls count as registered from the start",
    ],
    "assumptions": ["Timeout > 0 (a timeout <= 0 means the user asked to wait indefinitely)",
                    "the Go runtime schedules runnable goroutines and fires timers (wall-clock bounds are measured, not proved)",
                    "theorems start from a state in which some stage has called ctx.cancel; that every fault reaches such a call is exercised by the e2e fault sweep, not proved here"],
    "nontrivial_floor": 0.3,
    "timeout": 600,
}
TEXT = {
    "text": "Machine-checked proof about the goroutine skeletons regenerated on every run from pipeline.go and append.go "
            "(process-network language, interleaving semantics with bounded channels, close flags, wait groups): for every "
            "well-formed net, from every reachable state in which the context is cancelled, every execution under every "
            "schedule has at most an explicit number of further steps and ends with every goroutine exited. "
            "The send net, the receive net and the hash net are all well-formed (the send net only since the fix of the "
            "buffer-size probing wait, a real goroutine leak found by this check: KNOWN_FINDINGS fixed bufinit-wait-leak). "
            "The theorems are tied to the code by regenerating the skeletons, by translator sanity counts, and by fault "
            "injection on the real client and server with hang and goroutine-leak oracles.",
    "note": "Trusted: Coq kernel, skeleton translator, extraction, OCaml driver, Go harness. Not proved: wall-clock bounds, "
            "fault => cancel for each fault kind, absence of deadlock without a fault, the check/send race on ctx.succ "
            "(send on a closed channel is a modelled panic step, not excluded).",
    "technique": "Coq proof (truncated measure for boundedness; rank induction for deadlock freedom) over regenerated skeletons + translator sanity counts + silent-peer scenario on the real sender",
}
