PROP = {
    "shared_groups": "also runs the neighbouring groups whose code can break this property: relayneg (described under C14)",
    "groups": ["names", "names07", "recvfiles", "names-e2e", "relayneg"],
    "rule": "real receiver name handling (recvFileName over the wire, createFile, unmarshalSourceFile+createDirOrFile with "
            "truncate on/off, archiveFileWriter.Write headers incl. nested, deleteCreatedFiles, getNewName) in real directory "
            "trees <private mktemp root>/l1/../l8/r/sb/{dest,outside,evil} (11 levels deep, at most 6 '..' per name, so that a tree "
            "without the validation cannot escape the root): pre-states with colliding files/dirs, name.N series with gaps and full "
            "1001-series, file-where-dir-needed and vice versa; name sequences clean (unicode, spaces, leading dots, 251..255 "
            "bytes) and hostile ('..', 'a/../..', absolute, empty, '.', NUL, 256/300 bytes, malformed JSON); whole-tree snapshots "
            "(relative paths, types, bytes, mtimes) before, after every message and after the deletion are turned into an effect "
            "list and compared with the model's effect log, per-message accept/reject and chosen name, createdFiles, deleted list "
            "and both trees; filepath.Join itself is compared with the model's join; non-trivial = a message was refused, renamed, "
            "something was deleted or a full series was present; distinct = distinct input line. Series strata (names, recvfiles, names-e2e): name, name.0 .. name.999 all present "
            "(or all but one) and the messages ask for exactly that name - exhaustion must fail and touch nothing, a gap must be "
            "used; fresh-shape also requires the chosen name to have been free. Chain strata: one name (with fmt "
            "verbs) arrives 52-65 times or meets an existing chain name.0..name.100; oracle fresh-shape (local name = name or "
            "name.N, N the first free decimal counter). Group recvfiles: a scripted "
            "protocol-1 sender stream (NUM, per entry NAME [SIZE DATA.. MD5]) through the REAL recvFiles in the same deep sandboxes: "
            "plain files with repeated names; directory mode with several roots, colliding/renamed roots (x.0, x.1), empty "
            "directories, directory-only trees, records below an unannounced root, repeated and interleaved roots, archive records "
            "with their entry headers in the data stream (own and foreign path id), sessions failing in the middle; the returned "
            "name list, createdFiles and the tree are compared with NamesRecv.nr_run; direct oracle reported names = new top-level "
            "entries (no duplicates, nothing on failure). Group names-e2e: real trz/tsz binary against the real client filter, both "
            "directions, protocols 1-4, overwrite on/off, sources with empty directories / directory-only trees / files / trees, "
            "destinations that already hold the names, sources sent twice; oracle: the Saved message shown lists exactly the new "
            "top-level entries",
    "trusted": ["modelled, not verified: json.Unmarshal into sourceFile (an arbitrary function `decode` in every theorem); the "
                "operating system's path resolution, open/mkdir/unlink (Model/Fs.v transcribes Linux behaviour for a process that "
                "may do everything: ENOENT vs ENOTDIR/ENAMETOOLONG/EINVAL, NAME_MAX 255) — compared with the real kernel by the "
                "correspondence run, not proved; no symbolic or hard links, permissions, PATH_MAX, concurrent processes; Windows "
                "separator handling of checkFileName (os.IsPathSeparator) is not executed here"],
    "assumptions": ["overwrite was not requested (-y absent)",
                    "the destination is an absolute, clean path that exists as a directory (trz: filepath.Abs + checkPathWritable)",
                    "every entry of the prior file system has its parent directory (parent_closedb)",
                    "no symbolic links inside the destination (a pre-existing link that points at an existing file is the user's own state)"],
}
TEXT = {
    "text": "Machine-checked proof over the same executable model as C09 (getNewName, fileNameMap, createFile, createDirOrFile, "
            "doCreateDirectory, doCreateFile, archive entry headers, deleteCreatedFiles on a model file system with an effect log): "
            "with overwrite off, for every prior file system, destination, decoder and every sequence of NAME messages / archive "
            "headers (accepted or refused), with or without the final deletion, every pre-existing path keeps its node and bytes "
            "and is never the target of a create/open/truncate/remove; everything one message does lies under one fresh clean "
            "top-level name, which is the name returned; all accepted records with one path id get one name; every new top-level "
            "name was returned for some message; at the loop of recvFiles (directory records without a data stream included) the "
            "list reported as saved has no duplicates, is exactly the set of top-level names that are new, in the order of their "
            "first effect (entries carrying their archive's path id), and every reported name exists; name, name.0 .. name.999 "
            "all present => refusal with the state unchanged (plain names and JSON records), one gap => the gap is chosen; the "
            "chosen name is the first absent candidate. Tied to the code by regenerated constants and differential execution "
            "against the real functions in real directory trees with adversarial pre-states.",
    "note": "Partial at the flat message level only (C07_consistent_names_full stated, _partial proved); at the recvFiles level "
            "both directions are proved (C07_reported_roots, C07_reported_present); without the own-path-id condition the equality "
            "is refuted (C07_reported_roots_foreign_refuted = the known finding). The data exchange of an entry is not part of the "
            "recvFiles model (a failing exchange = a failing transfer, nothing reported); recvFileNameV3's prefix-hash exchange is "
            "C08's. Known finding: the name chosen for an archive ENTRY is never reported, so an entry with a foreign path id "
            "creates an unreported (fresh, inside) top-level name. Trusted/not covered as for C09.",
    "technique": "Coq proof (invariant 'every effect lies under a top-level name absent from the prior state') + regenerated "
                 "constants + extracted-model correspondence on real directory trees + direct snapshot oracles",
}
