PROP = {
    "groups": ["names", "names07", "recvfiles", "names-e2e"],
    "rule": "real receiver name handling (recvFileName over the wire, createFile, unmarshalSourceFile+createDirOrFile with "
            "truncate on/off, archiveFileWriter.Write headers incl. nested, deleteCreatedFiles, getNewName) in real directory "
            "trees <private mktemp root>/l1/../l8/r/sb/{dest,outside,evil} (11 levels deep, at most 6 '..' per name, so that a tree "
            "without the validation cannot escape the root): pre-states with colliding files/dirs, name.N series with gaps and full "
            "1001-series, file-where-dir-needed and vice versa; name sequences clean (unicode, spaces, leading dots, 251..255 "
            "bytes) and hostile ('..', 'a/../..', absolute, empty, '.', NUL, 256/300 bytes, malformed JSON); whole-tree snapshots "
            "(relative paths, types, bytes, mtimes) before, after every message and after the deletion are turned into an effect "
            "list and compared with the model's effect log, per-message accept/reject and chosen name, createdFiles, deleted list "
            "and both trees; filepath.Join itself is compared with the model's join; non-trivial = a message was refused, renamed, "
            "something was deleted or a full series was present; distinct = distinct input line",
    "trusted": ["modelled, not verified: json.Unmarshal into sourceFile (an arbitrary function `decode` in every theorem); the "
                "operating system's path resolution, open/mkdir/unlink (Model/Fs.v transcribes Linux behaviour for a process that "
                "may do everything: ENOENT vs ENOTDIR/ENAMETOOLONG/EINVAL, NAME_MAX 255) — compared with the real kernel by the "
                "correspondence run, not proved; no symbolic or hard links, permissions, PATH_MAX, concurrent processes; Windows "
                "separator handling of checkFileName (os.IsPathSeparator) is not executed here"],
    "assumptions": ["overwrite was not requested (-y absent)",
                    "the destination is an absolute, clean path that exists as a directory (trz: filepath.Abs + checkPathWritable)",
                    "every entry of the prior file system has its parent directory (parent_closedb)",
                    "no symbolic links inside the destination (a pre-existing link that points at an existing file is the user's own state)"],
}
TEXT = {
    "text": "Machine-checked proof over the same executable model as C09 (getNewName, fileNameMap, createFile, createDirOrFile, "
            "doCreateDirectory, doCreateFile, archive entry headers, deleteCreatedFiles on a model file system with an effect log): "
            "with overwrite off, for every prior file system, destination, decoder and every sequence of NAME messages / archive "
            "headers (accepted or refused), with or without the final deletion, every pre-existing path keeps its node and bytes "
            "and is never the target of a create/open/truncate/remove; everything one message does lies under one fresh clean "
            "top-level name, which is the name returned; all accepted records with one path id get one name; every new top-level "
            "name was returned for some message; name, name.0 .. name.999 all present => refusal with the state unchanged; the "
            "chosen name is the first absent candidate. Tied to the code by regenerated constants and differential execution "
            "against the real functions in real directory trees with adversarial pre-states.",
    "note": "Partial: of 'names returned = names created' the direction 'a returned name exists afterwards' is checked by the "
            "correspondence run and the direct oracle only (C07_consistent_names_full is stated, C07_consistent_names_partial "
            "proved). Known finding: the name chosen for an archive ENTRY is never reported, so an entry with a foreign path id "
            "creates an unreported (fresh, inside) top-level name. Trusted/not covered as for C09.",
    "technique": "Coq proof (invariant 'every effect lies under a top-level name absent from the prior state') + regenerated "
                 "constants + extracted-model correspondence on real directory trees + direct snapshot oracles",
}
