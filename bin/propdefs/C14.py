PROP = {
    "shared_groups": "also runs the neighbouring groups whose code can break this property: tunnel-relay (described under C17)",
    "groups": ["relayneg", "e2e-tmux-relay", "tunnel-relay"],
    "rule": "the REAL relay: (a) handshake() run through the export on relays with every tmux mode / known and unknown pane "
            "width / Windows-server flag: every client capability set (binary, support_dir, fork, tunnel each absent/false/true x "
            "protocol absent,0..9 x newline absent,\\n,!\\n) against a corpus with every server option, then random ACT x CFG "
            "objects with absent/null/unknown keys, undecodable ACT/CFG lines; (b) the same through trzsz.NewTrzszRelay over "
            "io.Pipes with a scripted client and server; (c) sequences of 1-5 transfers through ONE relay instance (success, "
            "exit from the server, #fail:/#FAIL: from either side, Ctrl-C, double Ctrl-C, refused, undecodable ACT, undecodable "
            "CFG, Ctrl-C during the handshake; end marker whole or split across two reads), each followed by a fresh trigger, "
            "status word, tunnelConnected flag and forwarding (raw / re-tagged / parked) compared after every chunk; the same with transfers over a REAL loopback tunnel (SetTunnelConnector, the client connects to the port the relay announces; ended by EXIT / #fail: / #FAIL: on the tunnel, Ctrl-C on the terminal, or refused) and with clients that claim a tunnel and decline, each followed by plain transfers through the same relay: no ACT offering binary without the tunnel and no unparked ACT may reach the server; (a2) the FRAMING of the handshake (fn handshake2, VerifRelayHandshake2): every Go client (on Windows / not, Windows server / not, tunnel / not) x relay outside tmux / tmux normal / tmux control x remembered clientIsWindows x confirmed / refused / no CFG / undecodable ACT, all mismatched framings (garbled and blocked readers), random objects with random framings - outcome, status, terminator of every line the relay sends, clientIsWindows afterwards; oracles relay-client-terminator, relay-server-terminator, relay-handshake-failed; (g) the relay's detector in stand-by (fn stand_by_read): one read through the real wrapOutput for plain / %output / %extended-output framing x relay with / without tunnel connector x trigger with port / :0 / no port field, port digits in version, id and surrounding output; oracles relay-trigger-not-taken / -taken / -altered, relay-port-not-rewritten; (d) chains of 1-4 relays; (f) end to end: the real client as a client on Windows and as a Unix client through 1-2 real relays against the real trz/tsz must complete with identical content; (e) the real "
            "server prefix of trz (recvAction, capability checks, sendConfig). Every case exercises a rewrite or a status "
            "change, so all are non-trivial; distinct = distinct input line ; group e2e-tmux-relay: the real `trzsz -r` inside a real tmux pane: the CFG line as the client read it carries tmux_output_junk, the relay's pane width and binary=false also for trz/tsz -b; consecutive transfers and a stopped one through the same relay, which then exits cleanly",
    "trusted": ["modelled, not verified: JSON text <-> object (the model starts at 'key absent/null or present with a typed value'; "
                "type errors and invalid base64/zlib are one class 'undecodable line'); the trigger detector is an oracle bit per "
                "server chunk (its behaviour is C06); what is parked during a handshake and flushed afterwards is C13; the tunnel "
                "connection itself (the relay's main-channel loops are modelled; the tunnel loops test the same markers, pinned by "
                "C14_source_pins)"],
    "assumptions": ["all relays of a chain see the same Windows-server fact (it is part of the trigger they all relay)",
                    "C14_recovers: each confirmed transfer ends with a chunk that carries an end sign as the relay reads it "
                    "(the chunking-independent statement is C14_recovers_any_chunking_full, refuted)",
                    "C14_narrow_config_wire / C14_same_result: no escape table in the CFG (trz/tsz never send one behind a relay: "
                    "C14_escape_never_behind_relay; with one the round trip fails: C14_escape_table_refuted)"],
    "timeout": 600,
}
TEXT = {
    "text": "Machine-checked proof over an executable model of the relay's handshake (relay.go recvAction/sendAction/recvConfig/"
            "sendConfig/handshake), of the two ends' use of ACT and CFG (transfer.go, trz.go, tsz.go) and of the relay's status "
            "automaton (wrapInput/wrapOutput/flushHandshakeBuffer/resetToStandby): one relay and any chain of relays only narrow "
            "(binary only with the tunnel, protocol capped at the relay's version, every other ACT field and every CFG field "
            "except tmux_output_junk / tmux_pane_width unchanged, for every JSON object whatever keys it has); both ends end up "
            "where a direct connection with the narrowed ACT would put them and agree with each other; every history of "
            "transfers each ending in a chunk with an end sign leaves the relay in standby with triggers detected again. "
            "Refuted with witnesses: recovery for every chunking (an end marker split across two reads), and preservation of an "
            "announced escape table. The model is tied to the code by regenerated constants and by differential execution of the "
            "extracted model against the real relay.",
    "note": "Trusted: Coq kernel, gen translator, ExtrOcamlBasic extraction, OCaml driver, Go harness and its two export files. "
            "Modelled not verified: encoding/json, base64/zlib framing, the trigger detector (C06), parking/flushing (C13), the tunnel.",
    "technique": "Coq proof (records, induction over the relay chain and over the history of transfers) + regenerated constants + "
                 "extracted-model correspondence against the real relay over pipes",
}
