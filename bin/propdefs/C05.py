PROP = {
    "shared_groups": "also runs the neighbouring groups whose code can break this property: zmodem (described under C19)",
    "groups": ["filter", "filter-history", "filter-exit", "zmodem"],
    "timeout": 600,
    "nontrivial_floor": 0.02,
    "rule": "group filter: the REAL trzsz.NewTrzszFilter over io.Pipes, all 16 option sets (DetectDragFile, DetectTraceLog, "
            "EnableZmodem, EnableOSC52), clipboard writer stubbed; fed chunk by chunk in both directions with a zero-length write "
            "as barrier; observables = every Write at clientOut / serverIn and every clipboard call, in order, compared with the "
            "extracted model on the same event list (c05_run). Inputs: every single-byte truncation/deletion/corruption of real trigger "
            "lines (those on which the real detector still fires are the stated exception and are counted, not fed), random binary, "
            "terminal escape sequences, zmodem-like headers with fewer than 12 hex digits, OSC52-like sequences cut at random chunk "
            "boundaries (incl. one crossing the 100000-byte limit), truncated and genuine trace-log markers (genuine ones: the "
            "documented exception, message canonicalised), typed path lists naming files that do not exist / malformed lists / "
            "bracketed paste, and lists of EXISTING paths (the documented exception: swallowed, ctrl-C, output dropped for 200 ms, "
            "upload command typed, its echo suppressed - followed in real time). Scanners detectDragFiles and trimVT100 also "
            "compared in isolation. non-trivial = more than one event or a scanner case with an escape/paste/firing path; "
            "distinct = distinct input line. group filter-history: probe, a real session ending in {none, success download (real tsz), "
            "success upload (real trz), server fail, client fail, client fail before the session is taken, ctrl-C stop with an old "
            "server, stop-and-delete API, stop prompt answered, stop prompt left open while the server fails (fixed by 0263b73: must pass), refused upload / download (chooser stand-in answers Cancel), garbage instead of "
            "CFG, CR-LF junk then 20 s timeout}, probe again in both directions; drag-and-drop histories followed in real time (a drop then a key of every class within the 300 ms window = called off, a drop then an ignored empty paste, a drop whose upload command the remote shell refuses, two drops within the window / during the 3 s bookkeeping / one after the other, a key during the bookkeeping: all of these ALSO evaluated by the model; a drop while a transfer runs, a drop whose upload the server fails, a drop ending in a real upload by a real trz), each followed by a probe of plain text, escape sequences, near-miss triggers and typed input; interrupt-window histories for drag uploads AND the UploadFiles API (a scripted server answers the client's own ctrl-C inside the 200 ms window with ordinary output / a fresh trigger line / both in one chunk in either order / ordinary then trigger / a trigger line split over two reads, plus a trigger just after the window): the non-firing ones evaluated by c05_run, ALL of them by c05_window (the window with the detector model of C06: what is shown and how many transfers start); histories under SetAffectedByWindows(true) in which the trigger line of a refused / failed / completed (real tsz) transfer is displayed again (ids ending 00, 10, 20) and must pass untouched. group filter-exit: the trzsz binary built from the "
            "repo around sh -c 'exit N' for N in {0,1,2,7,42,126,127,128,200,255} with several option flags, and 48 runs of a command "
            "that prints immediately before exiting.",
    "trusted": [
        "modelled as parameters, not verified here: the trigger detector (only C06_silent is assumed: no trigger => chunk unchanged), "
        "detectZmodem and the zmodem session object (C19), the macOS/Windows variants of detectDragFiles (the hold-back logic around "
        "them IS modelled; on Linux the detector is transcribed and the hold-back branch is proved unreachable), the texts replacing "
        "trace-log markers, os.Stat (an oracle), the ctrl-C recogniser used during a transfer",
        "exercised, not modelled: the pty layer (pty_unix.go), TrzszMain, promptui, the transfer protocol inside a session",
        "the interleaving semantics is sequentially consistent at the granularity of one Read of a pump / one step of a helper goroutine",
    ],
    "assumptions": [
        "C06_silent: a trigger detector that does not fire returns the chunk unchanged",
        "each read of the pumps is at most 32 KiB (one chunk = one Read)",
        "a history 'has come to rest' when no handleTrzsz / uploadDragFiles goroutine is alive, no zmodem session is "
        "referenced (C19), nothing is held back and no echo suppression is pending; C05_skip_pending covers the last one",
    ],
}
TEXT = {
    "text": "Machine-checked proof over an executable event-based model of filter.go (both pumps, OSC52 scanner, trace-log markers, "
            "drag detection incl. the Linux path-list parser and the 200 ms hold-back buffer, the uploadDragFiles and handleTrzsz "
            "goroutines): for every interleaving of reads of the two pumps and timer expiries from an idle state, as long as no "
            "detector fires, the terminal receives exactly the output chunks and the server exactly the typed bytes in order, the "
            "state stays idle; a drop called off by any key within the 300 ms window leaves no trace and a completed drag upload leaves only the echo suppression (C05_drag_called_off, C05_drag_upload_completes); in the 200 ms after the client's own ctrl-C exactly the chunks on which the detector fires are shown (disarmed) and start one transfer each, everything else is dropped, for every chunk list (C05_window_out, with C05_window_opens_drag/_api and C05_window_ends); a redisplayed trigger with a remembered id passes untouched (C05_redisplayed_trigger_inert, composed with the detector model of C06); OSC52 never influences forwarding; the Linux drag detector fires only on a chunk that is entirely a "
            "list of existing paths; along every run the session pointer is set exactly while one handler owns it, so after any "
            "history that has come to rest the wrapper is idle and transparent again. Tied to the code by regenerated constants, a "
            "regenerated control skeleton of wrapOutput/sendInput/handleTrzsz/uploadDragFiles pinned by reflexivity, and by "
            "differential execution of the extracted model against the real NewTrzszFilter over pipes; session histories and the exit "
            "status are checked by direct oracles on the real filter / binary.",
    "note": "Known finding on the unchanged tree: TrzszMain returns without draining the pty, so output written immediately before the "
            "wrapped command exits is lost in 5-15% of runs (exit status is passed on). The trigger/zmodem detectors are parameters "
            "(C06/C19). A stop prompt left open when a transfer ends by itself keeps swallowing keys until answered: quiescence "
            "includes 'prompt closed'.",
    "technique": "Coq proof (invariants over an interleaving semantics, induction over event lists) + regenerated constants and "
                 "control skeleton + extracted-model correspondence on the real filter + end-to-end oracles",
}
