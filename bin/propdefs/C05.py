PROP = {
    "groups": ["filter", "filter-history", "filter-exit"],
    "timeout": 600,
    "nontrivial_floor": 0.02,
    "rule": "TODO",
    "trusted": [],
    "assumptions": [],
}
TEXT = {"text": "TODO", "note": "TODO", "technique": "TODO"}
