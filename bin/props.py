# per-property configuration of bin/check: one file per property under bin/propdefs/
import os, glob, importlib.util

ALLOWED_AXIOMS = [
    # standard-library axioms that may appear in Print Assumptions (none is expected;
    # listed here by name if a library brings one in)
]

PROPS, TEXT = {}, {}
for _f in sorted(glob.glob(os.path.join(os.path.dirname(os.path.abspath(__file__)), "propdefs", "C*.py"))):
    _spec = importlib.util.spec_from_file_location("propdef_" + os.path.basename(_f)[:-3], _f)
    _m = importlib.util.module_from_spec(_spec)
    _spec.loader.exec_module(_m)
    _id = os.path.basename(_f)[:-3]
    PROPS[_id] = _m.PROP
    TEXT[_id] = _m.TEXT
