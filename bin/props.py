# per-property configuration of bin/check
ALLOWED_AXIOMS = [
    # standard-library axioms that may appear in Print Assumptions (none is expected;
    # listed here by name if a library brings one in)
]

PROPS = {
    "C04": {
        "groups": ["escape"],
        "rule": "escape/unescape/streaming-reader/writer/table-parser cases: every byte value x both built-in tables, "
                "all splits of a short escaped stream, random well-formed and ill-formed tables with payloads dense in "
                "leader/source/code bytes, random splits and caller buffer sizes; non-trivial = escaping changes the "
                "length, a chunk ends in the leader byte, a non-empty table is used, or a table is parsed; distinct = distinct input line",
        "trusted": ["modelled, not verified: JSON decoding and ISO-8859-1 encoding of the announced table (the model starts at the decoded array of strings); zstd in front of the escaper is an arbitrary byte function"],
        "assumptions": ["payload bytes are < 256", "chunks handed to the streaming reader are non-empty and caller buffers have length >= 1"],
    },
}
