open BinNums

module Pos =
 struct
  type mask =
  | IsNul
  | IsPos of positive
  | IsNeg
 end
