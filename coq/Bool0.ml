
(** val eqb : bool -> bool -> bool **)

let eqb b1 b2 =
  if b1 then b2 else if b2 then false else true
