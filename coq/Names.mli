open BinInt
open BinNat
open BinNums
open Bytes0
open Consts
open Datatypes
open Fs
open List0
open Path

val dec_aux : nat -> coq_N -> coq_N list -> coq_N list

val decimal : coq_N -> coq_N list

val candidate : name -> coq_N -> name

val find_fresh : fs -> path -> name -> coq_N -> nat -> name option

val get_new_name : fs -> path -> name -> name option

val valid_name : name -> bool

type checks = { chk_unmarshal : bool; chk_create_file : bool }

val code_checks : checks

type src = { s_id : coq_Z; s_rel : name list; s_isdir : bool; s_archive : bool }

type state = { st_fs : fs; st_log : effect list; st_created : path list;
               st_map : (coq_Z * name) list }

type config = { overwrite : bool; directory : bool; v3 : bool }

type result =
| NOk of name
| NErr

val init_state : fs -> state

val map_get : (coq_Z * name) list -> coq_Z -> name option

val do_create_file : path -> bool -> coq_N list -> state -> bool * state

val do_create_directory : path -> state -> bool * state

val create_file :
  checks -> config -> path -> name -> bool -> coq_N list -> state ->
  result * state

val set_map : state -> (coq_Z * name) list -> state

val create_leaf :
  src -> path -> bool -> coq_N list -> name -> state -> result * state

val create_dir_or_file :
  config -> path -> src -> name -> name list -> bool -> coq_N list -> state
  -> result * state

val recv_json :
  checks -> config -> path -> src option -> bool -> coq_N list -> state ->
  result * state

type msg =
| MName of coq_N list * coq_N list
| MEntry of coq_N list * coq_N list

val step :
  (coq_N list -> src option) -> checks -> config -> path -> msg -> state ->
  result * state

val recv_msgs :
  (coq_N list -> src option) -> checks -> config -> path -> msg list -> state
  -> (result * effect list) list * state

val delete_paths : path list -> fs -> (fs * effect list) * path list

val delete_created : state -> state * path list

type outcome = { o_results : (result * effect list) list; o_mid : state;
                 o_final : state; o_deleted : path list }

val recv_names_gen :
  (coq_N list -> src option) -> checks -> config -> path -> msg list -> bool
  -> fs -> outcome
