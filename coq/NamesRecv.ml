open BinInt
open BinNums
open Bytes0
open Datatypes
open Fs
open List0
open Names
open Path

(** val nr_add_name : name list -> name -> name list **)

let nr_add_name names ln =
  if existsb (list_eqb ln) names then names else app names (ln :: [])

type nr_record = { nr_raw : coq_N list; nr_payload : coq_N list;
                   nr_entries : (coq_N list * coq_N list) list }

type nr_kind =
| NrFile
| NrDir
| NrArchive

(** val nr_kind_of :
    (coq_N list -> src option) -> config -> coq_N list -> nr_kind **)

let nr_kind_of decode cfg raw =
  match if (||) cfg.v3 cfg.directory then decode raw else None with
  | Some s ->
    if s.s_archive then NrArchive else if s.s_isdir then NrDir else NrFile
  | None -> NrFile

(** val nr_entries_run :
    (coq_N list -> src option) -> checks -> config -> path -> (coq_N
    list * coq_N list) list -> state -> bool * state **)

let rec nr_entries_run decode ck cfg dest es st =
  match es with
  | [] -> (true, st)
  | p :: es' ->
    let (raw, pl) = p in
    let (r, st1) = step decode ck cfg dest (MEntry (raw, pl)) st in
    (match r with
     | NOk _ -> nr_entries_run decode ck cfg dest es' st1
     | NErr -> (false, st1))

(** val nr_recv_files :
    (coq_N list -> src option) -> checks -> config -> path -> nr_record list
    -> state -> name list -> name list option * state **)

let rec nr_recv_files decode ck cfg dest rs st names =
  match rs with
  | [] -> ((Some names), st)
  | r :: rs' ->
    let (r0, st1) =
      step decode ck cfg dest (MName (r.nr_raw, r.nr_payload)) st
    in
    (match r0 with
     | NOk ln ->
       let names' = nr_add_name names ln in
       (match nr_kind_of decode cfg r.nr_raw with
        | NrArchive ->
          let (b, st2) = nr_entries_run decode ck cfg dest r.nr_entries st1 in
          if b
          then nr_recv_files decode ck cfg dest rs' st2 names'
          else (None, st2)
        | _ -> nr_recv_files decode ck cfg dest rs' st1 names')
     | NErr -> (None, st1))

(** val nr_own_record :
    (coq_N list -> src option) -> config -> nr_record -> bool **)

let nr_own_record decode cfg r =
  match nr_kind_of decode cfg r.nr_raw with
  | NrArchive ->
    (match decode r.nr_raw with
     | Some s ->
       forallb (fun e ->
         match decode (fst e) with
         | Some se -> Z.eqb se.s_id s.s_id
         | None -> true) r.nr_entries
     | None -> true)
  | _ -> true

(** val nr_own :
    (coq_N list -> src option) -> config -> nr_record list -> bool **)

let nr_own decode cfg rs =
  forallb (nr_own_record decode cfg) rs

(** val nr_run_gen :
    (coq_N list -> src option) -> checks -> config -> path -> nr_record list
    -> fs -> name list option * state **)

let nr_run_gen decode ck cfg dest rs f0 =
  nr_recv_files decode ck cfg dest rs (init_state f0) []
