open BinNums
open Bytes0
open Datatypes
open List0
open Path

type nd_entry = { nd_abs : coq_N list; nd_rel : name list }

(** val nd_join : name list -> coq_N list **)

let rec nd_join = function
| [] -> []
| c :: rest ->
  (match rest with
   | [] -> c
   | _ :: _ -> app c (slash :: (nd_join rest)))

(** val nd_mem : coq_N list -> coq_N list list -> bool **)

let nd_mem p seen =
  existsb (list_eqb p) seen

(** val nd_check_from :
    coq_N list list -> nd_entry list -> coq_N list option **)

let rec nd_check_from seen = function
| [] -> None
| e :: es' ->
  let p = nd_join e.nd_rel in
  if nd_mem p seen then Some p else nd_check_from (p :: seen) es'

(** val nd_check : nd_entry list -> coq_N list option **)

let nd_check es =
  nd_check_from [] es

type nd_verdict =
| NdRefused of coq_N list
| NdSend of nd_entry list

(** val nd_guard : bool -> nd_entry list -> nd_verdict **)

let nd_guard overwrite es =
  if overwrite
  then (match nd_check es with
        | Some p -> NdRefused p
        | None -> NdSend es)
  else NdSend es
