open Datatypes
open Pause
open PeanoNat

type oph =
| OIdle
| OGate of nat
| ORead of nat

type kph =
| KIdle
| KHave of nat
| KIn of nat * sphase

type yev =
| YTick
| YPause
| YResume
| YPSCall
| YPSWrite
| YPSPush
| YPATake
| YDCall
| YKTake
| YKCall
| YKWrite

type bst = { yPausing : bool; yPS : csph; yPcnt : nat; yD : oph;
             yDq : nat list; yDeliv : nat list; yK : kph; yKq : nat list;
             yPA : rph; yPAq : wline list; yPacked : nat; yBad : bool;
             yEp : epi }

(** val y_setPS : bst -> csph -> nat -> bst **)

let y_setPS b p c =
  { yPausing = b.yPausing; yPS = p; yPcnt = c; yD = b.yD; yDq = b.yDq;
    yDeliv = b.yDeliv; yK = b.yK; yKq = b.yKq; yPA = b.yPA; yPAq = b.yPAq;
    yPacked = b.yPacked; yBad = b.yBad; yEp = b.yEp }

(** val y_setD : bst -> oph -> nat list -> bst **)

let y_setD b p q =
  { yPausing = b.yPausing; yPS = b.yPS; yPcnt = b.yPcnt; yD = p; yDq = q;
    yDeliv = b.yDeliv; yK = b.yK; yKq = b.yKq; yPA = b.yPA; yPAq = b.yPAq;
    yPacked = b.yPacked; yBad = b.yBad; yEp = b.yEp }

(** val y_setK : bst -> kph -> nat list -> bst **)

let y_setK b p q =
  { yPausing = b.yPausing; yPS = b.yPS; yPcnt = b.yPcnt; yD = b.yD; yDq =
    b.yDq; yDeliv = b.yDeliv; yK = p; yKq = q; yPA = b.yPA; yPAq = b.yPAq;
    yPacked = b.yPacked; yBad = b.yBad; yEp = b.yEp }

(** val y_setPA : bst -> rph -> wline list -> nat -> bst **)

let y_setPA b p q acked =
  { yPausing = b.yPausing; yPS = b.yPS; yPcnt = b.yPcnt; yD = b.yD; yDq =
    b.yDq; yDeliv = b.yDeliv; yK = b.yK; yKq = b.yKq; yPA = p; yPAq = q;
    yPacked = acked; yBad = b.yBad; yEp = b.yEp }

(** val y_bad : bst -> bst **)

let y_bad b =
  { yPausing = b.yPausing; yPS = b.yPS; yPcnt = b.yPcnt; yD = b.yD; yDq =
    b.yDq; yDeliv = b.yDeliv; yK = b.yK; yKq = b.yKq; yPA = b.yPA; yPAq =
    b.yPAq; yPacked = b.yPacked; yBad = true; yEp = b.yEp }

(** val y_flags : bst -> bool -> epi -> bst **)

let y_flags b pa e =
  { yPausing = pa; yPS = b.yPS; yPcnt = b.yPcnt; yD = b.yD; yDq = b.yDq;
    yDeliv = b.yDeliv; yK = b.yK; yKq = b.yKq; yPA = b.yPA; yPAq = b.yPAq;
    yPacked = b.yPacked; yBad = b.yBad; yEp = e }

(** val y_deliver : bst -> oph -> nat list -> nat -> bst **)

let y_deliver b p q k =
  { yPausing = b.yPausing; yPS = b.yPS; yPcnt = b.yPcnt; yD = p; yDq = q;
    yDeliv = (app b.yDeliv (k :: [])); yK = b.yK; yKq =
    (app b.yKq (k :: [])); yPA = b.yPA; yPAq = b.yPAq; yPacked = b.yPacked;
    yBad = b.yBad; yEp = b.yEp }

(** val y_darrive : bst -> nat -> bst **)

let y_darrive b k =
  match b.yD with
  | ORead _ -> y_deliver b OIdle [] k
  | x -> y_setD b x (app b.yDq (k :: []))

(** val y_dcall : cfg -> bst -> bst **)

let y_dcall cf b =
  if b.yPausing
  then y_setD b (OGate cf.cSL) b.yDq
  else (match b.yDq with
        | [] -> y_setD b (ORead cf.cT) []
        | k :: q -> y_deliver b OIdle q k)

(** val y_paarrive : cfg -> bst -> wline -> bst **)

let y_paarrive cf b l =
  match b.yPA with
  | RIdle -> y_setPA b RIdle (app b.yPAq (l :: [])) b.yPacked
  | RRead _ ->
    (match l with
     | WLKeep -> y_setPA b (RRead cf.cT) b.yPAq b.yPacked
     | WLData _ -> y_setPA b RIdle b.yPAq (S b.yPacked))

(** val y_pacall : cfg -> bst -> bst **)

let y_pacall cf b =
  match first_data b.yPAq with
  | Some p -> let (_, q') = p in y_setPA b RIdle q' (S b.yPacked)
  | None -> y_setPA b (RRead cf.cT) [] b.yPacked

(** val y_kgate : cfg -> bst -> nat -> bst **)

let y_kgate cf b k =
  if b.yPausing
  then y_paarrive cf (y_setK b (KIn (k, (SSleep cf.cGL))) b.yKq) WLKeep
  else y_setK b (KIn (k, SPassed)) b.yKq

(** val y_live : nat -> bst -> bool **)

let y_live n b =
  Nat.ltb (length b.yDeliv) n

(** val y_quiescent : nat -> nat -> bst -> bool **)

let y_quiescent n w b =
  (&&)
    ((&&)
      ((&&)
        (match b.yPS with
         | CSPush _ -> Nat.leb w b.yPcnt
         | CSDone -> true
         | _ -> false)
        (negb
          (match b.yPA with
           | RIdle -> Nat.ltb O b.yPcnt
           | RRead _ -> false)))
      (negb (match b.yD with
             | OIdle -> y_live n b
             | _ -> false)))
    (match b.yK with
     | KIdle -> (match b.yKq with
                 | [] -> true
                 | _ :: _ -> false)
     | KHave _ -> false
     | KIn (_, p) -> (match p with
                      | SSleep _ -> true
                      | _ -> false))

(** val y_tickPA : bst -> bst **)

let y_tickPA b =
  match b.yPA with
  | RIdle -> b
  | RRead t0 ->
    (match t0 with
     | O -> y_bad b
     | S n0 ->
       (match n0 with
        | O -> y_bad b
        | S t -> y_setPA b (RRead (S t)) b.yPAq b.yPacked))

(** val y_tickD : cfg -> bst -> bst **)

let y_tickD cf b =
  match b.yD with
  | OIdle -> b
  | OGate j0 ->
    (match j0 with
     | O -> y_dcall cf b
     | S n0 ->
       (match n0 with
        | O -> y_dcall cf b
        | S j -> y_setD b (OGate (S j)) b.yDq))
  | ORead t0 ->
    (match t0 with
     | O -> y_bad b
     | S n0 ->
       (match n0 with
        | O -> y_bad b
        | S t -> y_setD b (ORead (S t)) b.yDq))

(** val y_tickK : cfg -> bst -> bst **)

let y_tickK cf b =
  match b.yK with
  | KIn (k, p) ->
    (match p with
     | SSleep slp ->
       (match slp with
        | O -> y_kgate cf b k
        | S n0 ->
          (match n0 with
           | O -> y_kgate cf b k
           | S j -> y_setK b (KIn (k, (SSleep (S j)))) b.yKq))
     | _ -> b)
  | _ -> b

(** val ystep : cfg -> nat -> nat -> nat -> bst -> yev -> bst option **)

let ystep cf n w p b = function
| YTick ->
  if (&&) (y_quiescent n w b)
       (match b.yEp with
        | EpPausing e -> Nat.ltb e p
        | _ -> true)
  then let b3 = y_tickK cf (y_tickD cf (y_tickPA b)) in
       Some (y_flags b3 b3.yPausing (ep_tick cf b.yEp))
  else None
| YPause ->
  (match b.yEp with
   | EpResumed (_, _) -> None
   | x0 -> Some (y_flags b true (ep_pause x0)))
| YResume ->
  (match b.yEp with
   | EpPausing e ->
     if b.yPausing then Some (y_flags b false (EpResumed (e, O))) else None
   | _ -> None)
| YPSCall ->
  (match b.yPS with
   | CSGate k -> Some (y_setPS b (CSIn (k, SPassed)) b.yPcnt)
   | _ -> None)
| YPSWrite ->
  (match b.yPS with
   | CSIn (k, p0) ->
     (match p0 with
      | SPassed -> Some (y_darrive (y_setPS b (CSPush k) b.yPcnt) k)
      | _ -> None)
   | _ -> None)
| YPSPush ->
  (match b.yPS with
   | CSPush k ->
     if Nat.ltb b.yPcnt w
     then Some
            (y_setPS b (if Nat.ltb (S k) n then CSGate (S k) else CSDone) (S
              b.yPcnt))
     else None
   | _ -> None)
| YPATake ->
  (match b.yPA with
   | RIdle ->
     (match b.yPcnt with
      | O -> None
      | S c -> Some (y_pacall cf (y_setPS b b.yPS c)))
   | RRead _ -> None)
| YDCall ->
  (match b.yD with
   | OIdle -> if y_live n b then Some (y_dcall cf b) else None
   | _ -> None)
| YKTake ->
  (match b.yK with
   | KIdle ->
     (match b.yKq with
      | [] -> None
      | k :: q -> Some (y_setK b (KHave k) q))
   | _ -> None)
| YKCall -> (match b.yK with
             | KHave k -> Some (y_kgate cf b k)
             | _ -> None)
| YKWrite ->
  (match b.yK with
   | KIn (k, p0) ->
     (match p0 with
      | SPassed -> Some (y_paarrive cf (y_setK b KIdle b.yKq) (WLData k))
      | _ -> None)
   | _ -> None)

(** val yinit : nat -> bst **)

let yinit n =
  { yPausing = false; yPS = (match n with
                             | O -> CSDone
                             | S _ -> CSGate O); yPcnt = O; yD = OIdle; yDq =
    []; yDeliv = []; yK = KIdle; yKq = []; yPA = RIdle; yPAq = []; yPacked =
    O; yBad = false; yEp = EpNone }

type dstate = { dD : nat rstate; dDeliv : nat list; dK : kph; dKq : nat list;
                dPS : csph; dPcnt : nat; dPA : wline rstate; dPacked : 
                nat; dErrD : bool; dErrPA : bool; dEp : epi }

(** val d_setD :
    dstate -> nat rstate -> nat list -> nat list -> bool -> dstate **)

let d_setD s a dl kq err =
  { dD = a; dDeliv = dl; dK = s.dK; dKq = kq; dPS = s.dPS; dPcnt = s.dPcnt;
    dPA = s.dPA; dPacked = s.dPacked; dErrD = err; dErrPA = s.dErrPA; dEp =
    s.dEp }

(** val d_setPA : dstate -> wline rstate -> nat -> bool -> dstate **)

let d_setPA s r acked err =
  { dD = s.dD; dDeliv = s.dDeliv; dK = s.dK; dKq = s.dKq; dPS = s.dPS;
    dPcnt = s.dPcnt; dPA = r; dPacked = acked; dErrD = s.dErrD; dErrPA = err;
    dEp = s.dEp }

(** val d_setK : dstate -> kph -> nat list -> dstate **)

let d_setK s p q =
  { dD = s.dD; dDeliv = s.dDeliv; dK = p; dKq = q; dPS = s.dPS; dPcnt =
    s.dPcnt; dPA = s.dPA; dPacked = s.dPacked; dErrD = s.dErrD; dErrPA =
    s.dErrPA; dEp = s.dEp }

(** val d_setPS : dstate -> csph -> nat -> dstate **)

let d_setPS s p c =
  { dD = s.dD; dDeliv = s.dDeliv; dK = s.dK; dKq = s.dKq; dPS = p; dPcnt = c;
    dPA = s.dPA; dPacked = s.dPacked; dErrD = s.dErrD; dErrPA = s.dErrPA;
    dEp = s.dEp }

(** val d_setEp : dstate -> epi -> dstate **)

let d_setEp s e =
  { dD = s.dD; dDeliv = s.dDeliv; dK = s.dK; dKq = s.dKq; dPS = s.dPS;
    dPcnt = s.dPcnt; dPA = s.dPA; dPacked = s.dPacked; dErrD = s.dErrD;
    dErrPA = s.dErrPA; dEp = e }

(** val feedD : cfg -> dstate -> nat ev -> dstate **)

let feedD cf s e =
  let (a, o) = rstep cls_a cf s.dD e in
  (match o with
   | Some o0 ->
     (match o0 with
      | ODelivered (k, _) ->
        d_setD s a (app s.dDeliv (k :: [])) (app s.dKq (k :: [])) s.dErrD
      | _ -> d_setD s a s.dDeliv s.dKq true)
   | None -> d_setD s a s.dDeliv s.dKq s.dErrD)

(** val feedPA : cfg -> dstate -> wline ev -> dstate **)

let feedPA cf s e =
  let (r, o) = rstep cls_w cf s.dPA e in
  (match o with
   | Some o0 ->
     (match o0 with
      | ODelivered (_, _) -> d_setPA s r (S s.dPacked) s.dErrPA
      | _ -> d_setPA s r s.dPacked true)
   | None -> d_setPA s r s.dPacked s.dErrPA)

(** val d_emit : cfg -> dstate -> nat -> wout list -> dstate **)

let rec d_emit cf s k = function
| [] -> s
| w :: ws' ->
  (match w with
   | WKeep -> d_emit cf (feedPA cf s (EArrive WLKeep)) k ws'
   | WFrame -> d_emit cf (feedPA cf s (EArrive (WLData k))) k ws'
   | WStopErr -> d_emit cf s k ws')

(** val d_pausing : dstate -> bool **)

let d_pausing s =
  s.dD.core.pausing

(** val d_stopped : dstate -> bool **)

let d_stopped s =
  s.dD.core.stopped

(** val k_move : cfg -> dstate -> nat -> sphase -> sev -> dstate **)

let k_move cf s k p e =
  let (p', ws) = sphase_step cf (d_pausing s) (d_stopped s) p e in
  let s1 = d_emit cf s k ws in
  (match p' with
   | SIdle ->
     (match e with
      | SWrite -> d_setK s1 KIdle s1.dKq
      | _ -> d_setK s1 (KIn (k, p')) s1.dKq)
   | _ -> d_setK s1 (KIn (k, p')) s1.dKq)

(** val d_live : nat -> dstate -> bool **)

let d_live n s =
  Nat.ltb (length s.dDeliv) n

(** val d_quiescent : nat -> nat -> dstate -> bool **)

let d_quiescent n w s =
  (&&)
    ((&&)
      ((&&)
        (match s.dPS with
         | CSPush _ -> Nat.leb w s.dPcnt
         | CSDone -> true
         | _ -> false)
        (negb (match s.dPA.ph with
               | PIdle -> Nat.ltb O s.dPcnt
               | _ -> false)))
      (negb (match s.dD.ph with
             | PIdle -> d_live n s
             | _ -> false)))
    (match s.dK with
     | KIdle -> (match s.dKq with
                 | [] -> true
                 | _ :: _ -> false)
     | KHave _ -> false
     | KIn (_, p) -> (match p with
                      | SSleep _ -> true
                      | _ -> false))

(** val ydstep :
    cfg -> nat -> nat -> nat -> dstate -> yev -> dstate option **)

let ydstep cf n w p s = function
| YTick ->
  if (&&) (d_quiescent n w s)
       (match s.dEp with
        | EpPausing e -> Nat.ltb e p
        | _ -> true)
  then let s1 = feedD cf (feedPA cf s ETick) ETick in
       let s2 =
         match s1.dK with
         | KIn (k, p0) ->
           (match p0 with
            | SSleep j -> k_move cf s1 k (SSleep j) STick
            | _ -> s1)
         | _ -> s1
       in
       Some (d_setEp s2 (ep_tick cf s.dEp))
  else None
| YPause ->
  (match s.dEp with
   | EpResumed (_, _) -> None
   | _ -> Some (d_setEp (feedD cf s EPause) (ep_pause s.dEp)))
| YResume ->
  (match s.dEp with
   | EpPausing e ->
     if d_pausing s
     then Some (d_setEp (feedD cf s EResume) (EpResumed (e, O)))
     else None
   | _ -> None)
| YPSCall ->
  (match s.dPS with
   | CSGate k -> Some (d_setPS s (CSIn (k, SPassed)) s.dPcnt)
   | _ -> None)
| YPSWrite ->
  (match s.dPS with
   | CSIn (k, p0) ->
     (match p0 with
      | SPassed -> Some (feedD cf (d_setPS s (CSPush k) s.dPcnt) (EArrive k))
      | _ -> None)
   | _ -> None)
| YPSPush ->
  (match s.dPS with
   | CSPush k ->
     if Nat.ltb s.dPcnt w
     then Some
            (d_setPS s (if Nat.ltb (S k) n then CSGate (S k) else CSDone) (S
              s.dPcnt))
     else None
   | _ -> None)
| YPATake ->
  (match s.dPA.ph with
   | PIdle ->
     (match s.dPcnt with
      | O -> None
      | S c -> Some (feedPA cf (d_setPS s s.dPS c) ECall))
   | _ -> None)
| YDCall ->
  (match s.dD.ph with
   | PIdle -> if d_live n s then Some (feedD cf s ECall) else None
   | _ -> None)
| YKTake ->
  (match s.dK with
   | KIdle ->
     (match s.dKq with
      | [] -> None
      | k :: q -> Some (d_setK s (KHave k) q))
   | _ -> None)
| YKCall ->
  (match s.dK with
   | KHave k -> Some (k_move cf s k SIdle SCall)
   | _ -> None)
| YKWrite ->
  (match s.dK with
   | KIn (k, p0) ->
     (match p0 with
      | SPassed -> Some (k_move cf s k SPassed SWrite)
      | _ -> None)
   | _ -> None)

(** val ydinit : nat -> dstate **)

let ydinit n =
  { dD = rinit; dDeliv = []; dK = KIdle; dKq = []; dPS =
    (match n with
     | O -> CSDone
     | S _ -> CSGate O); dPcnt = O; dPA = rinit; dPacked = O; dErrD = false;
    dErrPA = false; dEp = EpNone }

(** val tmo_val : rcore -> nat **)

let tmo_val c =
  match c.tmo with
  | Some t -> t
  | None -> O

(** val yabs : dstate -> bst **)

let yabs s =
  { yPausing = s.dD.core.pausing; yPS = s.dPS; yPcnt = s.dPcnt; yD =
    (match s.dD.ph with
     | PIdle -> OIdle
     | PGate (_, j) -> OGate j
     | PRead _ -> ORead (tmo_val s.dD.core)); yDq = s.dD.queue; yDeliv =
    s.dDeliv; yK = s.dK; yKq = s.dKq; yPA =
    (match s.dPA.ph with
     | PRead _ -> RRead (tmo_val s.dPA.core)
     | _ -> RIdle); yPAq = s.dPA.queue; yPacked = s.dPacked; yBad =
    ((||) s.dErrD s.dErrPA); yEp = s.dEp }

type pkph =
| PKWait of nat
| PKDone

type pmph =
| PMWait
| PMRead of nat
| PMDone

type uev =
| UTick
| UPause
| UResume
| UFACall
| USaved

type ust = { uPausing : bool; uFA : oph; uFAq : nat list; uFin : bool;
             uPK : pkph; uSaved : bool; uPM : pmph; uBad : bool; uEp : 
             epi }

(** val u_setFA : ust -> oph -> nat list -> ust **)

let u_setFA u p q =
  { uPausing = u.uPausing; uFA = p; uFAq = q; uFin = u.uFin; uPK = u.uPK;
    uSaved = u.uSaved; uPM = u.uPM; uBad = u.uBad; uEp = u.uEp }

(** val u_bad : ust -> ust **)

let u_bad u =
  { uPausing = u.uPausing; uFA = u.uFA; uFAq = u.uFAq; uFin = u.uFin; uPK =
    u.uPK; uSaved = u.uSaved; uPM = u.uPM; uBad = true; uEp = u.uEp }

(** val u_flags : ust -> bool -> epi -> ust **)

let u_flags u pa e =
  { uPausing = pa; uFA = u.uFA; uFAq = u.uFAq; uFin = u.uFin; uPK = u.uPK;
    uSaved = u.uSaved; uPM = u.uPM; uBad = u.uBad; uEp = e }

(** val u_deliver : ust -> nat list -> nat -> ust **)

let u_deliver u q = function
| O ->
  { uPausing = u.uPausing; uFA = OIdle; uFAq = q; uFin = u.uFin; uPK = u.uPK;
    uSaved = u.uSaved; uPM = u.uPM; uBad = u.uBad; uEp = u.uEp }
| S _ ->
  { uPausing = u.uPausing; uFA = OIdle; uFAq = q; uFin = true; uPK = u.uPK;
    uSaved = u.uSaved; uPM =
    (match u.uPM with
     | PMWait -> PMWait
     | _ -> PMDone); uBad = u.uBad; uEp = u.uEp }

(** val u_arrive : ust -> nat -> ust **)

let u_arrive u l =
  match u.uFA with
  | ORead _ -> u_deliver u [] l
  | x -> u_setFA u x (app u.uFAq (l :: []))

(** val u_facall : cfg -> ust -> ust **)

let u_facall cf u =
  if u.uPausing
  then u_setFA u (OGate cf.cSL) u.uFAq
  else (match u.uFAq with
        | [] -> u_setFA u (ORead cf.cT) []
        | l :: q -> u_deliver u q l)

(** val u_poll : cfg -> nat -> ust -> ust **)

let u_poll cf fP u =
  if u.uSaved
  then u_arrive { uPausing = u.uPausing; uFA = u.uFA; uFAq = u.uFAq; uFin =
         u.uFin; uPK = PKDone; uSaved = true; uPM =
         (match u.uPM with
          | PMWait -> PMRead cf.cT
          | x -> x); uBad = u.uBad; uEp = u.uEp } (S O)
  else u_arrive { uPausing = u.uPausing; uFA = u.uFA; uFAq = u.uFAq; uFin =
         u.uFin; uPK = (PKWait fP); uSaved = false; uPM = u.uPM; uBad =
         u.uBad; uEp = u.uEp } O

(** val u_quiescent : ust -> bool **)

let u_quiescent u =
  negb (match u.uFA with
        | OIdle -> negb u.uFin
        | _ -> false)

(** val u_tickPM : ust -> ust **)

let u_tickPM u =
  match u.uPM with
  | PMRead t0 ->
    (match t0 with
     | O -> u_bad u
     | S n ->
       (match n with
        | O -> u_bad u
        | S t ->
          { uPausing = u.uPausing; uFA = u.uFA; uFAq = u.uFAq; uFin = u.uFin;
            uPK = u.uPK; uSaved = u.uSaved; uPM = (PMRead (S t)); uBad =
            u.uBad; uEp = u.uEp }))
  | _ -> u

(** val u_tickFA : cfg -> ust -> ust **)

let u_tickFA cf u =
  match u.uFA with
  | OIdle -> u
  | OGate j0 ->
    (match j0 with
     | O -> u_facall cf u
     | S n ->
       (match n with
        | O -> u_facall cf u
        | S j -> u_setFA u (OGate (S j)) u.uFAq))
  | ORead t0 ->
    (match t0 with
     | O -> u_bad u
     | S n ->
       (match n with
        | O -> u_bad u
        | S t -> u_setFA u (ORead (S t)) u.uFAq))

(** val u_tickPK : cfg -> nat -> ust -> ust **)

let u_tickPK cf fP u =
  match u.uPK with
  | PKWait j0 ->
    (match j0 with
     | O -> u_poll cf fP u
     | S n ->
       (match n with
        | O -> u_poll cf fP u
        | S j ->
          { uPausing = u.uPausing; uFA = u.uFA; uFAq = u.uFAq; uFin = u.uFin;
            uPK = (PKWait (S j)); uSaved = u.uSaved; uPM = u.uPM; uBad =
            u.uBad; uEp = u.uEp }))
  | PKDone -> u

(** val u_ep_tick : cfg -> epi -> epi **)

let u_ep_tick cf = function
| EpNone -> EpNone
| EpPausing e0 -> EpPausing (S e0)
| EpResumed (e0, j) ->
  if Nat.ltb j cf.cSL then EpResumed (e0, (S j)) else EpNone

(** val ustep : cfg -> nat -> nat -> ust -> uev -> ust option **)

let ustep cf fP p u = function
| UTick ->
  if (&&) (u_quiescent u)
       (match u.uEp with
        | EpPausing e -> Nat.ltb e p
        | _ -> true)
  then let u3 = u_tickPK cf fP (u_tickFA cf (u_tickPM u)) in
       Some (u_flags u3 u3.uPausing (u_ep_tick cf u.uEp))
  else None
| UPause ->
  (match u.uEp with
   | EpResumed (_, _) -> None
   | x0 -> Some (u_flags u true (ep_pause x0)))
| UResume ->
  (match u.uEp with
   | EpPausing e ->
     if u.uPausing then Some (u_flags u false (EpResumed (e, O))) else None
   | _ -> None)
| UFACall ->
  (match u.uFA with
   | OIdle -> if u.uFin then None else Some (u_facall cf u)
   | _ -> None)
| USaved ->
  if u.uSaved
  then None
  else (match u.uPK with
        | PKWait _ ->
          Some
            (u_poll cf fP { uPausing = u.uPausing; uFA = u.uFA; uFAq =
              u.uFAq; uFin = u.uFin; uPK = u.uPK; uSaved = true; uPM = u.uPM;
              uBad = u.uBad; uEp = u.uEp })
        | PKDone -> None)

(** val uinit : cfg -> nat -> ust **)

let uinit cf fP =
  u_poll cf fP { uPausing = false; uFA = OIdle; uFAq = []; uFin = false;
    uPK = (PKWait O); uSaved = false; uPM = PMWait; uBad = false; uEp =
    EpNone }

type k2ph =
| K2Call
| K2Sleep of nat
| K2Passed
| K2Wait of nat
| K2Done

type vev =
| VTick
| VPause
| VResume
| VKCall
| VKWrite
| VSaved
| VPFCall

type vst = { vPausing : bool; vK : k2ph; vSaved : bool; vPF : rph;
             vPFq : wline list; vPfin : bool; vBad : bool }

(** val v_setPF : vst -> rph -> wline list -> bool -> vst **)

let v_setPF v p q fin =
  { vPausing = v.vPausing; vK = v.vK; vSaved = v.vSaved; vPF = p; vPFq = q;
    vPfin = fin; vBad = v.vBad }

(** val v_setK : vst -> k2ph -> vst **)

let v_setK v k =
  { vPausing = v.vPausing; vK = k; vSaved = v.vSaved; vPF = v.vPF; vPFq =
    v.vPFq; vPfin = v.vPfin; vBad = v.vBad }

(** val is_final : nat -> bool **)

let is_final = function
| O -> false
| S _ -> true

(** val v_arrive : cfg -> vst -> wline -> vst **)

let v_arrive cf v l =
  match v.vPF with
  | RIdle -> v_setPF v RIdle (app v.vPFq (l :: [])) v.vPfin
  | RRead _ ->
    (match l with
     | WLKeep -> v_setPF v (RRead cf.cT) v.vPFq v.vPfin
     | WLData k -> v_setPF v RIdle v.vPFq ((||) v.vPfin (is_final k)))

(** val v_pfcall : cfg -> vst -> vst **)

let v_pfcall cf v =
  match first_data v.vPFq with
  | Some p ->
    let (k, q') = p in v_setPF v RIdle q' ((||) v.vPfin (is_final k))
  | None -> v_setPF v (RRead cf.cT) [] v.vPfin

(** val v_gate : cfg -> vst -> vst **)

let v_gate cf v =
  if v.vPausing
  then v_arrive cf (v_setK v (K2Sleep cf.cGL)) WLKeep
  else v_setK v K2Passed

(** val v_quiescent : vst -> bool **)

let v_quiescent v =
  (&&) (match v.vK with
        | K2Call -> false
        | K2Passed -> false
        | _ -> true)
    (negb (match v.vPF with
           | RIdle -> negb v.vPfin
           | RRead _ -> false))

(** val v_tickPF : vst -> vst **)

let v_tickPF v =
  match v.vPF with
  | RIdle -> v
  | RRead t0 ->
    (match t0 with
     | O ->
       { vPausing = v.vPausing; vK = v.vK; vSaved = v.vSaved; vPF = v.vPF;
         vPFq = v.vPFq; vPfin = v.vPfin; vBad = true }
     | S n ->
       (match n with
        | O ->
          { vPausing = v.vPausing; vK = v.vK; vSaved = v.vSaved; vPF = v.vPF;
            vPFq = v.vPFq; vPfin = v.vPfin; vBad = true }
        | S t -> v_setPF v (RRead (S t)) v.vPFq v.vPfin))

(** val v_tickK : cfg -> vst -> vst **)

let v_tickK cf v =
  match v.vK with
  | K2Sleep j0 ->
    (match j0 with
     | O -> v_gate cf v
     | S n ->
       (match n with
        | O -> v_gate cf v
        | S j -> v_setK v (K2Sleep (S j))))
  | K2Wait j0 ->
    (match j0 with
     | O -> v_setK v K2Call
     | S n ->
       (match n with
        | O -> v_setK v K2Call
        | S j -> v_setK v (K2Wait (S j))))
  | _ -> v

(** val vstep : cfg -> nat -> vst -> vev -> vst option **)

let vstep cf fP v = function
| VTick -> if v_quiescent v then Some (v_tickK cf (v_tickPF v)) else None
| VPause ->
  Some { vPausing = true; vK = v.vK; vSaved = v.vSaved; vPF = v.vPF; vPFq =
    v.vPFq; vPfin = v.vPfin; vBad = v.vBad }
| VResume ->
  Some { vPausing = false; vK = v.vK; vSaved = v.vSaved; vPF = v.vPF; vPFq =
    v.vPFq; vPfin = v.vPfin; vBad = v.vBad }
| VKCall -> (match v.vK with
             | K2Call -> Some (v_gate cf v)
             | _ -> None)
| VKWrite ->
  (match v.vK with
   | K2Passed ->
     if v.vSaved
     then Some (v_arrive cf (v_setK v K2Done) (WLData (S O)))
     else Some (v_arrive cf (v_setK v (K2Wait fP)) (WLData O))
   | _ -> None)
| VSaved ->
  if v.vSaved
  then None
  else Some { vPausing = v.vPausing; vK =
         (match v.vK with
          | K2Wait _ -> K2Call
          | x0 -> x0); vSaved = true; vPF = v.vPF; vPFq = v.vPFq; vPfin =
         v.vPfin; vBad = v.vBad }
| VPFCall ->
  (match v.vPF with
   | RIdle -> if v.vPfin then None else Some (v_pfcall cf v)
   | RRead _ -> None)

(** val vinit : vst **)

let vinit =
  { vPausing = false; vK = K2Call; vSaved = false; vPF = RIdle; vPFq = [];
    vPfin = false; vBad = false }
