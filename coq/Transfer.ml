open BinNat
open BinNums
open Bytes0
open Consts
open Datatypes
open Escape
open Fs
open List0
open Names
open Nat0
open Path
open Wire

type tr_cfg = { tc_proto : coq_N; tc_binary : bool; tc_directory : bool;
                tc_overwrite : bool; tc_ctype : coq_N; tc_table : table;
                tc_upload : bool }

(** val tr_pipeline : tr_cfg -> bool **)

let tr_pipeline c =
  N.leb tr_proto_pipeline c.tc_proto

(** val tr_json_names : tr_cfg -> bool **)

let tr_json_names c =
  N.leb tr_proto_json_names c.tc_proto

(** val tr_json : tr_cfg -> bool **)

let tr_json c =
  (||) (tr_json_names c) c.tc_directory

(** val tr_names_cfg : tr_cfg -> config **)

let tr_names_cfg c =
  { overwrite = c.tc_overwrite; directory = c.tc_directory; v3 =
    (tr_json_names c) }

(** val tr_rule_cond : coq_N -> coq_N -> tr_cfg -> coq_N -> bool **)

let tr_rule_cond kind value c size =
  if N.eqb kind N0
  then N.ltb c.tc_proto value
  else if N.eqb kind (Npos Coq_xH)
       then N.eqb c.tc_ctype value
       else if N.eqb kind (Npos (Coq_xO Coq_xH))
            then N.ltb size value
            else false

(** val tr_comp_val : coq_N -> tr_cfg -> bool **)

let tr_comp_val v c =
  if N.eqb v N0
  then false
  else if N.eqb v (Npos Coq_xH) then true else negb c.tc_binary

(** val tr_rules_eval :
    (((coq_N * coq_N) * bool) * coq_N) list -> tr_cfg -> coq_N -> bool * bool **)

let rec tr_rules_eval rules c size =
  match rules with
  | [] ->
    ((fst tr_compress_default), (tr_comp_val (snd tr_compress_default) c))
  | p :: r ->
    let (p0, cv) = p in
    let (p1, fx) = p0 in
    let (k, v) = p1 in
    if tr_rule_cond k v c size
    then (fx, (tr_comp_val cv c))
    else tr_rules_eval r c size

(** val tr_is_compress_fixed : tr_cfg -> coq_N -> bool * bool **)

let tr_is_compress_fixed c size =
  tr_rules_eval tr_compress_rules c size

type tr_entry = { te_id : coq_Z; te_rel : name list; te_isdir : bool;
                  te_chunks : byte list list }

(** val te_data : tr_entry -> byte list **)

let te_data e =
  concat e.te_chunks

(** val te_size : tr_entry -> coq_N **)

let te_size e =
  if e.te_isdir then N0 else N.of_nat (length (te_data e))

(** val te_name : tr_entry -> name **)

let te_name e =
  last e.te_rel []

type tr_sched = { sc_sizes : nat list; sc_dflt : nat; sc_profit : bool;
                  sc_steps : coq_N list; sc_prefinal : coq_N list }

(** val tr_add_name : name list -> name -> name list **)

let tr_add_name names nm =
  if existsb (list_eqb nm) names then names else app names (nm :: [])

(** val tr_blen : byte list -> coq_N **)

let tr_blen l =
  N.of_nat (length l)

type tr_npayload =
| TrPlain of name
| TrJson of src * coq_N

type 'digest tr_msg =
| TrNum of coq_N
| TrName of tr_npayload
| TrSize of coq_N
| TrComp of bool
| TrData of byte list
| TrMd5 of 'digest
| TrExit of name list
| TrSuccInt of coq_N
| TrSuccName of name
| TrSuccTarget of name * coq_N
| TrSuccAck of coq_N * coq_N
| TrSuccDigest of 'digest
| TrKeepAlive
| TrFail

(** val tr_payload : tr_cfg -> tr_entry -> tr_npayload **)

let tr_payload c e =
  if tr_json c
  then TrJson ({ s_id = e.te_id; s_rel = e.te_rel; s_isdir = e.te_isdir;
         s_archive = false }, (te_size e))
  else TrPlain (te_name e)

(** val tr_compress :
    tr_cfg -> tr_entry -> tr_sched -> bool * 'a1 tr_msg list **)

let tr_compress c e sc =
  let (b, cp) = tr_is_compress_fixed c (te_size e) in
  if b then (cp, []) else (sc.sc_profit, ((TrComp sc.sc_profit) :: []))

(** val tr_frames :
    (byte list list -> byte list list) -> tr_cfg -> tr_entry -> tr_sched ->
    byte list list **)

let tr_frames zcomp c e sc =
  wire_frames sc.sc_sizes sc.sc_dflt
    (wire_encode zcomp c.tc_binary (fst (tr_compress c e sc)) c.tc_table
      e.te_chunks)

(** val tr_v1_chunks : tr_entry -> tr_sched -> byte list list **)

let tr_v1_chunks e sc =
  wire_frames sc.sc_sizes sc.sc_dflt (te_data e)

(** val tr_v1_payload :
    (byte list -> byte list) -> tr_cfg -> byte list -> byte list **)

let tr_v1_payload zl c chunk =
  if c.tc_binary then escape c.tc_table chunk else wire_encode_bytes zl chunk

type tr_sphase =
| SpNum
| SpName
| SpSize
| SpAcks of coq_N list
| SpFinal
| SpV1 of byte list list * coq_N
| SpMd5
| SpExit
| SpDone
| SpFail
| SpUnmodelled

type tr_sstate = { ss_phase : tr_sphase;
                   ss_todo : (tr_entry * tr_sched) list; ss_names : name list }

(** val tr_s_fail : tr_sstate -> tr_sstate * 'a1 tr_msg list **)

let tr_s_fail st =
  ({ ss_phase = SpFail; ss_todo = st.ss_todo; ss_names = st.ss_names },
    (TrFail :: []))

(** val tr_s_stay : tr_sstate -> tr_sstate * 'a1 tr_msg list **)

let tr_s_stay st =
  (st, [])

(** val tr_s_next :
    tr_cfg -> (tr_entry * tr_sched) list -> name list -> tr_sstate * 'a1
    tr_msg list **)

let tr_s_next c todo names =
  match todo with
  | [] ->
    if c.tc_upload
    then ({ ss_phase = SpDone; ss_todo = []; ss_names = names }, ((TrExit
           names) :: []))
    else ({ ss_phase = SpExit; ss_todo = []; ss_names = names }, [])
  | p :: _ ->
    let (e, _) = p in
    ({ ss_phase = SpName; ss_todo = todo; ss_names = names }, ((TrName
    (tr_payload c e)) :: []))

(** val tr_sender_init :
    tr_cfg -> (tr_entry * tr_sched) list -> tr_sstate * 'a1 tr_msg list **)

let tr_sender_init _ ess =
  ({ ss_phase = SpNum; ss_todo = ess; ss_names = [] }, ((TrNum
    (N.of_nat (length ess))) :: []))

(** val tr_s_md5 :
    (byte list -> 'a1) -> tr_sstate -> tr_entry -> tr_sstate * 'a1 tr_msg list **)

let tr_s_md5 h st e =
  ({ ss_phase = SpMd5; ss_todo = st.ss_todo; ss_names = st.ss_names },
    ((TrMd5 (h (te_data e))) :: []))

(** val tr_s_named :
    tr_cfg -> tr_sstate -> tr_entry -> (tr_entry * tr_sched) list -> name ->
    coq_N -> tr_sstate * 'a1 tr_msg list **)

let tr_s_named c st e rest nm tsize =
  let names' = tr_add_name st.ss_names nm in
  if e.te_isdir
  then tr_s_next c rest names'
  else if N.ltb N0 tsize
       then ({ ss_phase = SpUnmodelled; ss_todo = st.ss_todo; ss_names =
              names' }, [])
       else ({ ss_phase = SpSize; ss_todo = st.ss_todo; ss_names = names' },
              ((TrSize (te_size e)) :: []))

(** val tr_s_data :
    (byte list -> 'a1) -> (byte list list -> byte list list) -> (byte list ->
    byte list) -> tr_cfg -> tr_sstate -> tr_entry -> tr_sched ->
    tr_sstate * 'a1 tr_msg list **)

let tr_s_data h zcomp zl c st e sc =
  if tr_pipeline c
  then let fs0 = tr_frames zcomp c e sc in
       ({ ss_phase = (SpAcks (app (map tr_blen fs0) (N0 :: []))); ss_todo =
       st.ss_todo; ss_names = st.ss_names },
       (app (snd (tr_compress c e sc))
         (app (map (fun x -> TrData x) fs0) ((TrData []) :: []))))
  else (match tr_v1_chunks e sc with
        | [] -> tr_s_md5 h st e
        | ch :: chs ->
          ({ ss_phase = (SpV1 (chs, (tr_blen ch))); ss_todo = st.ss_todo;
            ss_names = st.ss_names }, ((TrData
            (tr_v1_payload zl c ch)) :: [])))

(** val tr_sender :
    (byte list -> 'a1) -> ('a1 -> 'a1 -> bool) -> (byte list list -> byte
    list list) -> (byte list -> byte list) -> tr_cfg -> tr_sstate -> 'a1
    tr_msg -> tr_sstate * 'a1 tr_msg list **)

let tr_sender h deq zcomp zl c st m =
  match st.ss_phase with
  | SpFinal ->
    let ph = SpFinal in
    (match m with
     | TrFail ->
       ({ ss_phase = SpFail; ss_todo = st.ss_todo; ss_names = st.ss_names },
         [])
     | _ ->
       (match ph with
        | SpNum ->
          (match m with
           | TrSuccInt n ->
             if N.eqb n (N.of_nat (length st.ss_todo))
             then tr_s_next c st.ss_todo st.ss_names
             else tr_s_fail st
           | _ -> tr_s_fail st)
        | SpName ->
          (match st.ss_todo with
           | [] -> tr_s_fail st
           | p :: rest ->
             let (e, _) = p in
             (match m with
              | TrSuccName nm ->
                if tr_json_names c
                then tr_s_fail st
                else tr_s_named c st e rest nm N0
              | TrSuccTarget (nm, sz) ->
                if tr_json_names c
                then tr_s_named c st e rest nm sz
                else tr_s_fail st
              | _ -> tr_s_fail st))
        | SpSize ->
          (match st.ss_todo with
           | [] -> tr_s_fail st
           | p :: _ ->
             let (e, sc) = p in
             (match m with
              | TrSuccInt n ->
                if N.eqb n (te_size e)
                then tr_s_data h zcomp zl c st e sc
                else tr_s_fail st
              | _ -> tr_s_fail st))
        | SpAcks pending ->
          (match m with
           | TrSuccAck (len, _) ->
             (match pending with
              | [] -> tr_s_fail st
              | l :: ls ->
                if N.eqb len l
                then ({ ss_phase =
                       (match ls with
                        | [] -> SpFinal
                        | _ :: _ -> SpAcks ls); ss_todo = st.ss_todo;
                       ss_names = st.ss_names }, [])
                else tr_s_fail st)
           | TrKeepAlive -> tr_s_stay st
           | _ -> tr_s_fail st)
        | SpFinal ->
          (match st.ss_todo with
           | [] ->
             (match m with
              | TrKeepAlive -> tr_s_stay st
              | _ -> tr_s_fail st)
           | p :: _ ->
             let (e, _) = p in
             (match m with
              | TrSuccInt step ->
                if N.ltb (te_size e) step
                then tr_s_fail st
                else if N.eqb step (te_size e)
                     then tr_s_md5 h st e
                     else tr_s_stay st
              | TrKeepAlive -> tr_s_stay st
              | _ -> tr_s_fail st))
        | SpV1 (chs, expect) ->
          (match st.ss_todo with
           | [] -> tr_s_fail st
           | p :: _ ->
             let (e, _) = p in
             (match m with
              | TrSuccInt n ->
                if N.eqb n expect
                then (match chs with
                      | [] -> tr_s_md5 h st e
                      | ch :: chs' ->
                        ({ ss_phase = (SpV1 (chs', (tr_blen ch))); ss_todo =
                          st.ss_todo; ss_names = st.ss_names }, ((TrData
                          (tr_v1_payload zl c ch)) :: [])))
                else tr_s_fail st
              | _ -> tr_s_fail st))
        | SpMd5 ->
          (match st.ss_todo with
           | [] -> tr_s_fail st
           | p :: rest ->
             let (e, _) = p in
             (match m with
              | TrSuccDigest d ->
                if deq d (h (te_data e))
                then tr_s_next c rest st.ss_names
                else tr_s_fail st
              | _ -> tr_s_fail st))
        | SpExit ->
          (match m with
           | TrExit _ ->
             ({ ss_phase = SpDone; ss_todo = st.ss_todo; ss_names =
               st.ss_names }, [])
           | _ -> tr_s_fail st)
        | _ -> tr_s_stay st))
  | SpDone -> tr_s_stay st
  | SpFail -> tr_s_stay st
  | SpUnmodelled -> tr_s_stay st
  | x ->
    (match m with
     | TrFail ->
       ({ ss_phase = SpFail; ss_todo = st.ss_todo; ss_names = st.ss_names },
         [])
     | _ ->
       (match x with
        | SpNum ->
          (match m with
           | TrSuccInt n ->
             if N.eqb n (N.of_nat (length st.ss_todo))
             then tr_s_next c st.ss_todo st.ss_names
             else tr_s_fail st
           | _ -> tr_s_fail st)
        | SpName ->
          (match st.ss_todo with
           | [] -> tr_s_fail st
           | p :: rest ->
             let (e, _) = p in
             (match m with
              | TrSuccName nm ->
                if tr_json_names c
                then tr_s_fail st
                else tr_s_named c st e rest nm N0
              | TrSuccTarget (nm, sz) ->
                if tr_json_names c
                then tr_s_named c st e rest nm sz
                else tr_s_fail st
              | _ -> tr_s_fail st))
        | SpSize ->
          (match st.ss_todo with
           | [] -> tr_s_fail st
           | p :: _ ->
             let (e, sc) = p in
             (match m with
              | TrSuccInt n ->
                if N.eqb n (te_size e)
                then tr_s_data h zcomp zl c st e sc
                else tr_s_fail st
              | _ -> tr_s_fail st))
        | SpAcks pending ->
          (match m with
           | TrSuccAck (len, _) ->
             (match pending with
              | [] -> tr_s_fail st
              | l :: ls ->
                if N.eqb len l
                then ({ ss_phase =
                       (match ls with
                        | [] -> SpFinal
                        | _ :: _ -> SpAcks ls); ss_todo = st.ss_todo;
                       ss_names = st.ss_names }, [])
                else tr_s_fail st)
           | TrKeepAlive -> tr_s_stay st
           | _ -> tr_s_fail st)
        | SpFinal ->
          (match st.ss_todo with
           | [] ->
             (match m with
              | TrKeepAlive -> tr_s_stay st
              | _ -> tr_s_fail st)
           | p :: _ ->
             let (e, _) = p in
             (match m with
              | TrSuccInt step ->
                if N.ltb (te_size e) step
                then tr_s_fail st
                else if N.eqb step (te_size e)
                     then tr_s_md5 h st e
                     else tr_s_stay st
              | TrKeepAlive -> tr_s_stay st
              | _ -> tr_s_fail st))
        | SpV1 (chs, expect) ->
          (match st.ss_todo with
           | [] -> tr_s_fail st
           | p :: _ ->
             let (e, _) = p in
             (match m with
              | TrSuccInt n ->
                if N.eqb n expect
                then (match chs with
                      | [] -> tr_s_md5 h st e
                      | ch :: chs' ->
                        ({ ss_phase = (SpV1 (chs', (tr_blen ch))); ss_todo =
                          st.ss_todo; ss_names = st.ss_names }, ((TrData
                          (tr_v1_payload zl c ch)) :: [])))
                else tr_s_fail st
              | _ -> tr_s_fail st))
        | SpMd5 ->
          (match st.ss_todo with
           | [] -> tr_s_fail st
           | p :: rest ->
             let (e, _) = p in
             (match m with
              | TrSuccDigest d ->
                if deq d (h (te_data e))
                then tr_s_next c rest st.ss_names
                else tr_s_fail st
              | _ -> tr_s_fail st))
        | SpExit ->
          (match m with
           | TrExit _ ->
             ({ ss_phase = SpDone; ss_todo = st.ss_todo; ss_names =
               st.ss_names }, [])
           | _ -> tr_s_fail st)
        | _ -> tr_s_stay st))

(** val tr_create :
    tr_cfg -> path -> tr_npayload -> byte list -> state -> result * state **)

let tr_create c dest p content st =
  match p with
  | TrPlain nm ->
    if tr_json c
    then (NErr, st)
    else create_file code_checks (tr_names_cfg c) dest nm true content st
  | TrJson (s, _) ->
    if tr_json_names c
    then recv_json code_checks (tr_names_cfg c) dest (Some s) false content st
    else if c.tc_directory
         then recv_json code_checks (tr_names_cfg c) dest (Some s) true
                content st
         else (NErr, st)

(** val tr_p_isdir : tr_npayload -> bool **)

let tr_p_isdir = function
| TrPlain _ -> false
| TrJson (s, _) -> s.s_isdir

(** val tr_p_archive : tr_npayload -> bool **)

let tr_p_archive = function
| TrPlain _ -> false
| TrJson (s, _) -> s.s_archive

(** val tr_p_tail : tr_npayload -> name list **)

let tr_p_tail = function
| TrPlain _ -> []
| TrJson (s, _) -> tl s.s_rel

(** val tr_leaf : path -> name -> tr_npayload -> path **)

let tr_leaf dest ln p =
  join dest (ln :: (tr_p_tail p))

(** val tr_target_size : path -> name -> tr_npayload -> state -> coq_N **)

let tr_target_size dest ln p st =
  match lookup st.st_fs (tr_leaf dest ln p) with
  | Some n -> (match n with
               | File old -> tr_blen old
               | Dir -> N0)
  | None -> N0

type tr_rphase =
| RpNum
| RpName
| RpSize of tr_npayload
| RpComp of tr_npayload * coq_N
| RpData of tr_npayload * coq_N * bool * byte list list * coq_N list
| RpV1 of tr_npayload * coq_N * byte list
| RpMd5 of tr_npayload * byte list
| RpExit
| RpDone
| RpFail
| RpUnmodelled

type tr_rstate = { rs_phase : tr_rphase; rs_left : nat; rs_st : state;
                   rs_names : name list; rs_sched : tr_sched list }

(** val tr_r_fail : tr_rstate -> tr_rstate * 'a1 tr_msg list **)

let tr_r_fail st =
  ({ rs_phase = RpFail; rs_left = st.rs_left; rs_st = st.rs_st; rs_names =
    st.rs_names; rs_sched = st.rs_sched }, (TrFail :: []))

(** val tr_r_stay : tr_rstate -> tr_rstate * 'a1 tr_msg list **)

let tr_r_stay st =
  (st, [])

(** val tr_r_phase : tr_rstate -> tr_rphase -> tr_rstate **)

let tr_r_phase st ph =
  { rs_phase = ph; rs_left = st.rs_left; rs_st = st.rs_st; rs_names =
    st.rs_names; rs_sched = st.rs_sched }

(** val tr_r_next :
    tr_cfg -> nat -> state -> name list -> tr_sched list -> tr_rstate * 'a1
    tr_msg list **)

let tr_r_next c left fst_ names sch =
  match left with
  | O ->
    if c.tc_upload
    then ({ rs_phase = RpExit; rs_left = O; rs_st = fst_; rs_names = names;
           rs_sched = sch }, [])
    else ({ rs_phase = RpDone; rs_left = O; rs_st = fst_; rs_names = names;
           rs_sched = sch }, ((TrExit names) :: []))
  | S _ ->
    ({ rs_phase = RpName; rs_left = left; rs_st = fst_; rs_names = names;
      rs_sched = sch }, [])

(** val tr_receiver_init : fs -> tr_sched list -> tr_rstate **)

let tr_receiver_init f0 sch =
  { rs_phase = RpNum; rs_left = O; rs_st = (init_state f0); rs_names = [];
    rs_sched = sch }

(** val tr_cur_sched : tr_rstate -> tr_sched **)

let tr_cur_sched st =
  match st.rs_sched with
  | [] ->
    { sc_sizes = []; sc_dflt = (S O); sc_profit = false; sc_steps = [];
      sc_prefinal = [] }
  | sc :: _ -> sc

(** val tr_r_done :
    tr_cfg -> tr_rstate -> state -> 'a1 tr_msg list -> tr_rstate * 'a1 tr_msg
    list **)

let tr_r_done c st fst_ outs =
  let (st', outs') =
    tr_r_next c (pred st.rs_left) fst_ st.rs_names (tl st.rs_sched)
  in
  (st', (app outs outs'))

(** val tr_r_name :
    tr_cfg -> path -> tr_rstate -> tr_npayload -> tr_rstate * 'a1 tr_msg list **)

let tr_r_name c dest st p =
  let (r, st1) = tr_create c dest p [] st.rs_st in
  (match r with
   | NOk ln ->
     let names' = tr_add_name st.rs_names ln in
     let tsize = if tr_p_isdir p then N0 else tr_target_size dest ln p st1 in
     let reply =
       if tr_json_names c then TrSuccTarget (ln, tsize) else TrSuccName ln
     in
     let stn = { rs_phase = st.rs_phase; rs_left = st.rs_left; rs_st =
       st.rs_st; rs_names = names'; rs_sched = st.rs_sched }
     in
     if tr_p_archive p
     then ((tr_r_phase stn RpUnmodelled), (reply :: []))
     else if tr_p_isdir p
          then tr_r_done c stn st1 (reply :: [])
          else if (&&) (tr_json_names c) (N.ltb N0 tsize)
               then ((tr_r_phase stn RpUnmodelled), (reply :: []))
               else ((tr_r_phase stn (RpSize p)), (reply :: []))
   | NErr -> tr_r_fail st)

(** val tr_r_size :
    tr_cfg -> tr_rstate -> tr_npayload -> coq_N -> tr_rstate * 'a1 tr_msg list **)

let tr_r_size c st p n =
  if tr_pipeline c
  then let (b, cp) = tr_is_compress_fixed c n in
       if b
       then ((tr_r_phase st (RpData (p, n, cp, [],
               (tr_cur_sched st).sc_steps))), ((TrSuccInt n) :: []))
       else ((tr_r_phase st (RpComp (p, n))), ((TrSuccInt n) :: []))
  else if N.ltb N0 n
       then ((tr_r_phase st (RpV1 (p, n, []))), ((TrSuccInt n) :: []))
       else ((tr_r_phase st (RpMd5 (p, []))), ((TrSuccInt n) :: []))

(** val tr_rdflt : nat **)

let tr_rdflt =
  S O

(** val tr_r_frame :
    (byte list -> byte list option) -> tr_cfg -> tr_rstate -> tr_npayload ->
    coq_N -> bool -> byte list list -> coq_N list -> byte list ->
    tr_rstate * 'a1 tr_msg list **)

let tr_r_frame zdecomp c st p size cp acc steps f =
  let step = match steps with
             | [] -> N0
             | s :: _ -> s in
  (match f with
   | [] ->
     (match wire_decode zdecomp c.tc_binary cp c.tc_table acc [] tr_rdflt with
      | Some w ->
        if N.eqb (tr_blen w) size
        then ((tr_r_phase st (RpMd5 (p, w))),
               (app ((TrSuccAck (N0, step)) :: [])
                 (app
                   (map (fun x -> TrSuccInt x)
                     (filter (fun s -> N.ltb s size)
                       (tr_cur_sched st).sc_prefinal)) ((TrSuccInt
                   size) :: []))))
        else tr_r_fail st
      | None -> tr_r_fail st)
   | _ :: _ ->
     ((tr_r_phase st (RpData (p, size, cp, (app acc (f :: [])), (tl steps)))),
       ((TrSuccAck ((tr_blen f), step)) :: [])))

(** val tr_r_v1 :
    (byte list -> byte list option) -> tr_cfg -> tr_rstate -> tr_npayload ->
    coq_N -> byte list -> byte list -> tr_rstate * 'a1 tr_msg list **)

let tr_r_v1 unzl c st p size w pl =
  match wire_v1_decode unzl c.tc_binary c.tc_table pl with
  | Some ch ->
    let w' = app w ch in
    ((tr_r_phase st
       (if N.ltb (tr_blen w') size then RpV1 (p, size, w') else RpMd5 (p, w'))),
    ((TrSuccInt (tr_blen ch)) :: []))
  | None -> tr_r_fail st

(** val tr_r_md5 :
    (byte list -> 'a1) -> ('a1 -> 'a1 -> bool) -> tr_cfg -> path -> tr_rstate
    -> tr_npayload -> byte list -> 'a1 -> tr_rstate * 'a1 tr_msg list **)

let tr_r_md5 h deq c dest st p w d =
  if deq d (h w)
  then let (r, st2) = tr_create c dest p w st.rs_st in
       (match r with
        | NOk _ -> tr_r_done c st st2 ((TrSuccDigest (h w)) :: [])
        | NErr -> tr_r_fail st)
  else tr_r_fail st

(** val tr_receiver :
    (byte list -> 'a1) -> ('a1 -> 'a1 -> bool) -> (byte list -> byte list
    option) -> (byte list -> byte list option) -> tr_cfg -> path -> tr_rstate
    -> 'a1 tr_msg -> tr_rstate * 'a1 tr_msg list **)

let tr_receiver h deq zdecomp unzl c dest st m =
  match st.rs_phase with
  | RpNum ->
    let ph = RpNum in
    (match m with
     | TrNum _ ->
       (match ph with
        | RpNum ->
          (match m with
           | TrNum n ->
             let (st', outs) =
               tr_r_next c (N.to_nat n) st.rs_st st.rs_names st.rs_sched
             in
             (st', ((TrSuccInt n) :: outs))
           | _ -> tr_r_fail st)
        | RpName ->
          (match m with
           | TrName p -> tr_r_name c dest st p
           | _ -> tr_r_fail st)
        | RpSize p ->
          (match m with
           | TrSize n -> tr_r_size c st p n
           | _ -> tr_r_fail st)
        | RpComp (p, size) ->
          (match m with
           | TrComp b ->
             ((tr_r_phase st (RpData (p, size, b, [],
                (tr_cur_sched st).sc_steps))), [])
           | _ -> tr_r_fail st)
        | RpData (p, size, cp, acc, steps) ->
          (match m with
           | TrData f -> tr_r_frame zdecomp c st p size cp acc steps f
           | TrKeepAlive -> tr_r_stay st
           | _ -> tr_r_fail st)
        | RpV1 (p, size, w) ->
          (match m with
           | TrData pl -> tr_r_v1 unzl c st p size w pl
           | _ -> tr_r_fail st)
        | RpMd5 (p, w) ->
          (match m with
           | TrMd5 d -> tr_r_md5 h deq c dest st p w d
           | _ -> tr_r_fail st)
        | RpExit ->
          (match m with
           | TrExit _ -> ((tr_r_phase st RpDone), [])
           | _ -> tr_r_fail st)
        | _ -> tr_r_stay st)
     | TrName _ ->
       (match ph with
        | RpNum ->
          (match m with
           | TrNum n ->
             let (st', outs) =
               tr_r_next c (N.to_nat n) st.rs_st st.rs_names st.rs_sched
             in
             (st', ((TrSuccInt n) :: outs))
           | _ -> tr_r_fail st)
        | RpName ->
          (match m with
           | TrName p -> tr_r_name c dest st p
           | _ -> tr_r_fail st)
        | RpSize p ->
          (match m with
           | TrSize n -> tr_r_size c st p n
           | _ -> tr_r_fail st)
        | RpComp (p, size) ->
          (match m with
           | TrComp b ->
             ((tr_r_phase st (RpData (p, size, b, [],
                (tr_cur_sched st).sc_steps))), [])
           | _ -> tr_r_fail st)
        | RpData (p, size, cp, acc, steps) ->
          (match m with
           | TrData f -> tr_r_frame zdecomp c st p size cp acc steps f
           | TrKeepAlive -> tr_r_stay st
           | _ -> tr_r_fail st)
        | RpV1 (p, size, w) ->
          (match m with
           | TrData pl -> tr_r_v1 unzl c st p size w pl
           | _ -> tr_r_fail st)
        | RpMd5 (p, w) ->
          (match m with
           | TrMd5 d -> tr_r_md5 h deq c dest st p w d
           | _ -> tr_r_fail st)
        | RpExit ->
          (match m with
           | TrExit _ -> ((tr_r_phase st RpDone), [])
           | _ -> tr_r_fail st)
        | _ -> tr_r_stay st)
     | TrSize _ ->
       (match ph with
        | RpNum ->
          (match m with
           | TrNum n ->
             let (st', outs) =
               tr_r_next c (N.to_nat n) st.rs_st st.rs_names st.rs_sched
             in
             (st', ((TrSuccInt n) :: outs))
           | _ -> tr_r_fail st)
        | RpName ->
          (match m with
           | TrName p -> tr_r_name c dest st p
           | _ -> tr_r_fail st)
        | RpSize p ->
          (match m with
           | TrSize n -> tr_r_size c st p n
           | _ -> tr_r_fail st)
        | RpComp (p, size) ->
          (match m with
           | TrComp b ->
             ((tr_r_phase st (RpData (p, size, b, [],
                (tr_cur_sched st).sc_steps))), [])
           | _ -> tr_r_fail st)
        | RpData (p, size, cp, acc, steps) ->
          (match m with
           | TrData f -> tr_r_frame zdecomp c st p size cp acc steps f
           | TrKeepAlive -> tr_r_stay st
           | _ -> tr_r_fail st)
        | RpV1 (p, size, w) ->
          (match m with
           | TrData pl -> tr_r_v1 unzl c st p size w pl
           | _ -> tr_r_fail st)
        | RpMd5 (p, w) ->
          (match m with
           | TrMd5 d -> tr_r_md5 h deq c dest st p w d
           | _ -> tr_r_fail st)
        | RpExit ->
          (match m with
           | TrExit _ -> ((tr_r_phase st RpDone), [])
           | _ -> tr_r_fail st)
        | _ -> tr_r_stay st)
     | TrComp _ ->
       (match ph with
        | RpNum ->
          (match m with
           | TrNum n ->
             let (st', outs) =
               tr_r_next c (N.to_nat n) st.rs_st st.rs_names st.rs_sched
             in
             (st', ((TrSuccInt n) :: outs))
           | _ -> tr_r_fail st)
        | RpName ->
          (match m with
           | TrName p -> tr_r_name c dest st p
           | _ -> tr_r_fail st)
        | RpSize p ->
          (match m with
           | TrSize n -> tr_r_size c st p n
           | _ -> tr_r_fail st)
        | RpComp (p, size) ->
          (match m with
           | TrComp b ->
             ((tr_r_phase st (RpData (p, size, b, [],
                (tr_cur_sched st).sc_steps))), [])
           | _ -> tr_r_fail st)
        | RpData (p, size, cp, acc, steps) ->
          (match m with
           | TrData f -> tr_r_frame zdecomp c st p size cp acc steps f
           | TrKeepAlive -> tr_r_stay st
           | _ -> tr_r_fail st)
        | RpV1 (p, size, w) ->
          (match m with
           | TrData pl -> tr_r_v1 unzl c st p size w pl
           | _ -> tr_r_fail st)
        | RpMd5 (p, w) ->
          (match m with
           | TrMd5 d -> tr_r_md5 h deq c dest st p w d
           | _ -> tr_r_fail st)
        | RpExit ->
          (match m with
           | TrExit _ -> ((tr_r_phase st RpDone), [])
           | _ -> tr_r_fail st)
        | _ -> tr_r_stay st)
     | TrData _ ->
       (match ph with
        | RpNum ->
          (match m with
           | TrNum n ->
             let (st', outs) =
               tr_r_next c (N.to_nat n) st.rs_st st.rs_names st.rs_sched
             in
             (st', ((TrSuccInt n) :: outs))
           | _ -> tr_r_fail st)
        | RpName ->
          (match m with
           | TrName p -> tr_r_name c dest st p
           | _ -> tr_r_fail st)
        | RpSize p ->
          (match m with
           | TrSize n -> tr_r_size c st p n
           | _ -> tr_r_fail st)
        | RpComp (p, size) ->
          (match m with
           | TrComp b ->
             ((tr_r_phase st (RpData (p, size, b, [],
                (tr_cur_sched st).sc_steps))), [])
           | _ -> tr_r_fail st)
        | RpData (p, size, cp, acc, steps) ->
          (match m with
           | TrData f -> tr_r_frame zdecomp c st p size cp acc steps f
           | TrKeepAlive -> tr_r_stay st
           | _ -> tr_r_fail st)
        | RpV1 (p, size, w) ->
          (match m with
           | TrData pl -> tr_r_v1 unzl c st p size w pl
           | _ -> tr_r_fail st)
        | RpMd5 (p, w) ->
          (match m with
           | TrMd5 d -> tr_r_md5 h deq c dest st p w d
           | _ -> tr_r_fail st)
        | RpExit ->
          (match m with
           | TrExit _ -> ((tr_r_phase st RpDone), [])
           | _ -> tr_r_fail st)
        | _ -> tr_r_stay st)
     | TrMd5 _ ->
       (match ph with
        | RpNum ->
          (match m with
           | TrNum n ->
             let (st', outs) =
               tr_r_next c (N.to_nat n) st.rs_st st.rs_names st.rs_sched
             in
             (st', ((TrSuccInt n) :: outs))
           | _ -> tr_r_fail st)
        | RpName ->
          (match m with
           | TrName p -> tr_r_name c dest st p
           | _ -> tr_r_fail st)
        | RpSize p ->
          (match m with
           | TrSize n -> tr_r_size c st p n
           | _ -> tr_r_fail st)
        | RpComp (p, size) ->
          (match m with
           | TrComp b ->
             ((tr_r_phase st (RpData (p, size, b, [],
                (tr_cur_sched st).sc_steps))), [])
           | _ -> tr_r_fail st)
        | RpData (p, size, cp, acc, steps) ->
          (match m with
           | TrData f -> tr_r_frame zdecomp c st p size cp acc steps f
           | TrKeepAlive -> tr_r_stay st
           | _ -> tr_r_fail st)
        | RpV1 (p, size, w) ->
          (match m with
           | TrData pl -> tr_r_v1 unzl c st p size w pl
           | _ -> tr_r_fail st)
        | RpMd5 (p, w) ->
          (match m with
           | TrMd5 d -> tr_r_md5 h deq c dest st p w d
           | _ -> tr_r_fail st)
        | RpExit ->
          (match m with
           | TrExit _ -> ((tr_r_phase st RpDone), [])
           | _ -> tr_r_fail st)
        | _ -> tr_r_stay st)
     | TrExit _ ->
       (match ph with
        | RpNum ->
          (match m with
           | TrNum n ->
             let (st', outs) =
               tr_r_next c (N.to_nat n) st.rs_st st.rs_names st.rs_sched
             in
             (st', ((TrSuccInt n) :: outs))
           | _ -> tr_r_fail st)
        | RpName ->
          (match m with
           | TrName p -> tr_r_name c dest st p
           | _ -> tr_r_fail st)
        | RpSize p ->
          (match m with
           | TrSize n -> tr_r_size c st p n
           | _ -> tr_r_fail st)
        | RpComp (p, size) ->
          (match m with
           | TrComp b ->
             ((tr_r_phase st (RpData (p, size, b, [],
                (tr_cur_sched st).sc_steps))), [])
           | _ -> tr_r_fail st)
        | RpData (p, size, cp, acc, steps) ->
          (match m with
           | TrData f -> tr_r_frame zdecomp c st p size cp acc steps f
           | TrKeepAlive -> tr_r_stay st
           | _ -> tr_r_fail st)
        | RpV1 (p, size, w) ->
          (match m with
           | TrData pl -> tr_r_v1 unzl c st p size w pl
           | _ -> tr_r_fail st)
        | RpMd5 (p, w) ->
          (match m with
           | TrMd5 d -> tr_r_md5 h deq c dest st p w d
           | _ -> tr_r_fail st)
        | RpExit ->
          (match m with
           | TrExit _ -> ((tr_r_phase st RpDone), [])
           | _ -> tr_r_fail st)
        | _ -> tr_r_stay st)
     | TrSuccInt _ ->
       (match ph with
        | RpNum ->
          (match m with
           | TrNum n ->
             let (st', outs) =
               tr_r_next c (N.to_nat n) st.rs_st st.rs_names st.rs_sched
             in
             (st', ((TrSuccInt n) :: outs))
           | _ -> tr_r_fail st)
        | RpName ->
          (match m with
           | TrName p -> tr_r_name c dest st p
           | _ -> tr_r_fail st)
        | RpSize p ->
          (match m with
           | TrSize n -> tr_r_size c st p n
           | _ -> tr_r_fail st)
        | RpComp (p, size) ->
          (match m with
           | TrComp b ->
             ((tr_r_phase st (RpData (p, size, b, [],
                (tr_cur_sched st).sc_steps))), [])
           | _ -> tr_r_fail st)
        | RpData (p, size, cp, acc, steps) ->
          (match m with
           | TrData f -> tr_r_frame zdecomp c st p size cp acc steps f
           | TrKeepAlive -> tr_r_stay st
           | _ -> tr_r_fail st)
        | RpV1 (p, size, w) ->
          (match m with
           | TrData pl -> tr_r_v1 unzl c st p size w pl
           | _ -> tr_r_fail st)
        | RpMd5 (p, w) ->
          (match m with
           | TrMd5 d -> tr_r_md5 h deq c dest st p w d
           | _ -> tr_r_fail st)
        | RpExit ->
          (match m with
           | TrExit _ -> ((tr_r_phase st RpDone), [])
           | _ -> tr_r_fail st)
        | _ -> tr_r_stay st)
     | TrSuccName _ ->
       (match ph with
        | RpNum ->
          (match m with
           | TrNum n ->
             let (st', outs) =
               tr_r_next c (N.to_nat n) st.rs_st st.rs_names st.rs_sched
             in
             (st', ((TrSuccInt n) :: outs))
           | _ -> tr_r_fail st)
        | RpName ->
          (match m with
           | TrName p -> tr_r_name c dest st p
           | _ -> tr_r_fail st)
        | RpSize p ->
          (match m with
           | TrSize n -> tr_r_size c st p n
           | _ -> tr_r_fail st)
        | RpComp (p, size) ->
          (match m with
           | TrComp b ->
             ((tr_r_phase st (RpData (p, size, b, [],
                (tr_cur_sched st).sc_steps))), [])
           | _ -> tr_r_fail st)
        | RpData (p, size, cp, acc, steps) ->
          (match m with
           | TrData f -> tr_r_frame zdecomp c st p size cp acc steps f
           | TrKeepAlive -> tr_r_stay st
           | _ -> tr_r_fail st)
        | RpV1 (p, size, w) ->
          (match m with
           | TrData pl -> tr_r_v1 unzl c st p size w pl
           | _ -> tr_r_fail st)
        | RpMd5 (p, w) ->
          (match m with
           | TrMd5 d -> tr_r_md5 h deq c dest st p w d
           | _ -> tr_r_fail st)
        | RpExit ->
          (match m with
           | TrExit _ -> ((tr_r_phase st RpDone), [])
           | _ -> tr_r_fail st)
        | _ -> tr_r_stay st)
     | TrSuccTarget (_, _) ->
       (match ph with
        | RpNum ->
          (match m with
           | TrNum n ->
             let (st', outs) =
               tr_r_next c (N.to_nat n) st.rs_st st.rs_names st.rs_sched
             in
             (st', ((TrSuccInt n) :: outs))
           | _ -> tr_r_fail st)
        | RpName ->
          (match m with
           | TrName p -> tr_r_name c dest st p
           | _ -> tr_r_fail st)
        | RpSize p ->
          (match m with
           | TrSize n -> tr_r_size c st p n
           | _ -> tr_r_fail st)
        | RpComp (p, size) ->
          (match m with
           | TrComp b ->
             ((tr_r_phase st (RpData (p, size, b, [],
                (tr_cur_sched st).sc_steps))), [])
           | _ -> tr_r_fail st)
        | RpData (p, size, cp, acc, steps) ->
          (match m with
           | TrData f -> tr_r_frame zdecomp c st p size cp acc steps f
           | TrKeepAlive -> tr_r_stay st
           | _ -> tr_r_fail st)
        | RpV1 (p, size, w) ->
          (match m with
           | TrData pl -> tr_r_v1 unzl c st p size w pl
           | _ -> tr_r_fail st)
        | RpMd5 (p, w) ->
          (match m with
           | TrMd5 d -> tr_r_md5 h deq c dest st p w d
           | _ -> tr_r_fail st)
        | RpExit ->
          (match m with
           | TrExit _ -> ((tr_r_phase st RpDone), [])
           | _ -> tr_r_fail st)
        | _ -> tr_r_stay st)
     | TrSuccAck (_, _) ->
       (match ph with
        | RpNum ->
          (match m with
           | TrNum n ->
             let (st', outs) =
               tr_r_next c (N.to_nat n) st.rs_st st.rs_names st.rs_sched
             in
             (st', ((TrSuccInt n) :: outs))
           | _ -> tr_r_fail st)
        | RpName ->
          (match m with
           | TrName p -> tr_r_name c dest st p
           | _ -> tr_r_fail st)
        | RpSize p ->
          (match m with
           | TrSize n -> tr_r_size c st p n
           | _ -> tr_r_fail st)
        | RpComp (p, size) ->
          (match m with
           | TrComp b ->
             ((tr_r_phase st (RpData (p, size, b, [],
                (tr_cur_sched st).sc_steps))), [])
           | _ -> tr_r_fail st)
        | RpData (p, size, cp, acc, steps) ->
          (match m with
           | TrData f -> tr_r_frame zdecomp c st p size cp acc steps f
           | TrKeepAlive -> tr_r_stay st
           | _ -> tr_r_fail st)
        | RpV1 (p, size, w) ->
          (match m with
           | TrData pl -> tr_r_v1 unzl c st p size w pl
           | _ -> tr_r_fail st)
        | RpMd5 (p, w) ->
          (match m with
           | TrMd5 d -> tr_r_md5 h deq c dest st p w d
           | _ -> tr_r_fail st)
        | RpExit ->
          (match m with
           | TrExit _ -> ((tr_r_phase st RpDone), [])
           | _ -> tr_r_fail st)
        | _ -> tr_r_stay st)
     | TrSuccDigest _ ->
       (match ph with
        | RpNum ->
          (match m with
           | TrNum n ->
             let (st', outs) =
               tr_r_next c (N.to_nat n) st.rs_st st.rs_names st.rs_sched
             in
             (st', ((TrSuccInt n) :: outs))
           | _ -> tr_r_fail st)
        | RpName ->
          (match m with
           | TrName p -> tr_r_name c dest st p
           | _ -> tr_r_fail st)
        | RpSize p ->
          (match m with
           | TrSize n -> tr_r_size c st p n
           | _ -> tr_r_fail st)
        | RpComp (p, size) ->
          (match m with
           | TrComp b ->
             ((tr_r_phase st (RpData (p, size, b, [],
                (tr_cur_sched st).sc_steps))), [])
           | _ -> tr_r_fail st)
        | RpData (p, size, cp, acc, steps) ->
          (match m with
           | TrData f -> tr_r_frame zdecomp c st p size cp acc steps f
           | TrKeepAlive -> tr_r_stay st
           | _ -> tr_r_fail st)
        | RpV1 (p, size, w) ->
          (match m with
           | TrData pl -> tr_r_v1 unzl c st p size w pl
           | _ -> tr_r_fail st)
        | RpMd5 (p, w) ->
          (match m with
           | TrMd5 d -> tr_r_md5 h deq c dest st p w d
           | _ -> tr_r_fail st)
        | RpExit ->
          (match m with
           | TrExit _ -> ((tr_r_phase st RpDone), [])
           | _ -> tr_r_fail st)
        | _ -> tr_r_stay st)
     | TrKeepAlive ->
       (match ph with
        | RpNum ->
          (match m with
           | TrNum n ->
             let (st', outs) =
               tr_r_next c (N.to_nat n) st.rs_st st.rs_names st.rs_sched
             in
             (st', ((TrSuccInt n) :: outs))
           | _ -> tr_r_fail st)
        | RpName ->
          (match m with
           | TrName p -> tr_r_name c dest st p
           | _ -> tr_r_fail st)
        | RpSize p ->
          (match m with
           | TrSize n -> tr_r_size c st p n
           | _ -> tr_r_fail st)
        | RpComp (p, size) ->
          (match m with
           | TrComp b ->
             ((tr_r_phase st (RpData (p, size, b, [],
                (tr_cur_sched st).sc_steps))), [])
           | _ -> tr_r_fail st)
        | RpData (p, size, cp, acc, steps) ->
          (match m with
           | TrData f -> tr_r_frame zdecomp c st p size cp acc steps f
           | TrKeepAlive -> tr_r_stay st
           | _ -> tr_r_fail st)
        | RpV1 (p, size, w) ->
          (match m with
           | TrData pl -> tr_r_v1 unzl c st p size w pl
           | _ -> tr_r_fail st)
        | RpMd5 (p, w) ->
          (match m with
           | TrMd5 d -> tr_r_md5 h deq c dest st p w d
           | _ -> tr_r_fail st)
        | RpExit ->
          (match m with
           | TrExit _ -> ((tr_r_phase st RpDone), [])
           | _ -> tr_r_fail st)
        | _ -> tr_r_stay st)
     | TrFail -> ((tr_r_phase st RpFail), []))
  | RpName ->
    let ph = RpName in
    (match m with
     | TrNum _ ->
       (match ph with
        | RpNum ->
          (match m with
           | TrNum n ->
             let (st', outs) =
               tr_r_next c (N.to_nat n) st.rs_st st.rs_names st.rs_sched
             in
             (st', ((TrSuccInt n) :: outs))
           | _ -> tr_r_fail st)
        | RpName ->
          (match m with
           | TrName p -> tr_r_name c dest st p
           | _ -> tr_r_fail st)
        | RpSize p ->
          (match m with
           | TrSize n -> tr_r_size c st p n
           | _ -> tr_r_fail st)
        | RpComp (p, size) ->
          (match m with
           | TrComp b ->
             ((tr_r_phase st (RpData (p, size, b, [],
                (tr_cur_sched st).sc_steps))), [])
           | _ -> tr_r_fail st)
        | RpData (p, size, cp, acc, steps) ->
          (match m with
           | TrData f -> tr_r_frame zdecomp c st p size cp acc steps f
           | TrKeepAlive -> tr_r_stay st
           | _ -> tr_r_fail st)
        | RpV1 (p, size, w) ->
          (match m with
           | TrData pl -> tr_r_v1 unzl c st p size w pl
           | _ -> tr_r_fail st)
        | RpMd5 (p, w) ->
          (match m with
           | TrMd5 d -> tr_r_md5 h deq c dest st p w d
           | _ -> tr_r_fail st)
        | RpExit ->
          (match m with
           | TrExit _ -> ((tr_r_phase st RpDone), [])
           | _ -> tr_r_fail st)
        | _ -> tr_r_stay st)
     | TrName _ ->
       (match ph with
        | RpNum ->
          (match m with
           | TrNum n ->
             let (st', outs) =
               tr_r_next c (N.to_nat n) st.rs_st st.rs_names st.rs_sched
             in
             (st', ((TrSuccInt n) :: outs))
           | _ -> tr_r_fail st)
        | RpName ->
          (match m with
           | TrName p -> tr_r_name c dest st p
           | _ -> tr_r_fail st)
        | RpSize p ->
          (match m with
           | TrSize n -> tr_r_size c st p n
           | _ -> tr_r_fail st)
        | RpComp (p, size) ->
          (match m with
           | TrComp b ->
             ((tr_r_phase st (RpData (p, size, b, [],
                (tr_cur_sched st).sc_steps))), [])
           | _ -> tr_r_fail st)
        | RpData (p, size, cp, acc, steps) ->
          (match m with
           | TrData f -> tr_r_frame zdecomp c st p size cp acc steps f
           | TrKeepAlive -> tr_r_stay st
           | _ -> tr_r_fail st)
        | RpV1 (p, size, w) ->
          (match m with
           | TrData pl -> tr_r_v1 unzl c st p size w pl
           | _ -> tr_r_fail st)
        | RpMd5 (p, w) ->
          (match m with
           | TrMd5 d -> tr_r_md5 h deq c dest st p w d
           | _ -> tr_r_fail st)
        | RpExit ->
          (match m with
           | TrExit _ -> ((tr_r_phase st RpDone), [])
           | _ -> tr_r_fail st)
        | _ -> tr_r_stay st)
     | TrSize _ ->
       (match ph with
        | RpNum ->
          (match m with
           | TrNum n ->
             let (st', outs) =
               tr_r_next c (N.to_nat n) st.rs_st st.rs_names st.rs_sched
             in
             (st', ((TrSuccInt n) :: outs))
           | _ -> tr_r_fail st)
        | RpName ->
          (match m with
           | TrName p -> tr_r_name c dest st p
           | _ -> tr_r_fail st)
        | RpSize p ->
          (match m with
           | TrSize n -> tr_r_size c st p n
           | _ -> tr_r_fail st)
        | RpComp (p, size) ->
          (match m with
           | TrComp b ->
             ((tr_r_phase st (RpData (p, size, b, [],
                (tr_cur_sched st).sc_steps))), [])
           | _ -> tr_r_fail st)
        | RpData (p, size, cp, acc, steps) ->
          (match m with
           | TrData f -> tr_r_frame zdecomp c st p size cp acc steps f
           | TrKeepAlive -> tr_r_stay st
           | _ -> tr_r_fail st)
        | RpV1 (p, size, w) ->
          (match m with
           | TrData pl -> tr_r_v1 unzl c st p size w pl
           | _ -> tr_r_fail st)
        | RpMd5 (p, w) ->
          (match m with
           | TrMd5 d -> tr_r_md5 h deq c dest st p w d
           | _ -> tr_r_fail st)
        | RpExit ->
          (match m with
           | TrExit _ -> ((tr_r_phase st RpDone), [])
           | _ -> tr_r_fail st)
        | _ -> tr_r_stay st)
     | TrComp _ ->
       (match ph with
        | RpNum ->
          (match m with
           | TrNum n ->
             let (st', outs) =
               tr_r_next c (N.to_nat n) st.rs_st st.rs_names st.rs_sched
             in
             (st', ((TrSuccInt n) :: outs))
           | _ -> tr_r_fail st)
        | RpName ->
          (match m with
           | TrName p -> tr_r_name c dest st p
           | _ -> tr_r_fail st)
        | RpSize p ->
          (match m with
           | TrSize n -> tr_r_size c st p n
           | _ -> tr_r_fail st)
        | RpComp (p, size) ->
          (match m with
           | TrComp b ->
             ((tr_r_phase st (RpData (p, size, b, [],
                (tr_cur_sched st).sc_steps))), [])
           | _ -> tr_r_fail st)
        | RpData (p, size, cp, acc, steps) ->
          (match m with
           | TrData f -> tr_r_frame zdecomp c st p size cp acc steps f
           | TrKeepAlive -> tr_r_stay st
           | _ -> tr_r_fail st)
        | RpV1 (p, size, w) ->
          (match m with
           | TrData pl -> tr_r_v1 unzl c st p size w pl
           | _ -> tr_r_fail st)
        | RpMd5 (p, w) ->
          (match m with
           | TrMd5 d -> tr_r_md5 h deq c dest st p w d
           | _ -> tr_r_fail st)
        | RpExit ->
          (match m with
           | TrExit _ -> ((tr_r_phase st RpDone), [])
           | _ -> tr_r_fail st)
        | _ -> tr_r_stay st)
     | TrData _ ->
       (match ph with
        | RpNum ->
          (match m with
           | TrNum n ->
             let (st', outs) =
               tr_r_next c (N.to_nat n) st.rs_st st.rs_names st.rs_sched
             in
             (st', ((TrSuccInt n) :: outs))
           | _ -> tr_r_fail st)
        | RpName ->
          (match m with
           | TrName p -> tr_r_name c dest st p
           | _ -> tr_r_fail st)
        | RpSize p ->
          (match m with
           | TrSize n -> tr_r_size c st p n
           | _ -> tr_r_fail st)
        | RpComp (p, size) ->
          (match m with
           | TrComp b ->
             ((tr_r_phase st (RpData (p, size, b, [],
                (tr_cur_sched st).sc_steps))), [])
           | _ -> tr_r_fail st)
        | RpData (p, size, cp, acc, steps) ->
          (match m with
           | TrData f -> tr_r_frame zdecomp c st p size cp acc steps f
           | TrKeepAlive -> tr_r_stay st
           | _ -> tr_r_fail st)
        | RpV1 (p, size, w) ->
          (match m with
           | TrData pl -> tr_r_v1 unzl c st p size w pl
           | _ -> tr_r_fail st)
        | RpMd5 (p, w) ->
          (match m with
           | TrMd5 d -> tr_r_md5 h deq c dest st p w d
           | _ -> tr_r_fail st)
        | RpExit ->
          (match m with
           | TrExit _ -> ((tr_r_phase st RpDone), [])
           | _ -> tr_r_fail st)
        | _ -> tr_r_stay st)
     | TrMd5 _ ->
       (match ph with
        | RpNum ->
          (match m with
           | TrNum n ->
             let (st', outs) =
               tr_r_next c (N.to_nat n) st.rs_st st.rs_names st.rs_sched
             in
             (st', ((TrSuccInt n) :: outs))
           | _ -> tr_r_fail st)
        | RpName ->
          (match m with
           | TrName p -> tr_r_name c dest st p
           | _ -> tr_r_fail st)
        | RpSize p ->
          (match m with
           | TrSize n -> tr_r_size c st p n
           | _ -> tr_r_fail st)
        | RpComp (p, size) ->
          (match m with
           | TrComp b ->
             ((tr_r_phase st (RpData (p, size, b, [],
                (tr_cur_sched st).sc_steps))), [])
           | _ -> tr_r_fail st)
        | RpData (p, size, cp, acc, steps) ->
          (match m with
           | TrData f -> tr_r_frame zdecomp c st p size cp acc steps f
           | TrKeepAlive -> tr_r_stay st
           | _ -> tr_r_fail st)
        | RpV1 (p, size, w) ->
          (match m with
           | TrData pl -> tr_r_v1 unzl c st p size w pl
           | _ -> tr_r_fail st)
        | RpMd5 (p, w) ->
          (match m with
           | TrMd5 d -> tr_r_md5 h deq c dest st p w d
           | _ -> tr_r_fail st)
        | RpExit ->
          (match m with
           | TrExit _ -> ((tr_r_phase st RpDone), [])
           | _ -> tr_r_fail st)
        | _ -> tr_r_stay st)
     | TrExit _ ->
       (match ph with
        | RpNum ->
          (match m with
           | TrNum n ->
             let (st', outs) =
               tr_r_next c (N.to_nat n) st.rs_st st.rs_names st.rs_sched
             in
             (st', ((TrSuccInt n) :: outs))
           | _ -> tr_r_fail st)
        | RpName ->
          (match m with
           | TrName p -> tr_r_name c dest st p
           | _ -> tr_r_fail st)
        | RpSize p ->
          (match m with
           | TrSize n -> tr_r_size c st p n
           | _ -> tr_r_fail st)
        | RpComp (p, size) ->
          (match m with
           | TrComp b ->
             ((tr_r_phase st (RpData (p, size, b, [],
                (tr_cur_sched st).sc_steps))), [])
           | _ -> tr_r_fail st)
        | RpData (p, size, cp, acc, steps) ->
          (match m with
           | TrData f -> tr_r_frame zdecomp c st p size cp acc steps f
           | TrKeepAlive -> tr_r_stay st
           | _ -> tr_r_fail st)
        | RpV1 (p, size, w) ->
          (match m with
           | TrData pl -> tr_r_v1 unzl c st p size w pl
           | _ -> tr_r_fail st)
        | RpMd5 (p, w) ->
          (match m with
           | TrMd5 d -> tr_r_md5 h deq c dest st p w d
           | _ -> tr_r_fail st)
        | RpExit ->
          (match m with
           | TrExit _ -> ((tr_r_phase st RpDone), [])
           | _ -> tr_r_fail st)
        | _ -> tr_r_stay st)
     | TrSuccInt _ ->
       (match ph with
        | RpNum ->
          (match m with
           | TrNum n ->
             let (st', outs) =
               tr_r_next c (N.to_nat n) st.rs_st st.rs_names st.rs_sched
             in
             (st', ((TrSuccInt n) :: outs))
           | _ -> tr_r_fail st)
        | RpName ->
          (match m with
           | TrName p -> tr_r_name c dest st p
           | _ -> tr_r_fail st)
        | RpSize p ->
          (match m with
           | TrSize n -> tr_r_size c st p n
           | _ -> tr_r_fail st)
        | RpComp (p, size) ->
          (match m with
           | TrComp b ->
             ((tr_r_phase st (RpData (p, size, b, [],
                (tr_cur_sched st).sc_steps))), [])
           | _ -> tr_r_fail st)
        | RpData (p, size, cp, acc, steps) ->
          (match m with
           | TrData f -> tr_r_frame zdecomp c st p size cp acc steps f
           | TrKeepAlive -> tr_r_stay st
           | _ -> tr_r_fail st)
        | RpV1 (p, size, w) ->
          (match m with
           | TrData pl -> tr_r_v1 unzl c st p size w pl
           | _ -> tr_r_fail st)
        | RpMd5 (p, w) ->
          (match m with
           | TrMd5 d -> tr_r_md5 h deq c dest st p w d
           | _ -> tr_r_fail st)
        | RpExit ->
          (match m with
           | TrExit _ -> ((tr_r_phase st RpDone), [])
           | _ -> tr_r_fail st)
        | _ -> tr_r_stay st)
     | TrSuccName _ ->
       (match ph with
        | RpNum ->
          (match m with
           | TrNum n ->
             let (st', outs) =
               tr_r_next c (N.to_nat n) st.rs_st st.rs_names st.rs_sched
             in
             (st', ((TrSuccInt n) :: outs))
           | _ -> tr_r_fail st)
        | RpName ->
          (match m with
           | TrName p -> tr_r_name c dest st p
           | _ -> tr_r_fail st)
        | RpSize p ->
          (match m with
           | TrSize n -> tr_r_size c st p n
           | _ -> tr_r_fail st)
        | RpComp (p, size) ->
          (match m with
           | TrComp b ->
             ((tr_r_phase st (RpData (p, size, b, [],
                (tr_cur_sched st).sc_steps))), [])
           | _ -> tr_r_fail st)
        | RpData (p, size, cp, acc, steps) ->
          (match m with
           | TrData f -> tr_r_frame zdecomp c st p size cp acc steps f
           | TrKeepAlive -> tr_r_stay st
           | _ -> tr_r_fail st)
        | RpV1 (p, size, w) ->
          (match m with
           | TrData pl -> tr_r_v1 unzl c st p size w pl
           | _ -> tr_r_fail st)
        | RpMd5 (p, w) ->
          (match m with
           | TrMd5 d -> tr_r_md5 h deq c dest st p w d
           | _ -> tr_r_fail st)
        | RpExit ->
          (match m with
           | TrExit _ -> ((tr_r_phase st RpDone), [])
           | _ -> tr_r_fail st)
        | _ -> tr_r_stay st)
     | TrSuccTarget (_, _) ->
       (match ph with
        | RpNum ->
          (match m with
           | TrNum n ->
             let (st', outs) =
               tr_r_next c (N.to_nat n) st.rs_st st.rs_names st.rs_sched
             in
             (st', ((TrSuccInt n) :: outs))
           | _ -> tr_r_fail st)
        | RpName ->
          (match m with
           | TrName p -> tr_r_name c dest st p
           | _ -> tr_r_fail st)
        | RpSize p ->
          (match m with
           | TrSize n -> tr_r_size c st p n
           | _ -> tr_r_fail st)
        | RpComp (p, size) ->
          (match m with
           | TrComp b ->
             ((tr_r_phase st (RpData (p, size, b, [],
                (tr_cur_sched st).sc_steps))), [])
           | _ -> tr_r_fail st)
        | RpData (p, size, cp, acc, steps) ->
          (match m with
           | TrData f -> tr_r_frame zdecomp c st p size cp acc steps f
           | TrKeepAlive -> tr_r_stay st
           | _ -> tr_r_fail st)
        | RpV1 (p, size, w) ->
          (match m with
           | TrData pl -> tr_r_v1 unzl c st p size w pl
           | _ -> tr_r_fail st)
        | RpMd5 (p, w) ->
          (match m with
           | TrMd5 d -> tr_r_md5 h deq c dest st p w d
           | _ -> tr_r_fail st)
        | RpExit ->
          (match m with
           | TrExit _ -> ((tr_r_phase st RpDone), [])
           | _ -> tr_r_fail st)
        | _ -> tr_r_stay st)
     | TrSuccAck (_, _) ->
       (match ph with
        | RpNum ->
          (match m with
           | TrNum n ->
             let (st', outs) =
               tr_r_next c (N.to_nat n) st.rs_st st.rs_names st.rs_sched
             in
             (st', ((TrSuccInt n) :: outs))
           | _ -> tr_r_fail st)
        | RpName ->
          (match m with
           | TrName p -> tr_r_name c dest st p
           | _ -> tr_r_fail st)
        | RpSize p ->
          (match m with
           | TrSize n -> tr_r_size c st p n
           | _ -> tr_r_fail st)
        | RpComp (p, size) ->
          (match m with
           | TrComp b ->
             ((tr_r_phase st (RpData (p, size, b, [],
                (tr_cur_sched st).sc_steps))), [])
           | _ -> tr_r_fail st)
        | RpData (p, size, cp, acc, steps) ->
          (match m with
           | TrData f -> tr_r_frame zdecomp c st p size cp acc steps f
           | TrKeepAlive -> tr_r_stay st
           | _ -> tr_r_fail st)
        | RpV1 (p, size, w) ->
          (match m with
           | TrData pl -> tr_r_v1 unzl c st p size w pl
           | _ -> tr_r_fail st)
        | RpMd5 (p, w) ->
          (match m with
           | TrMd5 d -> tr_r_md5 h deq c dest st p w d
           | _ -> tr_r_fail st)
        | RpExit ->
          (match m with
           | TrExit _ -> ((tr_r_phase st RpDone), [])
           | _ -> tr_r_fail st)
        | _ -> tr_r_stay st)
     | TrSuccDigest _ ->
       (match ph with
        | RpNum ->
          (match m with
           | TrNum n ->
             let (st', outs) =
               tr_r_next c (N.to_nat n) st.rs_st st.rs_names st.rs_sched
             in
             (st', ((TrSuccInt n) :: outs))
           | _ -> tr_r_fail st)
        | RpName ->
          (match m with
           | TrName p -> tr_r_name c dest st p
           | _ -> tr_r_fail st)
        | RpSize p ->
          (match m with
           | TrSize n -> tr_r_size c st p n
           | _ -> tr_r_fail st)
        | RpComp (p, size) ->
          (match m with
           | TrComp b ->
             ((tr_r_phase st (RpData (p, size, b, [],
                (tr_cur_sched st).sc_steps))), [])
           | _ -> tr_r_fail st)
        | RpData (p, size, cp, acc, steps) ->
          (match m with
           | TrData f -> tr_r_frame zdecomp c st p size cp acc steps f
           | TrKeepAlive -> tr_r_stay st
           | _ -> tr_r_fail st)
        | RpV1 (p, size, w) ->
          (match m with
           | TrData pl -> tr_r_v1 unzl c st p size w pl
           | _ -> tr_r_fail st)
        | RpMd5 (p, w) ->
          (match m with
           | TrMd5 d -> tr_r_md5 h deq c dest st p w d
           | _ -> tr_r_fail st)
        | RpExit ->
          (match m with
           | TrExit _ -> ((tr_r_phase st RpDone), [])
           | _ -> tr_r_fail st)
        | _ -> tr_r_stay st)
     | TrKeepAlive ->
       (match ph with
        | RpNum ->
          (match m with
           | TrNum n ->
             let (st', outs) =
               tr_r_next c (N.to_nat n) st.rs_st st.rs_names st.rs_sched
             in
             (st', ((TrSuccInt n) :: outs))
           | _ -> tr_r_fail st)
        | RpName ->
          (match m with
           | TrName p -> tr_r_name c dest st p
           | _ -> tr_r_fail st)
        | RpSize p ->
          (match m with
           | TrSize n -> tr_r_size c st p n
           | _ -> tr_r_fail st)
        | RpComp (p, size) ->
          (match m with
           | TrComp b ->
             ((tr_r_phase st (RpData (p, size, b, [],
                (tr_cur_sched st).sc_steps))), [])
           | _ -> tr_r_fail st)
        | RpData (p, size, cp, acc, steps) ->
          (match m with
           | TrData f -> tr_r_frame zdecomp c st p size cp acc steps f
           | TrKeepAlive -> tr_r_stay st
           | _ -> tr_r_fail st)
        | RpV1 (p, size, w) ->
          (match m with
           | TrData pl -> tr_r_v1 unzl c st p size w pl
           | _ -> tr_r_fail st)
        | RpMd5 (p, w) ->
          (match m with
           | TrMd5 d -> tr_r_md5 h deq c dest st p w d
           | _ -> tr_r_fail st)
        | RpExit ->
          (match m with
           | TrExit _ -> ((tr_r_phase st RpDone), [])
           | _ -> tr_r_fail st)
        | _ -> tr_r_stay st)
     | TrFail -> ((tr_r_phase st RpFail), []))
  | RpSize p ->
    let ph = RpSize p in
    (match m with
     | TrNum _ ->
       (match ph with
        | RpNum ->
          (match m with
           | TrNum n ->
             let (st', outs) =
               tr_r_next c (N.to_nat n) st.rs_st st.rs_names st.rs_sched
             in
             (st', ((TrSuccInt n) :: outs))
           | _ -> tr_r_fail st)
        | RpName ->
          (match m with
           | TrName p0 -> tr_r_name c dest st p0
           | _ -> tr_r_fail st)
        | RpSize p0 ->
          (match m with
           | TrSize n -> tr_r_size c st p0 n
           | _ -> tr_r_fail st)
        | RpComp (p0, size) ->
          (match m with
           | TrComp b ->
             ((tr_r_phase st (RpData (p0, size, b, [],
                (tr_cur_sched st).sc_steps))), [])
           | _ -> tr_r_fail st)
        | RpData (p0, size, cp, acc, steps) ->
          (match m with
           | TrData f -> tr_r_frame zdecomp c st p0 size cp acc steps f
           | TrKeepAlive -> tr_r_stay st
           | _ -> tr_r_fail st)
        | RpV1 (p0, size, w) ->
          (match m with
           | TrData pl -> tr_r_v1 unzl c st p0 size w pl
           | _ -> tr_r_fail st)
        | RpMd5 (p0, w) ->
          (match m with
           | TrMd5 d -> tr_r_md5 h deq c dest st p0 w d
           | _ -> tr_r_fail st)
        | RpExit ->
          (match m with
           | TrExit _ -> ((tr_r_phase st RpDone), [])
           | _ -> tr_r_fail st)
        | _ -> tr_r_stay st)
     | TrName _ ->
       (match ph with
        | RpNum ->
          (match m with
           | TrNum n ->
             let (st', outs) =
               tr_r_next c (N.to_nat n) st.rs_st st.rs_names st.rs_sched
             in
             (st', ((TrSuccInt n) :: outs))
           | _ -> tr_r_fail st)
        | RpName ->
          (match m with
           | TrName p0 -> tr_r_name c dest st p0
           | _ -> tr_r_fail st)
        | RpSize p0 ->
          (match m with
           | TrSize n -> tr_r_size c st p0 n
           | _ -> tr_r_fail st)
        | RpComp (p0, size) ->
          (match m with
           | TrComp b ->
             ((tr_r_phase st (RpData (p0, size, b, [],
                (tr_cur_sched st).sc_steps))), [])
           | _ -> tr_r_fail st)
        | RpData (p0, size, cp, acc, steps) ->
          (match m with
           | TrData f -> tr_r_frame zdecomp c st p0 size cp acc steps f
           | TrKeepAlive -> tr_r_stay st
           | _ -> tr_r_fail st)
        | RpV1 (p0, size, w) ->
          (match m with
           | TrData pl -> tr_r_v1 unzl c st p0 size w pl
           | _ -> tr_r_fail st)
        | RpMd5 (p0, w) ->
          (match m with
           | TrMd5 d -> tr_r_md5 h deq c dest st p0 w d
           | _ -> tr_r_fail st)
        | RpExit ->
          (match m with
           | TrExit _ -> ((tr_r_phase st RpDone), [])
           | _ -> tr_r_fail st)
        | _ -> tr_r_stay st)
     | TrSize _ ->
       (match ph with
        | RpNum ->
          (match m with
           | TrNum n ->
             let (st', outs) =
               tr_r_next c (N.to_nat n) st.rs_st st.rs_names st.rs_sched
             in
             (st', ((TrSuccInt n) :: outs))
           | _ -> tr_r_fail st)
        | RpName ->
          (match m with
           | TrName p0 -> tr_r_name c dest st p0
           | _ -> tr_r_fail st)
        | RpSize p0 ->
          (match m with
           | TrSize n -> tr_r_size c st p0 n
           | _ -> tr_r_fail st)
        | RpComp (p0, size) ->
          (match m with
           | TrComp b ->
             ((tr_r_phase st (RpData (p0, size, b, [],
                (tr_cur_sched st).sc_steps))), [])
           | _ -> tr_r_fail st)
        | RpData (p0, size, cp, acc, steps) ->
          (match m with
           | TrData f -> tr_r_frame zdecomp c st p0 size cp acc steps f
           | TrKeepAlive -> tr_r_stay st
           | _ -> tr_r_fail st)
        | RpV1 (p0, size, w) ->
          (match m with
           | TrData pl -> tr_r_v1 unzl c st p0 size w pl
           | _ -> tr_r_fail st)
        | RpMd5 (p0, w) ->
          (match m with
           | TrMd5 d -> tr_r_md5 h deq c dest st p0 w d
           | _ -> tr_r_fail st)
        | RpExit ->
          (match m with
           | TrExit _ -> ((tr_r_phase st RpDone), [])
           | _ -> tr_r_fail st)
        | _ -> tr_r_stay st)
     | TrComp _ ->
       (match ph with
        | RpNum ->
          (match m with
           | TrNum n ->
             let (st', outs) =
               tr_r_next c (N.to_nat n) st.rs_st st.rs_names st.rs_sched
             in
             (st', ((TrSuccInt n) :: outs))
           | _ -> tr_r_fail st)
        | RpName ->
          (match m with
           | TrName p0 -> tr_r_name c dest st p0
           | _ -> tr_r_fail st)
        | RpSize p0 ->
          (match m with
           | TrSize n -> tr_r_size c st p0 n
           | _ -> tr_r_fail st)
        | RpComp (p0, size) ->
          (match m with
           | TrComp b ->
             ((tr_r_phase st (RpData (p0, size, b, [],
                (tr_cur_sched st).sc_steps))), [])
           | _ -> tr_r_fail st)
        | RpData (p0, size, cp, acc, steps) ->
          (match m with
           | TrData f -> tr_r_frame zdecomp c st p0 size cp acc steps f
           | TrKeepAlive -> tr_r_stay st
           | _ -> tr_r_fail st)
        | RpV1 (p0, size, w) ->
          (match m with
           | TrData pl -> tr_r_v1 unzl c st p0 size w pl
           | _ -> tr_r_fail st)
        | RpMd5 (p0, w) ->
          (match m with
           | TrMd5 d -> tr_r_md5 h deq c dest st p0 w d
           | _ -> tr_r_fail st)
        | RpExit ->
          (match m with
           | TrExit _ -> ((tr_r_phase st RpDone), [])
           | _ -> tr_r_fail st)
        | _ -> tr_r_stay st)
     | TrData _ ->
       (match ph with
        | RpNum ->
          (match m with
           | TrNum n ->
             let (st', outs) =
               tr_r_next c (N.to_nat n) st.rs_st st.rs_names st.rs_sched
             in
             (st', ((TrSuccInt n) :: outs))
           | _ -> tr_r_fail st)
        | RpName ->
          (match m with
           | TrName p0 -> tr_r_name c dest st p0
           | _ -> tr_r_fail st)
        | RpSize p0 ->
          (match m with
           | TrSize n -> tr_r_size c st p0 n
           | _ -> tr_r_fail st)
        | RpComp (p0, size) ->
          (match m with
           | TrComp b ->
             ((tr_r_phase st (RpData (p0, size, b, [],
                (tr_cur_sched st).sc_steps))), [])
           | _ -> tr_r_fail st)
        | RpData (p0, size, cp, acc, steps) ->
          (match m with
           | TrData f -> tr_r_frame zdecomp c st p0 size cp acc steps f
           | TrKeepAlive -> tr_r_stay st
           | _ -> tr_r_fail st)
        | RpV1 (p0, size, w) ->
          (match m with
           | TrData pl -> tr_r_v1 unzl c st p0 size w pl
           | _ -> tr_r_fail st)
        | RpMd5 (p0, w) ->
          (match m with
           | TrMd5 d -> tr_r_md5 h deq c dest st p0 w d
           | _ -> tr_r_fail st)
        | RpExit ->
          (match m with
           | TrExit _ -> ((tr_r_phase st RpDone), [])
           | _ -> tr_r_fail st)
        | _ -> tr_r_stay st)
     | TrMd5 _ ->
       (match ph with
        | RpNum ->
          (match m with
           | TrNum n ->
             let (st', outs) =
               tr_r_next c (N.to_nat n) st.rs_st st.rs_names st.rs_sched
             in
             (st', ((TrSuccInt n) :: outs))
           | _ -> tr_r_fail st)
        | RpName ->
          (match m with
           | TrName p0 -> tr_r_name c dest st p0
           | _ -> tr_r_fail st)
        | RpSize p0 ->
          (match m with
           | TrSize n -> tr_r_size c st p0 n
           | _ -> tr_r_fail st)
        | RpComp (p0, size) ->
          (match m with
           | TrComp b ->
             ((tr_r_phase st (RpData (p0, size, b, [],
                (tr_cur_sched st).sc_steps))), [])
           | _ -> tr_r_fail st)
        | RpData (p0, size, cp, acc, steps) ->
          (match m with
           | TrData f -> tr_r_frame zdecomp c st p0 size cp acc steps f
           | TrKeepAlive -> tr_r_stay st
           | _ -> tr_r_fail st)
        | RpV1 (p0, size, w) ->
          (match m with
           | TrData pl -> tr_r_v1 unzl c st p0 size w pl
           | _ -> tr_r_fail st)
        | RpMd5 (p0, w) ->
          (match m with
           | TrMd5 d -> tr_r_md5 h deq c dest st p0 w d
           | _ -> tr_r_fail st)
        | RpExit ->
          (match m with
           | TrExit _ -> ((tr_r_phase st RpDone), [])
           | _ -> tr_r_fail st)
        | _ -> tr_r_stay st)
     | TrExit _ ->
       (match ph with
        | RpNum ->
          (match m with
           | TrNum n ->
             let (st', outs) =
               tr_r_next c (N.to_nat n) st.rs_st st.rs_names st.rs_sched
             in
             (st', ((TrSuccInt n) :: outs))
           | _ -> tr_r_fail st)
        | RpName ->
          (match m with
           | TrName p0 -> tr_r_name c dest st p0
           | _ -> tr_r_fail st)
        | RpSize p0 ->
          (match m with
           | TrSize n -> tr_r_size c st p0 n
           | _ -> tr_r_fail st)
        | RpComp (p0, size) ->
          (match m with
           | TrComp b ->
             ((tr_r_phase st (RpData (p0, size, b, [],
                (tr_cur_sched st).sc_steps))), [])
           | _ -> tr_r_fail st)
        | RpData (p0, size, cp, acc, steps) ->
          (match m with
           | TrData f -> tr_r_frame zdecomp c st p0 size cp acc steps f
           | TrKeepAlive -> tr_r_stay st
           | _ -> tr_r_fail st)
        | RpV1 (p0, size, w) ->
          (match m with
           | TrData pl -> tr_r_v1 unzl c st p0 size w pl
           | _ -> tr_r_fail st)
        | RpMd5 (p0, w) ->
          (match m with
           | TrMd5 d -> tr_r_md5 h deq c dest st p0 w d
           | _ -> tr_r_fail st)
        | RpExit ->
          (match m with
           | TrExit _ -> ((tr_r_phase st RpDone), [])
           | _ -> tr_r_fail st)
        | _ -> tr_r_stay st)
     | TrSuccInt _ ->
       (match ph with
        | RpNum ->
          (match m with
           | TrNum n ->
             let (st', outs) =
               tr_r_next c (N.to_nat n) st.rs_st st.rs_names st.rs_sched
             in
             (st', ((TrSuccInt n) :: outs))
           | _ -> tr_r_fail st)
        | RpName ->
          (match m with
           | TrName p0 -> tr_r_name c dest st p0
           | _ -> tr_r_fail st)
        | RpSize p0 ->
          (match m with
           | TrSize n -> tr_r_size c st p0 n
           | _ -> tr_r_fail st)
        | RpComp (p0, size) ->
          (match m with
           | TrComp b ->
             ((tr_r_phase st (RpData (p0, size, b, [],
                (tr_cur_sched st).sc_steps))), [])
           | _ -> tr_r_fail st)
        | RpData (p0, size, cp, acc, steps) ->
          (match m with
           | TrData f -> tr_r_frame zdecomp c st p0 size cp acc steps f
           | TrKeepAlive -> tr_r_stay st
           | _ -> tr_r_fail st)
        | RpV1 (p0, size, w) ->
          (match m with
           | TrData pl -> tr_r_v1 unzl c st p0 size w pl
           | _ -> tr_r_fail st)
        | RpMd5 (p0, w) ->
          (match m with
           | TrMd5 d -> tr_r_md5 h deq c dest st p0 w d
           | _ -> tr_r_fail st)
        | RpExit ->
          (match m with
           | TrExit _ -> ((tr_r_phase st RpDone), [])
           | _ -> tr_r_fail st)
        | _ -> tr_r_stay st)
     | TrSuccName _ ->
       (match ph with
        | RpNum ->
          (match m with
           | TrNum n ->
             let (st', outs) =
               tr_r_next c (N.to_nat n) st.rs_st st.rs_names st.rs_sched
             in
             (st', ((TrSuccInt n) :: outs))
           | _ -> tr_r_fail st)
        | RpName ->
          (match m with
           | TrName p0 -> tr_r_name c dest st p0
           | _ -> tr_r_fail st)
        | RpSize p0 ->
          (match m with
           | TrSize n -> tr_r_size c st p0 n
           | _ -> tr_r_fail st)
        | RpComp (p0, size) ->
          (match m with
           | TrComp b ->
             ((tr_r_phase st (RpData (p0, size, b, [],
                (tr_cur_sched st).sc_steps))), [])
           | _ -> tr_r_fail st)
        | RpData (p0, size, cp, acc, steps) ->
          (match m with
           | TrData f -> tr_r_frame zdecomp c st p0 size cp acc steps f
           | TrKeepAlive -> tr_r_stay st
           | _ -> tr_r_fail st)
        | RpV1 (p0, size, w) ->
          (match m with
           | TrData pl -> tr_r_v1 unzl c st p0 size w pl
           | _ -> tr_r_fail st)
        | RpMd5 (p0, w) ->
          (match m with
           | TrMd5 d -> tr_r_md5 h deq c dest st p0 w d
           | _ -> tr_r_fail st)
        | RpExit ->
          (match m with
           | TrExit _ -> ((tr_r_phase st RpDone), [])
           | _ -> tr_r_fail st)
        | _ -> tr_r_stay st)
     | TrSuccTarget (_, _) ->
       (match ph with
        | RpNum ->
          (match m with
           | TrNum n ->
             let (st', outs) =
               tr_r_next c (N.to_nat n) st.rs_st st.rs_names st.rs_sched
             in
             (st', ((TrSuccInt n) :: outs))
           | _ -> tr_r_fail st)
        | RpName ->
          (match m with
           | TrName p0 -> tr_r_name c dest st p0
           | _ -> tr_r_fail st)
        | RpSize p0 ->
          (match m with
           | TrSize n -> tr_r_size c st p0 n
           | _ -> tr_r_fail st)
        | RpComp (p0, size) ->
          (match m with
           | TrComp b ->
             ((tr_r_phase st (RpData (p0, size, b, [],
                (tr_cur_sched st).sc_steps))), [])
           | _ -> tr_r_fail st)
        | RpData (p0, size, cp, acc, steps) ->
          (match m with
           | TrData f -> tr_r_frame zdecomp c st p0 size cp acc steps f
           | TrKeepAlive -> tr_r_stay st
           | _ -> tr_r_fail st)
        | RpV1 (p0, size, w) ->
          (match m with
           | TrData pl -> tr_r_v1 unzl c st p0 size w pl
           | _ -> tr_r_fail st)
        | RpMd5 (p0, w) ->
          (match m with
           | TrMd5 d -> tr_r_md5 h deq c dest st p0 w d
           | _ -> tr_r_fail st)
        | RpExit ->
          (match m with
           | TrExit _ -> ((tr_r_phase st RpDone), [])
           | _ -> tr_r_fail st)
        | _ -> tr_r_stay st)
     | TrSuccAck (_, _) ->
       (match ph with
        | RpNum ->
          (match m with
           | TrNum n ->
             let (st', outs) =
               tr_r_next c (N.to_nat n) st.rs_st st.rs_names st.rs_sched
             in
             (st', ((TrSuccInt n) :: outs))
           | _ -> tr_r_fail st)
        | RpName ->
          (match m with
           | TrName p0 -> tr_r_name c dest st p0
           | _ -> tr_r_fail st)
        | RpSize p0 ->
          (match m with
           | TrSize n -> tr_r_size c st p0 n
           | _ -> tr_r_fail st)
        | RpComp (p0, size) ->
          (match m with
           | TrComp b ->
             ((tr_r_phase st (RpData (p0, size, b, [],
                (tr_cur_sched st).sc_steps))), [])
           | _ -> tr_r_fail st)
        | RpData (p0, size, cp, acc, steps) ->
          (match m with
           | TrData f -> tr_r_frame zdecomp c st p0 size cp acc steps f
           | TrKeepAlive -> tr_r_stay st
           | _ -> tr_r_fail st)
        | RpV1 (p0, size, w) ->
          (match m with
           | TrData pl -> tr_r_v1 unzl c st p0 size w pl
           | _ -> tr_r_fail st)
        | RpMd5 (p0, w) ->
          (match m with
           | TrMd5 d -> tr_r_md5 h deq c dest st p0 w d
           | _ -> tr_r_fail st)
        | RpExit ->
          (match m with
           | TrExit _ -> ((tr_r_phase st RpDone), [])
           | _ -> tr_r_fail st)
        | _ -> tr_r_stay st)
     | TrSuccDigest _ ->
       (match ph with
        | RpNum ->
          (match m with
           | TrNum n ->
             let (st', outs) =
               tr_r_next c (N.to_nat n) st.rs_st st.rs_names st.rs_sched
             in
             (st', ((TrSuccInt n) :: outs))
           | _ -> tr_r_fail st)
        | RpName ->
          (match m with
           | TrName p0 -> tr_r_name c dest st p0
           | _ -> tr_r_fail st)
        | RpSize p0 ->
          (match m with
           | TrSize n -> tr_r_size c st p0 n
           | _ -> tr_r_fail st)
        | RpComp (p0, size) ->
          (match m with
           | TrComp b ->
             ((tr_r_phase st (RpData (p0, size, b, [],
                (tr_cur_sched st).sc_steps))), [])
           | _ -> tr_r_fail st)
        | RpData (p0, size, cp, acc, steps) ->
          (match m with
           | TrData f -> tr_r_frame zdecomp c st p0 size cp acc steps f
           | TrKeepAlive -> tr_r_stay st
           | _ -> tr_r_fail st)
        | RpV1 (p0, size, w) ->
          (match m with
           | TrData pl -> tr_r_v1 unzl c st p0 size w pl
           | _ -> tr_r_fail st)
        | RpMd5 (p0, w) ->
          (match m with
           | TrMd5 d -> tr_r_md5 h deq c dest st p0 w d
           | _ -> tr_r_fail st)
        | RpExit ->
          (match m with
           | TrExit _ -> ((tr_r_phase st RpDone), [])
           | _ -> tr_r_fail st)
        | _ -> tr_r_stay st)
     | TrKeepAlive ->
       (match ph with
        | RpNum ->
          (match m with
           | TrNum n ->
             let (st', outs) =
               tr_r_next c (N.to_nat n) st.rs_st st.rs_names st.rs_sched
             in
             (st', ((TrSuccInt n) :: outs))
           | _ -> tr_r_fail st)
        | RpName ->
          (match m with
           | TrName p0 -> tr_r_name c dest st p0
           | _ -> tr_r_fail st)
        | RpSize p0 ->
          (match m with
           | TrSize n -> tr_r_size c st p0 n
           | _ -> tr_r_fail st)
        | RpComp (p0, size) ->
          (match m with
           | TrComp b ->
             ((tr_r_phase st (RpData (p0, size, b, [],
                (tr_cur_sched st).sc_steps))), [])
           | _ -> tr_r_fail st)
        | RpData (p0, size, cp, acc, steps) ->
          (match m with
           | TrData f -> tr_r_frame zdecomp c st p0 size cp acc steps f
           | TrKeepAlive -> tr_r_stay st
           | _ -> tr_r_fail st)
        | RpV1 (p0, size, w) ->
          (match m with
           | TrData pl -> tr_r_v1 unzl c st p0 size w pl
           | _ -> tr_r_fail st)
        | RpMd5 (p0, w) ->
          (match m with
           | TrMd5 d -> tr_r_md5 h deq c dest st p0 w d
           | _ -> tr_r_fail st)
        | RpExit ->
          (match m with
           | TrExit _ -> ((tr_r_phase st RpDone), [])
           | _ -> tr_r_fail st)
        | _ -> tr_r_stay st)
     | TrFail -> ((tr_r_phase st RpFail), []))
  | RpComp (p, size) ->
    let ph = RpComp (p, size) in
    (match m with
     | TrNum _ ->
       (match ph with
        | RpNum ->
          (match m with
           | TrNum n ->
             let (st', outs) =
               tr_r_next c (N.to_nat n) st.rs_st st.rs_names st.rs_sched
             in
             (st', ((TrSuccInt n) :: outs))
           | _ -> tr_r_fail st)
        | RpName ->
          (match m with
           | TrName p0 -> tr_r_name c dest st p0
           | _ -> tr_r_fail st)
        | RpSize p0 ->
          (match m with
           | TrSize n -> tr_r_size c st p0 n
           | _ -> tr_r_fail st)
        | RpComp (p0, size0) ->
          (match m with
           | TrComp b ->
             ((tr_r_phase st (RpData (p0, size0, b, [],
                (tr_cur_sched st).sc_steps))), [])
           | _ -> tr_r_fail st)
        | RpData (p0, size0, cp, acc, steps) ->
          (match m with
           | TrData f -> tr_r_frame zdecomp c st p0 size0 cp acc steps f
           | TrKeepAlive -> tr_r_stay st
           | _ -> tr_r_fail st)
        | RpV1 (p0, size0, w) ->
          (match m with
           | TrData pl -> tr_r_v1 unzl c st p0 size0 w pl
           | _ -> tr_r_fail st)
        | RpMd5 (p0, w) ->
          (match m with
           | TrMd5 d -> tr_r_md5 h deq c dest st p0 w d
           | _ -> tr_r_fail st)
        | RpExit ->
          (match m with
           | TrExit _ -> ((tr_r_phase st RpDone), [])
           | _ -> tr_r_fail st)
        | _ -> tr_r_stay st)
     | TrName _ ->
       (match ph with
        | RpNum ->
          (match m with
           | TrNum n ->
             let (st', outs) =
               tr_r_next c (N.to_nat n) st.rs_st st.rs_names st.rs_sched
             in
             (st', ((TrSuccInt n) :: outs))
           | _ -> tr_r_fail st)
        | RpName ->
          (match m with
           | TrName p0 -> tr_r_name c dest st p0
           | _ -> tr_r_fail st)
        | RpSize p0 ->
          (match m with
           | TrSize n -> tr_r_size c st p0 n
           | _ -> tr_r_fail st)
        | RpComp (p0, size0) ->
          (match m with
           | TrComp b ->
             ((tr_r_phase st (RpData (p0, size0, b, [],
                (tr_cur_sched st).sc_steps))), [])
           | _ -> tr_r_fail st)
        | RpData (p0, size0, cp, acc, steps) ->
          (match m with
           | TrData f -> tr_r_frame zdecomp c st p0 size0 cp acc steps f
           | TrKeepAlive -> tr_r_stay st
           | _ -> tr_r_fail st)
        | RpV1 (p0, size0, w) ->
          (match m with
           | TrData pl -> tr_r_v1 unzl c st p0 size0 w pl
           | _ -> tr_r_fail st)
        | RpMd5 (p0, w) ->
          (match m with
           | TrMd5 d -> tr_r_md5 h deq c dest st p0 w d
           | _ -> tr_r_fail st)
        | RpExit ->
          (match m with
           | TrExit _ -> ((tr_r_phase st RpDone), [])
           | _ -> tr_r_fail st)
        | _ -> tr_r_stay st)
     | TrSize _ ->
       (match ph with
        | RpNum ->
          (match m with
           | TrNum n ->
             let (st', outs) =
               tr_r_next c (N.to_nat n) st.rs_st st.rs_names st.rs_sched
             in
             (st', ((TrSuccInt n) :: outs))
           | _ -> tr_r_fail st)
        | RpName ->
          (match m with
           | TrName p0 -> tr_r_name c dest st p0
           | _ -> tr_r_fail st)
        | RpSize p0 ->
          (match m with
           | TrSize n -> tr_r_size c st p0 n
           | _ -> tr_r_fail st)
        | RpComp (p0, size0) ->
          (match m with
           | TrComp b ->
             ((tr_r_phase st (RpData (p0, size0, b, [],
                (tr_cur_sched st).sc_steps))), [])
           | _ -> tr_r_fail st)
        | RpData (p0, size0, cp, acc, steps) ->
          (match m with
           | TrData f -> tr_r_frame zdecomp c st p0 size0 cp acc steps f
           | TrKeepAlive -> tr_r_stay st
           | _ -> tr_r_fail st)
        | RpV1 (p0, size0, w) ->
          (match m with
           | TrData pl -> tr_r_v1 unzl c st p0 size0 w pl
           | _ -> tr_r_fail st)
        | RpMd5 (p0, w) ->
          (match m with
           | TrMd5 d -> tr_r_md5 h deq c dest st p0 w d
           | _ -> tr_r_fail st)
        | RpExit ->
          (match m with
           | TrExit _ -> ((tr_r_phase st RpDone), [])
           | _ -> tr_r_fail st)
        | _ -> tr_r_stay st)
     | TrComp _ ->
       (match ph with
        | RpNum ->
          (match m with
           | TrNum n ->
             let (st', outs) =
               tr_r_next c (N.to_nat n) st.rs_st st.rs_names st.rs_sched
             in
             (st', ((TrSuccInt n) :: outs))
           | _ -> tr_r_fail st)
        | RpName ->
          (match m with
           | TrName p0 -> tr_r_name c dest st p0
           | _ -> tr_r_fail st)
        | RpSize p0 ->
          (match m with
           | TrSize n -> tr_r_size c st p0 n
           | _ -> tr_r_fail st)
        | RpComp (p0, size0) ->
          (match m with
           | TrComp b ->
             ((tr_r_phase st (RpData (p0, size0, b, [],
                (tr_cur_sched st).sc_steps))), [])
           | _ -> tr_r_fail st)
        | RpData (p0, size0, cp, acc, steps) ->
          (match m with
           | TrData f -> tr_r_frame zdecomp c st p0 size0 cp acc steps f
           | TrKeepAlive -> tr_r_stay st
           | _ -> tr_r_fail st)
        | RpV1 (p0, size0, w) ->
          (match m with
           | TrData pl -> tr_r_v1 unzl c st p0 size0 w pl
           | _ -> tr_r_fail st)
        | RpMd5 (p0, w) ->
          (match m with
           | TrMd5 d -> tr_r_md5 h deq c dest st p0 w d
           | _ -> tr_r_fail st)
        | RpExit ->
          (match m with
           | TrExit _ -> ((tr_r_phase st RpDone), [])
           | _ -> tr_r_fail st)
        | _ -> tr_r_stay st)
     | TrData _ ->
       (match ph with
        | RpNum ->
          (match m with
           | TrNum n ->
             let (st', outs) =
               tr_r_next c (N.to_nat n) st.rs_st st.rs_names st.rs_sched
             in
             (st', ((TrSuccInt n) :: outs))
           | _ -> tr_r_fail st)
        | RpName ->
          (match m with
           | TrName p0 -> tr_r_name c dest st p0
           | _ -> tr_r_fail st)
        | RpSize p0 ->
          (match m with
           | TrSize n -> tr_r_size c st p0 n
           | _ -> tr_r_fail st)
        | RpComp (p0, size0) ->
          (match m with
           | TrComp b ->
             ((tr_r_phase st (RpData (p0, size0, b, [],
                (tr_cur_sched st).sc_steps))), [])
           | _ -> tr_r_fail st)
        | RpData (p0, size0, cp, acc, steps) ->
          (match m with
           | TrData f -> tr_r_frame zdecomp c st p0 size0 cp acc steps f
           | TrKeepAlive -> tr_r_stay st
           | _ -> tr_r_fail st)
        | RpV1 (p0, size0, w) ->
          (match m with
           | TrData pl -> tr_r_v1 unzl c st p0 size0 w pl
           | _ -> tr_r_fail st)
        | RpMd5 (p0, w) ->
          (match m with
           | TrMd5 d -> tr_r_md5 h deq c dest st p0 w d
           | _ -> tr_r_fail st)
        | RpExit ->
          (match m with
           | TrExit _ -> ((tr_r_phase st RpDone), [])
           | _ -> tr_r_fail st)
        | _ -> tr_r_stay st)
     | TrMd5 _ ->
       (match ph with
        | RpNum ->
          (match m with
           | TrNum n ->
             let (st', outs) =
               tr_r_next c (N.to_nat n) st.rs_st st.rs_names st.rs_sched
             in
             (st', ((TrSuccInt n) :: outs))
           | _ -> tr_r_fail st)
        | RpName ->
          (match m with
           | TrName p0 -> tr_r_name c dest st p0
           | _ -> tr_r_fail st)
        | RpSize p0 ->
          (match m with
           | TrSize n -> tr_r_size c st p0 n
           | _ -> tr_r_fail st)
        | RpComp (p0, size0) ->
          (match m with
           | TrComp b ->
             ((tr_r_phase st (RpData (p0, size0, b, [],
                (tr_cur_sched st).sc_steps))), [])
           | _ -> tr_r_fail st)
        | RpData (p0, size0, cp, acc, steps) ->
          (match m with
           | TrData f -> tr_r_frame zdecomp c st p0 size0 cp acc steps f
           | TrKeepAlive -> tr_r_stay st
           | _ -> tr_r_fail st)
        | RpV1 (p0, size0, w) ->
          (match m with
           | TrData pl -> tr_r_v1 unzl c st p0 size0 w pl
           | _ -> tr_r_fail st)
        | RpMd5 (p0, w) ->
          (match m with
           | TrMd5 d -> tr_r_md5 h deq c dest st p0 w d
           | _ -> tr_r_fail st)
        | RpExit ->
          (match m with
           | TrExit _ -> ((tr_r_phase st RpDone), [])
           | _ -> tr_r_fail st)
        | _ -> tr_r_stay st)
     | TrExit _ ->
       (match ph with
        | RpNum ->
          (match m with
           | TrNum n ->
             let (st', outs) =
               tr_r_next c (N.to_nat n) st.rs_st st.rs_names st.rs_sched
             in
             (st', ((TrSuccInt n) :: outs))
           | _ -> tr_r_fail st)
        | RpName ->
          (match m with
           | TrName p0 -> tr_r_name c dest st p0
           | _ -> tr_r_fail st)
        | RpSize p0 ->
          (match m with
           | TrSize n -> tr_r_size c st p0 n
           | _ -> tr_r_fail st)
        | RpComp (p0, size0) ->
          (match m with
           | TrComp b ->
             ((tr_r_phase st (RpData (p0, size0, b, [],
                (tr_cur_sched st).sc_steps))), [])
           | _ -> tr_r_fail st)
        | RpData (p0, size0, cp, acc, steps) ->
          (match m with
           | TrData f -> tr_r_frame zdecomp c st p0 size0 cp acc steps f
           | TrKeepAlive -> tr_r_stay st
           | _ -> tr_r_fail st)
        | RpV1 (p0, size0, w) ->
          (match m with
           | TrData pl -> tr_r_v1 unzl c st p0 size0 w pl
           | _ -> tr_r_fail st)
        | RpMd5 (p0, w) ->
          (match m with
           | TrMd5 d -> tr_r_md5 h deq c dest st p0 w d
           | _ -> tr_r_fail st)
        | RpExit ->
          (match m with
           | TrExit _ -> ((tr_r_phase st RpDone), [])
           | _ -> tr_r_fail st)
        | _ -> tr_r_stay st)
     | TrSuccInt _ ->
       (match ph with
        | RpNum ->
          (match m with
           | TrNum n ->
             let (st', outs) =
               tr_r_next c (N.to_nat n) st.rs_st st.rs_names st.rs_sched
             in
             (st', ((TrSuccInt n) :: outs))
           | _ -> tr_r_fail st)
        | RpName ->
          (match m with
           | TrName p0 -> tr_r_name c dest st p0
           | _ -> tr_r_fail st)
        | RpSize p0 ->
          (match m with
           | TrSize n -> tr_r_size c st p0 n
           | _ -> tr_r_fail st)
        | RpComp (p0, size0) ->
          (match m with
           | TrComp b ->
             ((tr_r_phase st (RpData (p0, size0, b, [],
                (tr_cur_sched st).sc_steps))), [])
           | _ -> tr_r_fail st)
        | RpData (p0, size0, cp, acc, steps) ->
          (match m with
           | TrData f -> tr_r_frame zdecomp c st p0 size0 cp acc steps f
           | TrKeepAlive -> tr_r_stay st
           | _ -> tr_r_fail st)
        | RpV1 (p0, size0, w) ->
          (match m with
           | TrData pl -> tr_r_v1 unzl c st p0 size0 w pl
           | _ -> tr_r_fail st)
        | RpMd5 (p0, w) ->
          (match m with
           | TrMd5 d -> tr_r_md5 h deq c dest st p0 w d
           | _ -> tr_r_fail st)
        | RpExit ->
          (match m with
           | TrExit _ -> ((tr_r_phase st RpDone), [])
           | _ -> tr_r_fail st)
        | _ -> tr_r_stay st)
     | TrSuccName _ ->
       (match ph with
        | RpNum ->
          (match m with
           | TrNum n ->
             let (st', outs) =
               tr_r_next c (N.to_nat n) st.rs_st st.rs_names st.rs_sched
             in
             (st', ((TrSuccInt n) :: outs))
           | _ -> tr_r_fail st)
        | RpName ->
          (match m with
           | TrName p0 -> tr_r_name c dest st p0
           | _ -> tr_r_fail st)
        | RpSize p0 ->
          (match m with
           | TrSize n -> tr_r_size c st p0 n
           | _ -> tr_r_fail st)
        | RpComp (p0, size0) ->
          (match m with
           | TrComp b ->
             ((tr_r_phase st (RpData (p0, size0, b, [],
                (tr_cur_sched st).sc_steps))), [])
           | _ -> tr_r_fail st)
        | RpData (p0, size0, cp, acc, steps) ->
          (match m with
           | TrData f -> tr_r_frame zdecomp c st p0 size0 cp acc steps f
           | TrKeepAlive -> tr_r_stay st
           | _ -> tr_r_fail st)
        | RpV1 (p0, size0, w) ->
          (match m with
           | TrData pl -> tr_r_v1 unzl c st p0 size0 w pl
           | _ -> tr_r_fail st)
        | RpMd5 (p0, w) ->
          (match m with
           | TrMd5 d -> tr_r_md5 h deq c dest st p0 w d
           | _ -> tr_r_fail st)
        | RpExit ->
          (match m with
           | TrExit _ -> ((tr_r_phase st RpDone), [])
           | _ -> tr_r_fail st)
        | _ -> tr_r_stay st)
     | TrSuccTarget (_, _) ->
       (match ph with
        | RpNum ->
          (match m with
           | TrNum n ->
             let (st', outs) =
               tr_r_next c (N.to_nat n) st.rs_st st.rs_names st.rs_sched
             in
             (st', ((TrSuccInt n) :: outs))
           | _ -> tr_r_fail st)
        | RpName ->
          (match m with
           | TrName p0 -> tr_r_name c dest st p0
           | _ -> tr_r_fail st)
        | RpSize p0 ->
          (match m with
           | TrSize n -> tr_r_size c st p0 n
           | _ -> tr_r_fail st)
        | RpComp (p0, size0) ->
          (match m with
           | TrComp b ->
             ((tr_r_phase st (RpData (p0, size0, b, [],
                (tr_cur_sched st).sc_steps))), [])
           | _ -> tr_r_fail st)
        | RpData (p0, size0, cp, acc, steps) ->
          (match m with
           | TrData f -> tr_r_frame zdecomp c st p0 size0 cp acc steps f
           | TrKeepAlive -> tr_r_stay st
           | _ -> tr_r_fail st)
        | RpV1 (p0, size0, w) ->
          (match m with
           | TrData pl -> tr_r_v1 unzl c st p0 size0 w pl
           | _ -> tr_r_fail st)
        | RpMd5 (p0, w) ->
          (match m with
           | TrMd5 d -> tr_r_md5 h deq c dest st p0 w d
           | _ -> tr_r_fail st)
        | RpExit ->
          (match m with
           | TrExit _ -> ((tr_r_phase st RpDone), [])
           | _ -> tr_r_fail st)
        | _ -> tr_r_stay st)
     | TrSuccAck (_, _) ->
       (match ph with
        | RpNum ->
          (match m with
           | TrNum n ->
             let (st', outs) =
               tr_r_next c (N.to_nat n) st.rs_st st.rs_names st.rs_sched
             in
             (st', ((TrSuccInt n) :: outs))
           | _ -> tr_r_fail st)
        | RpName ->
          (match m with
           | TrName p0 -> tr_r_name c dest st p0
           | _ -> tr_r_fail st)
        | RpSize p0 ->
          (match m with
           | TrSize n -> tr_r_size c st p0 n
           | _ -> tr_r_fail st)
        | RpComp (p0, size0) ->
          (match m with
           | TrComp b ->
             ((tr_r_phase st (RpData (p0, size0, b, [],
                (tr_cur_sched st).sc_steps))), [])
           | _ -> tr_r_fail st)
        | RpData (p0, size0, cp, acc, steps) ->
          (match m with
           | TrData f -> tr_r_frame zdecomp c st p0 size0 cp acc steps f
           | TrKeepAlive -> tr_r_stay st
           | _ -> tr_r_fail st)
        | RpV1 (p0, size0, w) ->
          (match m with
           | TrData pl -> tr_r_v1 unzl c st p0 size0 w pl
           | _ -> tr_r_fail st)
        | RpMd5 (p0, w) ->
          (match m with
           | TrMd5 d -> tr_r_md5 h deq c dest st p0 w d
           | _ -> tr_r_fail st)
        | RpExit ->
          (match m with
           | TrExit _ -> ((tr_r_phase st RpDone), [])
           | _ -> tr_r_fail st)
        | _ -> tr_r_stay st)
     | TrSuccDigest _ ->
       (match ph with
        | RpNum ->
          (match m with
           | TrNum n ->
             let (st', outs) =
               tr_r_next c (N.to_nat n) st.rs_st st.rs_names st.rs_sched
             in
             (st', ((TrSuccInt n) :: outs))
           | _ -> tr_r_fail st)
        | RpName ->
          (match m with
           | TrName p0 -> tr_r_name c dest st p0
           | _ -> tr_r_fail st)
        | RpSize p0 ->
          (match m with
           | TrSize n -> tr_r_size c st p0 n
           | _ -> tr_r_fail st)
        | RpComp (p0, size0) ->
          (match m with
           | TrComp b ->
             ((tr_r_phase st (RpData (p0, size0, b, [],
                (tr_cur_sched st).sc_steps))), [])
           | _ -> tr_r_fail st)
        | RpData (p0, size0, cp, acc, steps) ->
          (match m with
           | TrData f -> tr_r_frame zdecomp c st p0 size0 cp acc steps f
           | TrKeepAlive -> tr_r_stay st
           | _ -> tr_r_fail st)
        | RpV1 (p0, size0, w) ->
          (match m with
           | TrData pl -> tr_r_v1 unzl c st p0 size0 w pl
           | _ -> tr_r_fail st)
        | RpMd5 (p0, w) ->
          (match m with
           | TrMd5 d -> tr_r_md5 h deq c dest st p0 w d
           | _ -> tr_r_fail st)
        | RpExit ->
          (match m with
           | TrExit _ -> ((tr_r_phase st RpDone), [])
           | _ -> tr_r_fail st)
        | _ -> tr_r_stay st)
     | TrKeepAlive ->
       (match ph with
        | RpNum ->
          (match m with
           | TrNum n ->
             let (st', outs) =
               tr_r_next c (N.to_nat n) st.rs_st st.rs_names st.rs_sched
             in
             (st', ((TrSuccInt n) :: outs))
           | _ -> tr_r_fail st)
        | RpName ->
          (match m with
           | TrName p0 -> tr_r_name c dest st p0
           | _ -> tr_r_fail st)
        | RpSize p0 ->
          (match m with
           | TrSize n -> tr_r_size c st p0 n
           | _ -> tr_r_fail st)
        | RpComp (p0, size0) ->
          (match m with
           | TrComp b ->
             ((tr_r_phase st (RpData (p0, size0, b, [],
                (tr_cur_sched st).sc_steps))), [])
           | _ -> tr_r_fail st)
        | RpData (p0, size0, cp, acc, steps) ->
          (match m with
           | TrData f -> tr_r_frame zdecomp c st p0 size0 cp acc steps f
           | TrKeepAlive -> tr_r_stay st
           | _ -> tr_r_fail st)
        | RpV1 (p0, size0, w) ->
          (match m with
           | TrData pl -> tr_r_v1 unzl c st p0 size0 w pl
           | _ -> tr_r_fail st)
        | RpMd5 (p0, w) ->
          (match m with
           | TrMd5 d -> tr_r_md5 h deq c dest st p0 w d
           | _ -> tr_r_fail st)
        | RpExit ->
          (match m with
           | TrExit _ -> ((tr_r_phase st RpDone), [])
           | _ -> tr_r_fail st)
        | _ -> tr_r_stay st)
     | TrFail -> ((tr_r_phase st RpFail), []))
  | RpData (p, size, compress, acc, steps) ->
    let ph = RpData (p, size, compress, acc, steps) in
    (match m with
     | TrNum _ ->
       (match ph with
        | RpNum ->
          (match m with
           | TrNum n ->
             let (st', outs) =
               tr_r_next c (N.to_nat n) st.rs_st st.rs_names st.rs_sched
             in
             (st', ((TrSuccInt n) :: outs))
           | _ -> tr_r_fail st)
        | RpName ->
          (match m with
           | TrName p0 -> tr_r_name c dest st p0
           | _ -> tr_r_fail st)
        | RpSize p0 ->
          (match m with
           | TrSize n -> tr_r_size c st p0 n
           | _ -> tr_r_fail st)
        | RpComp (p0, size0) ->
          (match m with
           | TrComp b ->
             ((tr_r_phase st (RpData (p0, size0, b, [],
                (tr_cur_sched st).sc_steps))), [])
           | _ -> tr_r_fail st)
        | RpData (p0, size0, cp, acc0, steps0) ->
          (match m with
           | TrData f -> tr_r_frame zdecomp c st p0 size0 cp acc0 steps0 f
           | TrKeepAlive -> tr_r_stay st
           | _ -> tr_r_fail st)
        | RpV1 (p0, size0, w) ->
          (match m with
           | TrData pl -> tr_r_v1 unzl c st p0 size0 w pl
           | _ -> tr_r_fail st)
        | RpMd5 (p0, w) ->
          (match m with
           | TrMd5 d -> tr_r_md5 h deq c dest st p0 w d
           | _ -> tr_r_fail st)
        | RpExit ->
          (match m with
           | TrExit _ -> ((tr_r_phase st RpDone), [])
           | _ -> tr_r_fail st)
        | _ -> tr_r_stay st)
     | TrName _ ->
       (match ph with
        | RpNum ->
          (match m with
           | TrNum n ->
             let (st', outs) =
               tr_r_next c (N.to_nat n) st.rs_st st.rs_names st.rs_sched
             in
             (st', ((TrSuccInt n) :: outs))
           | _ -> tr_r_fail st)
        | RpName ->
          (match m with
           | TrName p0 -> tr_r_name c dest st p0
           | _ -> tr_r_fail st)
        | RpSize p0 ->
          (match m with
           | TrSize n -> tr_r_size c st p0 n
           | _ -> tr_r_fail st)
        | RpComp (p0, size0) ->
          (match m with
           | TrComp b ->
             ((tr_r_phase st (RpData (p0, size0, b, [],
                (tr_cur_sched st).sc_steps))), [])
           | _ -> tr_r_fail st)
        | RpData (p0, size0, cp, acc0, steps0) ->
          (match m with
           | TrData f -> tr_r_frame zdecomp c st p0 size0 cp acc0 steps0 f
           | TrKeepAlive -> tr_r_stay st
           | _ -> tr_r_fail st)
        | RpV1 (p0, size0, w) ->
          (match m with
           | TrData pl -> tr_r_v1 unzl c st p0 size0 w pl
           | _ -> tr_r_fail st)
        | RpMd5 (p0, w) ->
          (match m with
           | TrMd5 d -> tr_r_md5 h deq c dest st p0 w d
           | _ -> tr_r_fail st)
        | RpExit ->
          (match m with
           | TrExit _ -> ((tr_r_phase st RpDone), [])
           | _ -> tr_r_fail st)
        | _ -> tr_r_stay st)
     | TrSize _ ->
       (match ph with
        | RpNum ->
          (match m with
           | TrNum n ->
             let (st', outs) =
               tr_r_next c (N.to_nat n) st.rs_st st.rs_names st.rs_sched
             in
             (st', ((TrSuccInt n) :: outs))
           | _ -> tr_r_fail st)
        | RpName ->
          (match m with
           | TrName p0 -> tr_r_name c dest st p0
           | _ -> tr_r_fail st)
        | RpSize p0 ->
          (match m with
           | TrSize n -> tr_r_size c st p0 n
           | _ -> tr_r_fail st)
        | RpComp (p0, size0) ->
          (match m with
           | TrComp b ->
             ((tr_r_phase st (RpData (p0, size0, b, [],
                (tr_cur_sched st).sc_steps))), [])
           | _ -> tr_r_fail st)
        | RpData (p0, size0, cp, acc0, steps0) ->
          (match m with
           | TrData f -> tr_r_frame zdecomp c st p0 size0 cp acc0 steps0 f
           | TrKeepAlive -> tr_r_stay st
           | _ -> tr_r_fail st)
        | RpV1 (p0, size0, w) ->
          (match m with
           | TrData pl -> tr_r_v1 unzl c st p0 size0 w pl
           | _ -> tr_r_fail st)
        | RpMd5 (p0, w) ->
          (match m with
           | TrMd5 d -> tr_r_md5 h deq c dest st p0 w d
           | _ -> tr_r_fail st)
        | RpExit ->
          (match m with
           | TrExit _ -> ((tr_r_phase st RpDone), [])
           | _ -> tr_r_fail st)
        | _ -> tr_r_stay st)
     | TrComp _ ->
       (match ph with
        | RpNum ->
          (match m with
           | TrNum n ->
             let (st', outs) =
               tr_r_next c (N.to_nat n) st.rs_st st.rs_names st.rs_sched
             in
             (st', ((TrSuccInt n) :: outs))
           | _ -> tr_r_fail st)
        | RpName ->
          (match m with
           | TrName p0 -> tr_r_name c dest st p0
           | _ -> tr_r_fail st)
        | RpSize p0 ->
          (match m with
           | TrSize n -> tr_r_size c st p0 n
           | _ -> tr_r_fail st)
        | RpComp (p0, size0) ->
          (match m with
           | TrComp b ->
             ((tr_r_phase st (RpData (p0, size0, b, [],
                (tr_cur_sched st).sc_steps))), [])
           | _ -> tr_r_fail st)
        | RpData (p0, size0, cp, acc0, steps0) ->
          (match m with
           | TrData f -> tr_r_frame zdecomp c st p0 size0 cp acc0 steps0 f
           | TrKeepAlive -> tr_r_stay st
           | _ -> tr_r_fail st)
        | RpV1 (p0, size0, w) ->
          (match m with
           | TrData pl -> tr_r_v1 unzl c st p0 size0 w pl
           | _ -> tr_r_fail st)
        | RpMd5 (p0, w) ->
          (match m with
           | TrMd5 d -> tr_r_md5 h deq c dest st p0 w d
           | _ -> tr_r_fail st)
        | RpExit ->
          (match m with
           | TrExit _ -> ((tr_r_phase st RpDone), [])
           | _ -> tr_r_fail st)
        | _ -> tr_r_stay st)
     | TrData _ ->
       (match ph with
        | RpNum ->
          (match m with
           | TrNum n ->
             let (st', outs) =
               tr_r_next c (N.to_nat n) st.rs_st st.rs_names st.rs_sched
             in
             (st', ((TrSuccInt n) :: outs))
           | _ -> tr_r_fail st)
        | RpName ->
          (match m with
           | TrName p0 -> tr_r_name c dest st p0
           | _ -> tr_r_fail st)
        | RpSize p0 ->
          (match m with
           | TrSize n -> tr_r_size c st p0 n
           | _ -> tr_r_fail st)
        | RpComp (p0, size0) ->
          (match m with
           | TrComp b ->
             ((tr_r_phase st (RpData (p0, size0, b, [],
                (tr_cur_sched st).sc_steps))), [])
           | _ -> tr_r_fail st)
        | RpData (p0, size0, cp, acc0, steps0) ->
          (match m with
           | TrData f -> tr_r_frame zdecomp c st p0 size0 cp acc0 steps0 f
           | TrKeepAlive -> tr_r_stay st
           | _ -> tr_r_fail st)
        | RpV1 (p0, size0, w) ->
          (match m with
           | TrData pl -> tr_r_v1 unzl c st p0 size0 w pl
           | _ -> tr_r_fail st)
        | RpMd5 (p0, w) ->
          (match m with
           | TrMd5 d -> tr_r_md5 h deq c dest st p0 w d
           | _ -> tr_r_fail st)
        | RpExit ->
          (match m with
           | TrExit _ -> ((tr_r_phase st RpDone), [])
           | _ -> tr_r_fail st)
        | _ -> tr_r_stay st)
     | TrMd5 _ ->
       (match ph with
        | RpNum ->
          (match m with
           | TrNum n ->
             let (st', outs) =
               tr_r_next c (N.to_nat n) st.rs_st st.rs_names st.rs_sched
             in
             (st', ((TrSuccInt n) :: outs))
           | _ -> tr_r_fail st)
        | RpName ->
          (match m with
           | TrName p0 -> tr_r_name c dest st p0
           | _ -> tr_r_fail st)
        | RpSize p0 ->
          (match m with
           | TrSize n -> tr_r_size c st p0 n
           | _ -> tr_r_fail st)
        | RpComp (p0, size0) ->
          (match m with
           | TrComp b ->
             ((tr_r_phase st (RpData (p0, size0, b, [],
                (tr_cur_sched st).sc_steps))), [])
           | _ -> tr_r_fail st)
        | RpData (p0, size0, cp, acc0, steps0) ->
          (match m with
           | TrData f -> tr_r_frame zdecomp c st p0 size0 cp acc0 steps0 f
           | TrKeepAlive -> tr_r_stay st
           | _ -> tr_r_fail st)
        | RpV1 (p0, size0, w) ->
          (match m with
           | TrData pl -> tr_r_v1 unzl c st p0 size0 w pl
           | _ -> tr_r_fail st)
        | RpMd5 (p0, w) ->
          (match m with
           | TrMd5 d -> tr_r_md5 h deq c dest st p0 w d
           | _ -> tr_r_fail st)
        | RpExit ->
          (match m with
           | TrExit _ -> ((tr_r_phase st RpDone), [])
           | _ -> tr_r_fail st)
        | _ -> tr_r_stay st)
     | TrExit _ ->
       (match ph with
        | RpNum ->
          (match m with
           | TrNum n ->
             let (st', outs) =
               tr_r_next c (N.to_nat n) st.rs_st st.rs_names st.rs_sched
             in
             (st', ((TrSuccInt n) :: outs))
           | _ -> tr_r_fail st)
        | RpName ->
          (match m with
           | TrName p0 -> tr_r_name c dest st p0
           | _ -> tr_r_fail st)
        | RpSize p0 ->
          (match m with
           | TrSize n -> tr_r_size c st p0 n
           | _ -> tr_r_fail st)
        | RpComp (p0, size0) ->
          (match m with
           | TrComp b ->
             ((tr_r_phase st (RpData (p0, size0, b, [],
                (tr_cur_sched st).sc_steps))), [])
           | _ -> tr_r_fail st)
        | RpData (p0, size0, cp, acc0, steps0) ->
          (match m with
           | TrData f -> tr_r_frame zdecomp c st p0 size0 cp acc0 steps0 f
           | TrKeepAlive -> tr_r_stay st
           | _ -> tr_r_fail st)
        | RpV1 (p0, size0, w) ->
          (match m with
           | TrData pl -> tr_r_v1 unzl c st p0 size0 w pl
           | _ -> tr_r_fail st)
        | RpMd5 (p0, w) ->
          (match m with
           | TrMd5 d -> tr_r_md5 h deq c dest st p0 w d
           | _ -> tr_r_fail st)
        | RpExit ->
          (match m with
           | TrExit _ -> ((tr_r_phase st RpDone), [])
           | _ -> tr_r_fail st)
        | _ -> tr_r_stay st)
     | TrSuccInt _ ->
       (match ph with
        | RpNum ->
          (match m with
           | TrNum n ->
             let (st', outs) =
               tr_r_next c (N.to_nat n) st.rs_st st.rs_names st.rs_sched
             in
             (st', ((TrSuccInt n) :: outs))
           | _ -> tr_r_fail st)
        | RpName ->
          (match m with
           | TrName p0 -> tr_r_name c dest st p0
           | _ -> tr_r_fail st)
        | RpSize p0 ->
          (match m with
           | TrSize n -> tr_r_size c st p0 n
           | _ -> tr_r_fail st)
        | RpComp (p0, size0) ->
          (match m with
           | TrComp b ->
             ((tr_r_phase st (RpData (p0, size0, b, [],
                (tr_cur_sched st).sc_steps))), [])
           | _ -> tr_r_fail st)
        | RpData (p0, size0, cp, acc0, steps0) ->
          (match m with
           | TrData f -> tr_r_frame zdecomp c st p0 size0 cp acc0 steps0 f
           | TrKeepAlive -> tr_r_stay st
           | _ -> tr_r_fail st)
        | RpV1 (p0, size0, w) ->
          (match m with
           | TrData pl -> tr_r_v1 unzl c st p0 size0 w pl
           | _ -> tr_r_fail st)
        | RpMd5 (p0, w) ->
          (match m with
           | TrMd5 d -> tr_r_md5 h deq c dest st p0 w d
           | _ -> tr_r_fail st)
        | RpExit ->
          (match m with
           | TrExit _ -> ((tr_r_phase st RpDone), [])
           | _ -> tr_r_fail st)
        | _ -> tr_r_stay st)
     | TrSuccName _ ->
       (match ph with
        | RpNum ->
          (match m with
           | TrNum n ->
             let (st', outs) =
               tr_r_next c (N.to_nat n) st.rs_st st.rs_names st.rs_sched
             in
             (st', ((TrSuccInt n) :: outs))
           | _ -> tr_r_fail st)
        | RpName ->
          (match m with
           | TrName p0 -> tr_r_name c dest st p0
           | _ -> tr_r_fail st)
        | RpSize p0 ->
          (match m with
           | TrSize n -> tr_r_size c st p0 n
           | _ -> tr_r_fail st)
        | RpComp (p0, size0) ->
          (match m with
           | TrComp b ->
             ((tr_r_phase st (RpData (p0, size0, b, [],
                (tr_cur_sched st).sc_steps))), [])
           | _ -> tr_r_fail st)
        | RpData (p0, size0, cp, acc0, steps0) ->
          (match m with
           | TrData f -> tr_r_frame zdecomp c st p0 size0 cp acc0 steps0 f
           | TrKeepAlive -> tr_r_stay st
           | _ -> tr_r_fail st)
        | RpV1 (p0, size0, w) ->
          (match m with
           | TrData pl -> tr_r_v1 unzl c st p0 size0 w pl
           | _ -> tr_r_fail st)
        | RpMd5 (p0, w) ->
          (match m with
           | TrMd5 d -> tr_r_md5 h deq c dest st p0 w d
           | _ -> tr_r_fail st)
        | RpExit ->
          (match m with
           | TrExit _ -> ((tr_r_phase st RpDone), [])
           | _ -> tr_r_fail st)
        | _ -> tr_r_stay st)
     | TrSuccTarget (_, _) ->
       (match ph with
        | RpNum ->
          (match m with
           | TrNum n ->
             let (st', outs) =
               tr_r_next c (N.to_nat n) st.rs_st st.rs_names st.rs_sched
             in
             (st', ((TrSuccInt n) :: outs))
           | _ -> tr_r_fail st)
        | RpName ->
          (match m with
           | TrName p0 -> tr_r_name c dest st p0
           | _ -> tr_r_fail st)
        | RpSize p0 ->
          (match m with
           | TrSize n -> tr_r_size c st p0 n
           | _ -> tr_r_fail st)
        | RpComp (p0, size0) ->
          (match m with
           | TrComp b ->
             ((tr_r_phase st (RpData (p0, size0, b, [],
                (tr_cur_sched st).sc_steps))), [])
           | _ -> tr_r_fail st)
        | RpData (p0, size0, cp, acc0, steps0) ->
          (match m with
           | TrData f -> tr_r_frame zdecomp c st p0 size0 cp acc0 steps0 f
           | TrKeepAlive -> tr_r_stay st
           | _ -> tr_r_fail st)
        | RpV1 (p0, size0, w) ->
          (match m with
           | TrData pl -> tr_r_v1 unzl c st p0 size0 w pl
           | _ -> tr_r_fail st)
        | RpMd5 (p0, w) ->
          (match m with
           | TrMd5 d -> tr_r_md5 h deq c dest st p0 w d
           | _ -> tr_r_fail st)
        | RpExit ->
          (match m with
           | TrExit _ -> ((tr_r_phase st RpDone), [])
           | _ -> tr_r_fail st)
        | _ -> tr_r_stay st)
     | TrSuccAck (_, _) ->
       (match ph with
        | RpNum ->
          (match m with
           | TrNum n ->
             let (st', outs) =
               tr_r_next c (N.to_nat n) st.rs_st st.rs_names st.rs_sched
             in
             (st', ((TrSuccInt n) :: outs))
           | _ -> tr_r_fail st)
        | RpName ->
          (match m with
           | TrName p0 -> tr_r_name c dest st p0
           | _ -> tr_r_fail st)
        | RpSize p0 ->
          (match m with
           | TrSize n -> tr_r_size c st p0 n
           | _ -> tr_r_fail st)
        | RpComp (p0, size0) ->
          (match m with
           | TrComp b ->
             ((tr_r_phase st (RpData (p0, size0, b, [],
                (tr_cur_sched st).sc_steps))), [])
           | _ -> tr_r_fail st)
        | RpData (p0, size0, cp, acc0, steps0) ->
          (match m with
           | TrData f -> tr_r_frame zdecomp c st p0 size0 cp acc0 steps0 f
           | TrKeepAlive -> tr_r_stay st
           | _ -> tr_r_fail st)
        | RpV1 (p0, size0, w) ->
          (match m with
           | TrData pl -> tr_r_v1 unzl c st p0 size0 w pl
           | _ -> tr_r_fail st)
        | RpMd5 (p0, w) ->
          (match m with
           | TrMd5 d -> tr_r_md5 h deq c dest st p0 w d
           | _ -> tr_r_fail st)
        | RpExit ->
          (match m with
           | TrExit _ -> ((tr_r_phase st RpDone), [])
           | _ -> tr_r_fail st)
        | _ -> tr_r_stay st)
     | TrSuccDigest _ ->
       (match ph with
        | RpNum ->
          (match m with
           | TrNum n ->
             let (st', outs) =
               tr_r_next c (N.to_nat n) st.rs_st st.rs_names st.rs_sched
             in
             (st', ((TrSuccInt n) :: outs))
           | _ -> tr_r_fail st)
        | RpName ->
          (match m with
           | TrName p0 -> tr_r_name c dest st p0
           | _ -> tr_r_fail st)
        | RpSize p0 ->
          (match m with
           | TrSize n -> tr_r_size c st p0 n
           | _ -> tr_r_fail st)
        | RpComp (p0, size0) ->
          (match m with
           | TrComp b ->
             ((tr_r_phase st (RpData (p0, size0, b, [],
                (tr_cur_sched st).sc_steps))), [])
           | _ -> tr_r_fail st)
        | RpData (p0, size0, cp, acc0, steps0) ->
          (match m with
           | TrData f -> tr_r_frame zdecomp c st p0 size0 cp acc0 steps0 f
           | TrKeepAlive -> tr_r_stay st
           | _ -> tr_r_fail st)
        | RpV1 (p0, size0, w) ->
          (match m with
           | TrData pl -> tr_r_v1 unzl c st p0 size0 w pl
           | _ -> tr_r_fail st)
        | RpMd5 (p0, w) ->
          (match m with
           | TrMd5 d -> tr_r_md5 h deq c dest st p0 w d
           | _ -> tr_r_fail st)
        | RpExit ->
          (match m with
           | TrExit _ -> ((tr_r_phase st RpDone), [])
           | _ -> tr_r_fail st)
        | _ -> tr_r_stay st)
     | TrKeepAlive ->
       (match ph with
        | RpNum ->
          (match m with
           | TrNum n ->
             let (st', outs) =
               tr_r_next c (N.to_nat n) st.rs_st st.rs_names st.rs_sched
             in
             (st', ((TrSuccInt n) :: outs))
           | _ -> tr_r_fail st)
        | RpName ->
          (match m with
           | TrName p0 -> tr_r_name c dest st p0
           | _ -> tr_r_fail st)
        | RpSize p0 ->
          (match m with
           | TrSize n -> tr_r_size c st p0 n
           | _ -> tr_r_fail st)
        | RpComp (p0, size0) ->
          (match m with
           | TrComp b ->
             ((tr_r_phase st (RpData (p0, size0, b, [],
                (tr_cur_sched st).sc_steps))), [])
           | _ -> tr_r_fail st)
        | RpData (p0, size0, cp, acc0, steps0) ->
          (match m with
           | TrData f -> tr_r_frame zdecomp c st p0 size0 cp acc0 steps0 f
           | TrKeepAlive -> tr_r_stay st
           | _ -> tr_r_fail st)
        | RpV1 (p0, size0, w) ->
          (match m with
           | TrData pl -> tr_r_v1 unzl c st p0 size0 w pl
           | _ -> tr_r_fail st)
        | RpMd5 (p0, w) ->
          (match m with
           | TrMd5 d -> tr_r_md5 h deq c dest st p0 w d
           | _ -> tr_r_fail st)
        | RpExit ->
          (match m with
           | TrExit _ -> ((tr_r_phase st RpDone), [])
           | _ -> tr_r_fail st)
        | _ -> tr_r_stay st)
     | TrFail -> ((tr_r_phase st RpFail), []))
  | RpV1 (p, size, w) ->
    let ph = RpV1 (p, size, w) in
    (match m with
     | TrNum _ ->
       (match ph with
        | RpNum ->
          (match m with
           | TrNum n ->
             let (st', outs) =
               tr_r_next c (N.to_nat n) st.rs_st st.rs_names st.rs_sched
             in
             (st', ((TrSuccInt n) :: outs))
           | _ -> tr_r_fail st)
        | RpName ->
          (match m with
           | TrName p0 -> tr_r_name c dest st p0
           | _ -> tr_r_fail st)
        | RpSize p0 ->
          (match m with
           | TrSize n -> tr_r_size c st p0 n
           | _ -> tr_r_fail st)
        | RpComp (p0, size0) ->
          (match m with
           | TrComp b ->
             ((tr_r_phase st (RpData (p0, size0, b, [],
                (tr_cur_sched st).sc_steps))), [])
           | _ -> tr_r_fail st)
        | RpData (p0, size0, cp, acc, steps) ->
          (match m with
           | TrData f -> tr_r_frame zdecomp c st p0 size0 cp acc steps f
           | TrKeepAlive -> tr_r_stay st
           | _ -> tr_r_fail st)
        | RpV1 (p0, size0, w0) ->
          (match m with
           | TrData pl -> tr_r_v1 unzl c st p0 size0 w0 pl
           | _ -> tr_r_fail st)
        | RpMd5 (p0, w0) ->
          (match m with
           | TrMd5 d -> tr_r_md5 h deq c dest st p0 w0 d
           | _ -> tr_r_fail st)
        | RpExit ->
          (match m with
           | TrExit _ -> ((tr_r_phase st RpDone), [])
           | _ -> tr_r_fail st)
        | _ -> tr_r_stay st)
     | TrName _ ->
       (match ph with
        | RpNum ->
          (match m with
           | TrNum n ->
             let (st', outs) =
               tr_r_next c (N.to_nat n) st.rs_st st.rs_names st.rs_sched
             in
             (st', ((TrSuccInt n) :: outs))
           | _ -> tr_r_fail st)
        | RpName ->
          (match m with
           | TrName p0 -> tr_r_name c dest st p0
           | _ -> tr_r_fail st)
        | RpSize p0 ->
          (match m with
           | TrSize n -> tr_r_size c st p0 n
           | _ -> tr_r_fail st)
        | RpComp (p0, size0) ->
          (match m with
           | TrComp b ->
             ((tr_r_phase st (RpData (p0, size0, b, [],
                (tr_cur_sched st).sc_steps))), [])
           | _ -> tr_r_fail st)
        | RpData (p0, size0, cp, acc, steps) ->
          (match m with
           | TrData f -> tr_r_frame zdecomp c st p0 size0 cp acc steps f
           | TrKeepAlive -> tr_r_stay st
           | _ -> tr_r_fail st)
        | RpV1 (p0, size0, w0) ->
          (match m with
           | TrData pl -> tr_r_v1 unzl c st p0 size0 w0 pl
           | _ -> tr_r_fail st)
        | RpMd5 (p0, w0) ->
          (match m with
           | TrMd5 d -> tr_r_md5 h deq c dest st p0 w0 d
           | _ -> tr_r_fail st)
        | RpExit ->
          (match m with
           | TrExit _ -> ((tr_r_phase st RpDone), [])
           | _ -> tr_r_fail st)
        | _ -> tr_r_stay st)
     | TrSize _ ->
       (match ph with
        | RpNum ->
          (match m with
           | TrNum n ->
             let (st', outs) =
               tr_r_next c (N.to_nat n) st.rs_st st.rs_names st.rs_sched
             in
             (st', ((TrSuccInt n) :: outs))
           | _ -> tr_r_fail st)
        | RpName ->
          (match m with
           | TrName p0 -> tr_r_name c dest st p0
           | _ -> tr_r_fail st)
        | RpSize p0 ->
          (match m with
           | TrSize n -> tr_r_size c st p0 n
           | _ -> tr_r_fail st)
        | RpComp (p0, size0) ->
          (match m with
           | TrComp b ->
             ((tr_r_phase st (RpData (p0, size0, b, [],
                (tr_cur_sched st).sc_steps))), [])
           | _ -> tr_r_fail st)
        | RpData (p0, size0, cp, acc, steps) ->
          (match m with
           | TrData f -> tr_r_frame zdecomp c st p0 size0 cp acc steps f
           | TrKeepAlive -> tr_r_stay st
           | _ -> tr_r_fail st)
        | RpV1 (p0, size0, w0) ->
          (match m with
           | TrData pl -> tr_r_v1 unzl c st p0 size0 w0 pl
           | _ -> tr_r_fail st)
        | RpMd5 (p0, w0) ->
          (match m with
           | TrMd5 d -> tr_r_md5 h deq c dest st p0 w0 d
           | _ -> tr_r_fail st)
        | RpExit ->
          (match m with
           | TrExit _ -> ((tr_r_phase st RpDone), [])
           | _ -> tr_r_fail st)
        | _ -> tr_r_stay st)
     | TrComp _ ->
       (match ph with
        | RpNum ->
          (match m with
           | TrNum n ->
             let (st', outs) =
               tr_r_next c (N.to_nat n) st.rs_st st.rs_names st.rs_sched
             in
             (st', ((TrSuccInt n) :: outs))
           | _ -> tr_r_fail st)
        | RpName ->
          (match m with
           | TrName p0 -> tr_r_name c dest st p0
           | _ -> tr_r_fail st)
        | RpSize p0 ->
          (match m with
           | TrSize n -> tr_r_size c st p0 n
           | _ -> tr_r_fail st)
        | RpComp (p0, size0) ->
          (match m with
           | TrComp b ->
             ((tr_r_phase st (RpData (p0, size0, b, [],
                (tr_cur_sched st).sc_steps))), [])
           | _ -> tr_r_fail st)
        | RpData (p0, size0, cp, acc, steps) ->
          (match m with
           | TrData f -> tr_r_frame zdecomp c st p0 size0 cp acc steps f
           | TrKeepAlive -> tr_r_stay st
           | _ -> tr_r_fail st)
        | RpV1 (p0, size0, w0) ->
          (match m with
           | TrData pl -> tr_r_v1 unzl c st p0 size0 w0 pl
           | _ -> tr_r_fail st)
        | RpMd5 (p0, w0) ->
          (match m with
           | TrMd5 d -> tr_r_md5 h deq c dest st p0 w0 d
           | _ -> tr_r_fail st)
        | RpExit ->
          (match m with
           | TrExit _ -> ((tr_r_phase st RpDone), [])
           | _ -> tr_r_fail st)
        | _ -> tr_r_stay st)
     | TrData _ ->
       (match ph with
        | RpNum ->
          (match m with
           | TrNum n ->
             let (st', outs) =
               tr_r_next c (N.to_nat n) st.rs_st st.rs_names st.rs_sched
             in
             (st', ((TrSuccInt n) :: outs))
           | _ -> tr_r_fail st)
        | RpName ->
          (match m with
           | TrName p0 -> tr_r_name c dest st p0
           | _ -> tr_r_fail st)
        | RpSize p0 ->
          (match m with
           | TrSize n -> tr_r_size c st p0 n
           | _ -> tr_r_fail st)
        | RpComp (p0, size0) ->
          (match m with
           | TrComp b ->
             ((tr_r_phase st (RpData (p0, size0, b, [],
                (tr_cur_sched st).sc_steps))), [])
           | _ -> tr_r_fail st)
        | RpData (p0, size0, cp, acc, steps) ->
          (match m with
           | TrData f -> tr_r_frame zdecomp c st p0 size0 cp acc steps f
           | TrKeepAlive -> tr_r_stay st
           | _ -> tr_r_fail st)
        | RpV1 (p0, size0, w0) ->
          (match m with
           | TrData pl -> tr_r_v1 unzl c st p0 size0 w0 pl
           | _ -> tr_r_fail st)
        | RpMd5 (p0, w0) ->
          (match m with
           | TrMd5 d -> tr_r_md5 h deq c dest st p0 w0 d
           | _ -> tr_r_fail st)
        | RpExit ->
          (match m with
           | TrExit _ -> ((tr_r_phase st RpDone), [])
           | _ -> tr_r_fail st)
        | _ -> tr_r_stay st)
     | TrMd5 _ ->
       (match ph with
        | RpNum ->
          (match m with
           | TrNum n ->
             let (st', outs) =
               tr_r_next c (N.to_nat n) st.rs_st st.rs_names st.rs_sched
             in
             (st', ((TrSuccInt n) :: outs))
           | _ -> tr_r_fail st)
        | RpName ->
          (match m with
           | TrName p0 -> tr_r_name c dest st p0
           | _ -> tr_r_fail st)
        | RpSize p0 ->
          (match m with
           | TrSize n -> tr_r_size c st p0 n
           | _ -> tr_r_fail st)
        | RpComp (p0, size0) ->
          (match m with
           | TrComp b ->
             ((tr_r_phase st (RpData (p0, size0, b, [],
                (tr_cur_sched st).sc_steps))), [])
           | _ -> tr_r_fail st)
        | RpData (p0, size0, cp, acc, steps) ->
          (match m with
           | TrData f -> tr_r_frame zdecomp c st p0 size0 cp acc steps f
           | TrKeepAlive -> tr_r_stay st
           | _ -> tr_r_fail st)
        | RpV1 (p0, size0, w0) ->
          (match m with
           | TrData pl -> tr_r_v1 unzl c st p0 size0 w0 pl
           | _ -> tr_r_fail st)
        | RpMd5 (p0, w0) ->
          (match m with
           | TrMd5 d -> tr_r_md5 h deq c dest st p0 w0 d
           | _ -> tr_r_fail st)
        | RpExit ->
          (match m with
           | TrExit _ -> ((tr_r_phase st RpDone), [])
           | _ -> tr_r_fail st)
        | _ -> tr_r_stay st)
     | TrExit _ ->
       (match ph with
        | RpNum ->
          (match m with
           | TrNum n ->
             let (st', outs) =
               tr_r_next c (N.to_nat n) st.rs_st st.rs_names st.rs_sched
             in
             (st', ((TrSuccInt n) :: outs))
           | _ -> tr_r_fail st)
        | RpName ->
          (match m with
           | TrName p0 -> tr_r_name c dest st p0
           | _ -> tr_r_fail st)
        | RpSize p0 ->
          (match m with
           | TrSize n -> tr_r_size c st p0 n
           | _ -> tr_r_fail st)
        | RpComp (p0, size0) ->
          (match m with
           | TrComp b ->
             ((tr_r_phase st (RpData (p0, size0, b, [],
                (tr_cur_sched st).sc_steps))), [])
           | _ -> tr_r_fail st)
        | RpData (p0, size0, cp, acc, steps) ->
          (match m with
           | TrData f -> tr_r_frame zdecomp c st p0 size0 cp acc steps f
           | TrKeepAlive -> tr_r_stay st
           | _ -> tr_r_fail st)
        | RpV1 (p0, size0, w0) ->
          (match m with
           | TrData pl -> tr_r_v1 unzl c st p0 size0 w0 pl
           | _ -> tr_r_fail st)
        | RpMd5 (p0, w0) ->
          (match m with
           | TrMd5 d -> tr_r_md5 h deq c dest st p0 w0 d
           | _ -> tr_r_fail st)
        | RpExit ->
          (match m with
           | TrExit _ -> ((tr_r_phase st RpDone), [])
           | _ -> tr_r_fail st)
        | _ -> tr_r_stay st)
     | TrSuccInt _ ->
       (match ph with
        | RpNum ->
          (match m with
           | TrNum n ->
             let (st', outs) =
               tr_r_next c (N.to_nat n) st.rs_st st.rs_names st.rs_sched
             in
             (st', ((TrSuccInt n) :: outs))
           | _ -> tr_r_fail st)
        | RpName ->
          (match m with
           | TrName p0 -> tr_r_name c dest st p0
           | _ -> tr_r_fail st)
        | RpSize p0 ->
          (match m with
           | TrSize n -> tr_r_size c st p0 n
           | _ -> tr_r_fail st)
        | RpComp (p0, size0) ->
          (match m with
           | TrComp b ->
             ((tr_r_phase st (RpData (p0, size0, b, [],
                (tr_cur_sched st).sc_steps))), [])
           | _ -> tr_r_fail st)
        | RpData (p0, size0, cp, acc, steps) ->
          (match m with
           | TrData f -> tr_r_frame zdecomp c st p0 size0 cp acc steps f
           | TrKeepAlive -> tr_r_stay st
           | _ -> tr_r_fail st)
        | RpV1 (p0, size0, w0) ->
          (match m with
           | TrData pl -> tr_r_v1 unzl c st p0 size0 w0 pl
           | _ -> tr_r_fail st)
        | RpMd5 (p0, w0) ->
          (match m with
           | TrMd5 d -> tr_r_md5 h deq c dest st p0 w0 d
           | _ -> tr_r_fail st)
        | RpExit ->
          (match m with
           | TrExit _ -> ((tr_r_phase st RpDone), [])
           | _ -> tr_r_fail st)
        | _ -> tr_r_stay st)
     | TrSuccName _ ->
       (match ph with
        | RpNum ->
          (match m with
           | TrNum n ->
             let (st', outs) =
               tr_r_next c (N.to_nat n) st.rs_st st.rs_names st.rs_sched
             in
             (st', ((TrSuccInt n) :: outs))
           | _ -> tr_r_fail st)
        | RpName ->
          (match m with
           | TrName p0 -> tr_r_name c dest st p0
           | _ -> tr_r_fail st)
        | RpSize p0 ->
          (match m with
           | TrSize n -> tr_r_size c st p0 n
           | _ -> tr_r_fail st)
        | RpComp (p0, size0) ->
          (match m with
           | TrComp b ->
             ((tr_r_phase st (RpData (p0, size0, b, [],
                (tr_cur_sched st).sc_steps))), [])
           | _ -> tr_r_fail st)
        | RpData (p0, size0, cp, acc, steps) ->
          (match m with
           | TrData f -> tr_r_frame zdecomp c st p0 size0 cp acc steps f
           | TrKeepAlive -> tr_r_stay st
           | _ -> tr_r_fail st)
        | RpV1 (p0, size0, w0) ->
          (match m with
           | TrData pl -> tr_r_v1 unzl c st p0 size0 w0 pl
           | _ -> tr_r_fail st)
        | RpMd5 (p0, w0) ->
          (match m with
           | TrMd5 d -> tr_r_md5 h deq c dest st p0 w0 d
           | _ -> tr_r_fail st)
        | RpExit ->
          (match m with
           | TrExit _ -> ((tr_r_phase st RpDone), [])
           | _ -> tr_r_fail st)
        | _ -> tr_r_stay st)
     | TrSuccTarget (_, _) ->
       (match ph with
        | RpNum ->
          (match m with
           | TrNum n ->
             let (st', outs) =
               tr_r_next c (N.to_nat n) st.rs_st st.rs_names st.rs_sched
             in
             (st', ((TrSuccInt n) :: outs))
           | _ -> tr_r_fail st)
        | RpName ->
          (match m with
           | TrName p0 -> tr_r_name c dest st p0
           | _ -> tr_r_fail st)
        | RpSize p0 ->
          (match m with
           | TrSize n -> tr_r_size c st p0 n
           | _ -> tr_r_fail st)
        | RpComp (p0, size0) ->
          (match m with
           | TrComp b ->
             ((tr_r_phase st (RpData (p0, size0, b, [],
                (tr_cur_sched st).sc_steps))), [])
           | _ -> tr_r_fail st)
        | RpData (p0, size0, cp, acc, steps) ->
          (match m with
           | TrData f -> tr_r_frame zdecomp c st p0 size0 cp acc steps f
           | TrKeepAlive -> tr_r_stay st
           | _ -> tr_r_fail st)
        | RpV1 (p0, size0, w0) ->
          (match m with
           | TrData pl -> tr_r_v1 unzl c st p0 size0 w0 pl
           | _ -> tr_r_fail st)
        | RpMd5 (p0, w0) ->
          (match m with
           | TrMd5 d -> tr_r_md5 h deq c dest st p0 w0 d
           | _ -> tr_r_fail st)
        | RpExit ->
          (match m with
           | TrExit _ -> ((tr_r_phase st RpDone), [])
           | _ -> tr_r_fail st)
        | _ -> tr_r_stay st)
     | TrSuccAck (_, _) ->
       (match ph with
        | RpNum ->
          (match m with
           | TrNum n ->
             let (st', outs) =
               tr_r_next c (N.to_nat n) st.rs_st st.rs_names st.rs_sched
             in
             (st', ((TrSuccInt n) :: outs))
           | _ -> tr_r_fail st)
        | RpName ->
          (match m with
           | TrName p0 -> tr_r_name c dest st p0
           | _ -> tr_r_fail st)
        | RpSize p0 ->
          (match m with
           | TrSize n -> tr_r_size c st p0 n
           | _ -> tr_r_fail st)
        | RpComp (p0, size0) ->
          (match m with
           | TrComp b ->
             ((tr_r_phase st (RpData (p0, size0, b, [],
                (tr_cur_sched st).sc_steps))), [])
           | _ -> tr_r_fail st)
        | RpData (p0, size0, cp, acc, steps) ->
          (match m with
           | TrData f -> tr_r_frame zdecomp c st p0 size0 cp acc steps f
           | TrKeepAlive -> tr_r_stay st
           | _ -> tr_r_fail st)
        | RpV1 (p0, size0, w0) ->
          (match m with
           | TrData pl -> tr_r_v1 unzl c st p0 size0 w0 pl
           | _ -> tr_r_fail st)
        | RpMd5 (p0, w0) ->
          (match m with
           | TrMd5 d -> tr_r_md5 h deq c dest st p0 w0 d
           | _ -> tr_r_fail st)
        | RpExit ->
          (match m with
           | TrExit _ -> ((tr_r_phase st RpDone), [])
           | _ -> tr_r_fail st)
        | _ -> tr_r_stay st)
     | TrSuccDigest _ ->
       (match ph with
        | RpNum ->
          (match m with
           | TrNum n ->
             let (st', outs) =
               tr_r_next c (N.to_nat n) st.rs_st st.rs_names st.rs_sched
             in
             (st', ((TrSuccInt n) :: outs))
           | _ -> tr_r_fail st)
        | RpName ->
          (match m with
           | TrName p0 -> tr_r_name c dest st p0
           | _ -> tr_r_fail st)
        | RpSize p0 ->
          (match m with
           | TrSize n -> tr_r_size c st p0 n
           | _ -> tr_r_fail st)
        | RpComp (p0, size0) ->
          (match m with
           | TrComp b ->
             ((tr_r_phase st (RpData (p0, size0, b, [],
                (tr_cur_sched st).sc_steps))), [])
           | _ -> tr_r_fail st)
        | RpData (p0, size0, cp, acc, steps) ->
          (match m with
           | TrData f -> tr_r_frame zdecomp c st p0 size0 cp acc steps f
           | TrKeepAlive -> tr_r_stay st
           | _ -> tr_r_fail st)
        | RpV1 (p0, size0, w0) ->
          (match m with
           | TrData pl -> tr_r_v1 unzl c st p0 size0 w0 pl
           | _ -> tr_r_fail st)
        | RpMd5 (p0, w0) ->
          (match m with
           | TrMd5 d -> tr_r_md5 h deq c dest st p0 w0 d
           | _ -> tr_r_fail st)
        | RpExit ->
          (match m with
           | TrExit _ -> ((tr_r_phase st RpDone), [])
           | _ -> tr_r_fail st)
        | _ -> tr_r_stay st)
     | TrKeepAlive ->
       (match ph with
        | RpNum ->
          (match m with
           | TrNum n ->
             let (st', outs) =
               tr_r_next c (N.to_nat n) st.rs_st st.rs_names st.rs_sched
             in
             (st', ((TrSuccInt n) :: outs))
           | _ -> tr_r_fail st)
        | RpName ->
          (match m with
           | TrName p0 -> tr_r_name c dest st p0
           | _ -> tr_r_fail st)
        | RpSize p0 ->
          (match m with
           | TrSize n -> tr_r_size c st p0 n
           | _ -> tr_r_fail st)
        | RpComp (p0, size0) ->
          (match m with
           | TrComp b ->
             ((tr_r_phase st (RpData (p0, size0, b, [],
                (tr_cur_sched st).sc_steps))), [])
           | _ -> tr_r_fail st)
        | RpData (p0, size0, cp, acc, steps) ->
          (match m with
           | TrData f -> tr_r_frame zdecomp c st p0 size0 cp acc steps f
           | TrKeepAlive -> tr_r_stay st
           | _ -> tr_r_fail st)
        | RpV1 (p0, size0, w0) ->
          (match m with
           | TrData pl -> tr_r_v1 unzl c st p0 size0 w0 pl
           | _ -> tr_r_fail st)
        | RpMd5 (p0, w0) ->
          (match m with
           | TrMd5 d -> tr_r_md5 h deq c dest st p0 w0 d
           | _ -> tr_r_fail st)
        | RpExit ->
          (match m with
           | TrExit _ -> ((tr_r_phase st RpDone), [])
           | _ -> tr_r_fail st)
        | _ -> tr_r_stay st)
     | TrFail -> ((tr_r_phase st RpFail), []))
  | RpMd5 (p, w) ->
    let ph = RpMd5 (p, w) in
    (match m with
     | TrNum _ ->
       (match ph with
        | RpNum ->
          (match m with
           | TrNum n ->
             let (st', outs) =
               tr_r_next c (N.to_nat n) st.rs_st st.rs_names st.rs_sched
             in
             (st', ((TrSuccInt n) :: outs))
           | _ -> tr_r_fail st)
        | RpName ->
          (match m with
           | TrName p0 -> tr_r_name c dest st p0
           | _ -> tr_r_fail st)
        | RpSize p0 ->
          (match m with
           | TrSize n -> tr_r_size c st p0 n
           | _ -> tr_r_fail st)
        | RpComp (p0, size) ->
          (match m with
           | TrComp b ->
             ((tr_r_phase st (RpData (p0, size, b, [],
                (tr_cur_sched st).sc_steps))), [])
           | _ -> tr_r_fail st)
        | RpData (p0, size, cp, acc, steps) ->
          (match m with
           | TrData f -> tr_r_frame zdecomp c st p0 size cp acc steps f
           | TrKeepAlive -> tr_r_stay st
           | _ -> tr_r_fail st)
        | RpV1 (p0, size, w0) ->
          (match m with
           | TrData pl -> tr_r_v1 unzl c st p0 size w0 pl
           | _ -> tr_r_fail st)
        | RpMd5 (p0, w0) ->
          (match m with
           | TrMd5 d -> tr_r_md5 h deq c dest st p0 w0 d
           | _ -> tr_r_fail st)
        | RpExit ->
          (match m with
           | TrExit _ -> ((tr_r_phase st RpDone), [])
           | _ -> tr_r_fail st)
        | _ -> tr_r_stay st)
     | TrName _ ->
       (match ph with
        | RpNum ->
          (match m with
           | TrNum n ->
             let (st', outs) =
               tr_r_next c (N.to_nat n) st.rs_st st.rs_names st.rs_sched
             in
             (st', ((TrSuccInt n) :: outs))
           | _ -> tr_r_fail st)
        | RpName ->
          (match m with
           | TrName p0 -> tr_r_name c dest st p0
           | _ -> tr_r_fail st)
        | RpSize p0 ->
          (match m with
           | TrSize n -> tr_r_size c st p0 n
           | _ -> tr_r_fail st)
        | RpComp (p0, size) ->
          (match m with
           | TrComp b ->
             ((tr_r_phase st (RpData (p0, size, b, [],
                (tr_cur_sched st).sc_steps))), [])
           | _ -> tr_r_fail st)
        | RpData (p0, size, cp, acc, steps) ->
          (match m with
           | TrData f -> tr_r_frame zdecomp c st p0 size cp acc steps f
           | TrKeepAlive -> tr_r_stay st
           | _ -> tr_r_fail st)
        | RpV1 (p0, size, w0) ->
          (match m with
           | TrData pl -> tr_r_v1 unzl c st p0 size w0 pl
           | _ -> tr_r_fail st)
        | RpMd5 (p0, w0) ->
          (match m with
           | TrMd5 d -> tr_r_md5 h deq c dest st p0 w0 d
           | _ -> tr_r_fail st)
        | RpExit ->
          (match m with
           | TrExit _ -> ((tr_r_phase st RpDone), [])
           | _ -> tr_r_fail st)
        | _ -> tr_r_stay st)
     | TrSize _ ->
       (match ph with
        | RpNum ->
          (match m with
           | TrNum n ->
             let (st', outs) =
               tr_r_next c (N.to_nat n) st.rs_st st.rs_names st.rs_sched
             in
             (st', ((TrSuccInt n) :: outs))
           | _ -> tr_r_fail st)
        | RpName ->
          (match m with
           | TrName p0 -> tr_r_name c dest st p0
           | _ -> tr_r_fail st)
        | RpSize p0 ->
          (match m with
           | TrSize n -> tr_r_size c st p0 n
           | _ -> tr_r_fail st)
        | RpComp (p0, size) ->
          (match m with
           | TrComp b ->
             ((tr_r_phase st (RpData (p0, size, b, [],
                (tr_cur_sched st).sc_steps))), [])
           | _ -> tr_r_fail st)
        | RpData (p0, size, cp, acc, steps) ->
          (match m with
           | TrData f -> tr_r_frame zdecomp c st p0 size cp acc steps f
           | TrKeepAlive -> tr_r_stay st
           | _ -> tr_r_fail st)
        | RpV1 (p0, size, w0) ->
          (match m with
           | TrData pl -> tr_r_v1 unzl c st p0 size w0 pl
           | _ -> tr_r_fail st)
        | RpMd5 (p0, w0) ->
          (match m with
           | TrMd5 d -> tr_r_md5 h deq c dest st p0 w0 d
           | _ -> tr_r_fail st)
        | RpExit ->
          (match m with
           | TrExit _ -> ((tr_r_phase st RpDone), [])
           | _ -> tr_r_fail st)
        | _ -> tr_r_stay st)
     | TrComp _ ->
       (match ph with
        | RpNum ->
          (match m with
           | TrNum n ->
             let (st', outs) =
               tr_r_next c (N.to_nat n) st.rs_st st.rs_names st.rs_sched
             in
             (st', ((TrSuccInt n) :: outs))
           | _ -> tr_r_fail st)
        | RpName ->
          (match m with
           | TrName p0 -> tr_r_name c dest st p0
           | _ -> tr_r_fail st)
        | RpSize p0 ->
          (match m with
           | TrSize n -> tr_r_size c st p0 n
           | _ -> tr_r_fail st)
        | RpComp (p0, size) ->
          (match m with
           | TrComp b ->
             ((tr_r_phase st (RpData (p0, size, b, [],
                (tr_cur_sched st).sc_steps))), [])
           | _ -> tr_r_fail st)
        | RpData (p0, size, cp, acc, steps) ->
          (match m with
           | TrData f -> tr_r_frame zdecomp c st p0 size cp acc steps f
           | TrKeepAlive -> tr_r_stay st
           | _ -> tr_r_fail st)
        | RpV1 (p0, size, w0) ->
          (match m with
           | TrData pl -> tr_r_v1 unzl c st p0 size w0 pl
           | _ -> tr_r_fail st)
        | RpMd5 (p0, w0) ->
          (match m with
           | TrMd5 d -> tr_r_md5 h deq c dest st p0 w0 d
           | _ -> tr_r_fail st)
        | RpExit ->
          (match m with
           | TrExit _ -> ((tr_r_phase st RpDone), [])
           | _ -> tr_r_fail st)
        | _ -> tr_r_stay st)
     | TrData _ ->
       (match ph with
        | RpNum ->
          (match m with
           | TrNum n ->
             let (st', outs) =
               tr_r_next c (N.to_nat n) st.rs_st st.rs_names st.rs_sched
             in
             (st', ((TrSuccInt n) :: outs))
           | _ -> tr_r_fail st)
        | RpName ->
          (match m with
           | TrName p0 -> tr_r_name c dest st p0
           | _ -> tr_r_fail st)
        | RpSize p0 ->
          (match m with
           | TrSize n -> tr_r_size c st p0 n
           | _ -> tr_r_fail st)
        | RpComp (p0, size) ->
          (match m with
           | TrComp b ->
             ((tr_r_phase st (RpData (p0, size, b, [],
                (tr_cur_sched st).sc_steps))), [])
           | _ -> tr_r_fail st)
        | RpData (p0, size, cp, acc, steps) ->
          (match m with
           | TrData f -> tr_r_frame zdecomp c st p0 size cp acc steps f
           | TrKeepAlive -> tr_r_stay st
           | _ -> tr_r_fail st)
        | RpV1 (p0, size, w0) ->
          (match m with
           | TrData pl -> tr_r_v1 unzl c st p0 size w0 pl
           | _ -> tr_r_fail st)
        | RpMd5 (p0, w0) ->
          (match m with
           | TrMd5 d -> tr_r_md5 h deq c dest st p0 w0 d
           | _ -> tr_r_fail st)
        | RpExit ->
          (match m with
           | TrExit _ -> ((tr_r_phase st RpDone), [])
           | _ -> tr_r_fail st)
        | _ -> tr_r_stay st)
     | TrMd5 _ ->
       (match ph with
        | RpNum ->
          (match m with
           | TrNum n ->
             let (st', outs) =
               tr_r_next c (N.to_nat n) st.rs_st st.rs_names st.rs_sched
             in
             (st', ((TrSuccInt n) :: outs))
           | _ -> tr_r_fail st)
        | RpName ->
          (match m with
           | TrName p0 -> tr_r_name c dest st p0
           | _ -> tr_r_fail st)
        | RpSize p0 ->
          (match m with
           | TrSize n -> tr_r_size c st p0 n
           | _ -> tr_r_fail st)
        | RpComp (p0, size) ->
          (match m with
           | TrComp b ->
             ((tr_r_phase st (RpData (p0, size, b, [],
                (tr_cur_sched st).sc_steps))), [])
           | _ -> tr_r_fail st)
        | RpData (p0, size, cp, acc, steps) ->
          (match m with
           | TrData f -> tr_r_frame zdecomp c st p0 size cp acc steps f
           | TrKeepAlive -> tr_r_stay st
           | _ -> tr_r_fail st)
        | RpV1 (p0, size, w0) ->
          (match m with
           | TrData pl -> tr_r_v1 unzl c st p0 size w0 pl
           | _ -> tr_r_fail st)
        | RpMd5 (p0, w0) ->
          (match m with
           | TrMd5 d -> tr_r_md5 h deq c dest st p0 w0 d
           | _ -> tr_r_fail st)
        | RpExit ->
          (match m with
           | TrExit _ -> ((tr_r_phase st RpDone), [])
           | _ -> tr_r_fail st)
        | _ -> tr_r_stay st)
     | TrExit _ ->
       (match ph with
        | RpNum ->
          (match m with
           | TrNum n ->
             let (st', outs) =
               tr_r_next c (N.to_nat n) st.rs_st st.rs_names st.rs_sched
             in
             (st', ((TrSuccInt n) :: outs))
           | _ -> tr_r_fail st)
        | RpName ->
          (match m with
           | TrName p0 -> tr_r_name c dest st p0
           | _ -> tr_r_fail st)
        | RpSize p0 ->
          (match m with
           | TrSize n -> tr_r_size c st p0 n
           | _ -> tr_r_fail st)
        | RpComp (p0, size) ->
          (match m with
           | TrComp b ->
             ((tr_r_phase st (RpData (p0, size, b, [],
                (tr_cur_sched st).sc_steps))), [])
           | _ -> tr_r_fail st)
        | RpData (p0, size, cp, acc, steps) ->
          (match m with
           | TrData f -> tr_r_frame zdecomp c st p0 size cp acc steps f
           | TrKeepAlive -> tr_r_stay st
           | _ -> tr_r_fail st)
        | RpV1 (p0, size, w0) ->
          (match m with
           | TrData pl -> tr_r_v1 unzl c st p0 size w0 pl
           | _ -> tr_r_fail st)
        | RpMd5 (p0, w0) ->
          (match m with
           | TrMd5 d -> tr_r_md5 h deq c dest st p0 w0 d
           | _ -> tr_r_fail st)
        | RpExit ->
          (match m with
           | TrExit _ -> ((tr_r_phase st RpDone), [])
           | _ -> tr_r_fail st)
        | _ -> tr_r_stay st)
     | TrSuccInt _ ->
       (match ph with
        | RpNum ->
          (match m with
           | TrNum n ->
             let (st', outs) =
               tr_r_next c (N.to_nat n) st.rs_st st.rs_names st.rs_sched
             in
             (st', ((TrSuccInt n) :: outs))
           | _ -> tr_r_fail st)
        | RpName ->
          (match m with
           | TrName p0 -> tr_r_name c dest st p0
           | _ -> tr_r_fail st)
        | RpSize p0 ->
          (match m with
           | TrSize n -> tr_r_size c st p0 n
           | _ -> tr_r_fail st)
        | RpComp (p0, size) ->
          (match m with
           | TrComp b ->
             ((tr_r_phase st (RpData (p0, size, b, [],
                (tr_cur_sched st).sc_steps))), [])
           | _ -> tr_r_fail st)
        | RpData (p0, size, cp, acc, steps) ->
          (match m with
           | TrData f -> tr_r_frame zdecomp c st p0 size cp acc steps f
           | TrKeepAlive -> tr_r_stay st
           | _ -> tr_r_fail st)
        | RpV1 (p0, size, w0) ->
          (match m with
           | TrData pl -> tr_r_v1 unzl c st p0 size w0 pl
           | _ -> tr_r_fail st)
        | RpMd5 (p0, w0) ->
          (match m with
           | TrMd5 d -> tr_r_md5 h deq c dest st p0 w0 d
           | _ -> tr_r_fail st)
        | RpExit ->
          (match m with
           | TrExit _ -> ((tr_r_phase st RpDone), [])
           | _ -> tr_r_fail st)
        | _ -> tr_r_stay st)
     | TrSuccName _ ->
       (match ph with
        | RpNum ->
          (match m with
           | TrNum n ->
             let (st', outs) =
               tr_r_next c (N.to_nat n) st.rs_st st.rs_names st.rs_sched
             in
             (st', ((TrSuccInt n) :: outs))
           | _ -> tr_r_fail st)
        | RpName ->
          (match m with
           | TrName p0 -> tr_r_name c dest st p0
           | _ -> tr_r_fail st)
        | RpSize p0 ->
          (match m with
           | TrSize n -> tr_r_size c st p0 n
           | _ -> tr_r_fail st)
        | RpComp (p0, size) ->
          (match m with
           | TrComp b ->
             ((tr_r_phase st (RpData (p0, size, b, [],
                (tr_cur_sched st).sc_steps))), [])
           | _ -> tr_r_fail st)
        | RpData (p0, size, cp, acc, steps) ->
          (match m with
           | TrData f -> tr_r_frame zdecomp c st p0 size cp acc steps f
           | TrKeepAlive -> tr_r_stay st
           | _ -> tr_r_fail st)
        | RpV1 (p0, size, w0) ->
          (match m with
           | TrData pl -> tr_r_v1 unzl c st p0 size w0 pl
           | _ -> tr_r_fail st)
        | RpMd5 (p0, w0) ->
          (match m with
           | TrMd5 d -> tr_r_md5 h deq c dest st p0 w0 d
           | _ -> tr_r_fail st)
        | RpExit ->
          (match m with
           | TrExit _ -> ((tr_r_phase st RpDone), [])
           | _ -> tr_r_fail st)
        | _ -> tr_r_stay st)
     | TrSuccTarget (_, _) ->
       (match ph with
        | RpNum ->
          (match m with
           | TrNum n ->
             let (st', outs) =
               tr_r_next c (N.to_nat n) st.rs_st st.rs_names st.rs_sched
             in
             (st', ((TrSuccInt n) :: outs))
           | _ -> tr_r_fail st)
        | RpName ->
          (match m with
           | TrName p0 -> tr_r_name c dest st p0
           | _ -> tr_r_fail st)
        | RpSize p0 ->
          (match m with
           | TrSize n -> tr_r_size c st p0 n
           | _ -> tr_r_fail st)
        | RpComp (p0, size) ->
          (match m with
           | TrComp b ->
             ((tr_r_phase st (RpData (p0, size, b, [],
                (tr_cur_sched st).sc_steps))), [])
           | _ -> tr_r_fail st)
        | RpData (p0, size, cp, acc, steps) ->
          (match m with
           | TrData f -> tr_r_frame zdecomp c st p0 size cp acc steps f
           | TrKeepAlive -> tr_r_stay st
           | _ -> tr_r_fail st)
        | RpV1 (p0, size, w0) ->
          (match m with
           | TrData pl -> tr_r_v1 unzl c st p0 size w0 pl
           | _ -> tr_r_fail st)
        | RpMd5 (p0, w0) ->
          (match m with
           | TrMd5 d -> tr_r_md5 h deq c dest st p0 w0 d
           | _ -> tr_r_fail st)
        | RpExit ->
          (match m with
           | TrExit _ -> ((tr_r_phase st RpDone), [])
           | _ -> tr_r_fail st)
        | _ -> tr_r_stay st)
     | TrSuccAck (_, _) ->
       (match ph with
        | RpNum ->
          (match m with
           | TrNum n ->
             let (st', outs) =
               tr_r_next c (N.to_nat n) st.rs_st st.rs_names st.rs_sched
             in
             (st', ((TrSuccInt n) :: outs))
           | _ -> tr_r_fail st)
        | RpName ->
          (match m with
           | TrName p0 -> tr_r_name c dest st p0
           | _ -> tr_r_fail st)
        | RpSize p0 ->
          (match m with
           | TrSize n -> tr_r_size c st p0 n
           | _ -> tr_r_fail st)
        | RpComp (p0, size) ->
          (match m with
           | TrComp b ->
             ((tr_r_phase st (RpData (p0, size, b, [],
                (tr_cur_sched st).sc_steps))), [])
           | _ -> tr_r_fail st)
        | RpData (p0, size, cp, acc, steps) ->
          (match m with
           | TrData f -> tr_r_frame zdecomp c st p0 size cp acc steps f
           | TrKeepAlive -> tr_r_stay st
           | _ -> tr_r_fail st)
        | RpV1 (p0, size, w0) ->
          (match m with
           | TrData pl -> tr_r_v1 unzl c st p0 size w0 pl
           | _ -> tr_r_fail st)
        | RpMd5 (p0, w0) ->
          (match m with
           | TrMd5 d -> tr_r_md5 h deq c dest st p0 w0 d
           | _ -> tr_r_fail st)
        | RpExit ->
          (match m with
           | TrExit _ -> ((tr_r_phase st RpDone), [])
           | _ -> tr_r_fail st)
        | _ -> tr_r_stay st)
     | TrSuccDigest _ ->
       (match ph with
        | RpNum ->
          (match m with
           | TrNum n ->
             let (st', outs) =
               tr_r_next c (N.to_nat n) st.rs_st st.rs_names st.rs_sched
             in
             (st', ((TrSuccInt n) :: outs))
           | _ -> tr_r_fail st)
        | RpName ->
          (match m with
           | TrName p0 -> tr_r_name c dest st p0
           | _ -> tr_r_fail st)
        | RpSize p0 ->
          (match m with
           | TrSize n -> tr_r_size c st p0 n
           | _ -> tr_r_fail st)
        | RpComp (p0, size) ->
          (match m with
           | TrComp b ->
             ((tr_r_phase st (RpData (p0, size, b, [],
                (tr_cur_sched st).sc_steps))), [])
           | _ -> tr_r_fail st)
        | RpData (p0, size, cp, acc, steps) ->
          (match m with
           | TrData f -> tr_r_frame zdecomp c st p0 size cp acc steps f
           | TrKeepAlive -> tr_r_stay st
           | _ -> tr_r_fail st)
        | RpV1 (p0, size, w0) ->
          (match m with
           | TrData pl -> tr_r_v1 unzl c st p0 size w0 pl
           | _ -> tr_r_fail st)
        | RpMd5 (p0, w0) ->
          (match m with
           | TrMd5 d -> tr_r_md5 h deq c dest st p0 w0 d
           | _ -> tr_r_fail st)
        | RpExit ->
          (match m with
           | TrExit _ -> ((tr_r_phase st RpDone), [])
           | _ -> tr_r_fail st)
        | _ -> tr_r_stay st)
     | TrKeepAlive ->
       (match ph with
        | RpNum ->
          (match m with
           | TrNum n ->
             let (st', outs) =
               tr_r_next c (N.to_nat n) st.rs_st st.rs_names st.rs_sched
             in
             (st', ((TrSuccInt n) :: outs))
           | _ -> tr_r_fail st)
        | RpName ->
          (match m with
           | TrName p0 -> tr_r_name c dest st p0
           | _ -> tr_r_fail st)
        | RpSize p0 ->
          (match m with
           | TrSize n -> tr_r_size c st p0 n
           | _ -> tr_r_fail st)
        | RpComp (p0, size) ->
          (match m with
           | TrComp b ->
             ((tr_r_phase st (RpData (p0, size, b, [],
                (tr_cur_sched st).sc_steps))), [])
           | _ -> tr_r_fail st)
        | RpData (p0, size, cp, acc, steps) ->
          (match m with
           | TrData f -> tr_r_frame zdecomp c st p0 size cp acc steps f
           | TrKeepAlive -> tr_r_stay st
           | _ -> tr_r_fail st)
        | RpV1 (p0, size, w0) ->
          (match m with
           | TrData pl -> tr_r_v1 unzl c st p0 size w0 pl
           | _ -> tr_r_fail st)
        | RpMd5 (p0, w0) ->
          (match m with
           | TrMd5 d -> tr_r_md5 h deq c dest st p0 w0 d
           | _ -> tr_r_fail st)
        | RpExit ->
          (match m with
           | TrExit _ -> ((tr_r_phase st RpDone), [])
           | _ -> tr_r_fail st)
        | _ -> tr_r_stay st)
     | TrFail -> ((tr_r_phase st RpFail), []))
  | RpExit ->
    let ph = RpExit in
    (match m with
     | TrNum _ ->
       (match ph with
        | RpNum ->
          (match m with
           | TrNum n ->
             let (st', outs) =
               tr_r_next c (N.to_nat n) st.rs_st st.rs_names st.rs_sched
             in
             (st', ((TrSuccInt n) :: outs))
           | _ -> tr_r_fail st)
        | RpName ->
          (match m with
           | TrName p -> tr_r_name c dest st p
           | _ -> tr_r_fail st)
        | RpSize p ->
          (match m with
           | TrSize n -> tr_r_size c st p n
           | _ -> tr_r_fail st)
        | RpComp (p, size) ->
          (match m with
           | TrComp b ->
             ((tr_r_phase st (RpData (p, size, b, [],
                (tr_cur_sched st).sc_steps))), [])
           | _ -> tr_r_fail st)
        | RpData (p, size, cp, acc, steps) ->
          (match m with
           | TrData f -> tr_r_frame zdecomp c st p size cp acc steps f
           | TrKeepAlive -> tr_r_stay st
           | _ -> tr_r_fail st)
        | RpV1 (p, size, w) ->
          (match m with
           | TrData pl -> tr_r_v1 unzl c st p size w pl
           | _ -> tr_r_fail st)
        | RpMd5 (p, w) ->
          (match m with
           | TrMd5 d -> tr_r_md5 h deq c dest st p w d
           | _ -> tr_r_fail st)
        | RpExit ->
          (match m with
           | TrExit _ -> ((tr_r_phase st RpDone), [])
           | _ -> tr_r_fail st)
        | _ -> tr_r_stay st)
     | TrName _ ->
       (match ph with
        | RpNum ->
          (match m with
           | TrNum n ->
             let (st', outs) =
               tr_r_next c (N.to_nat n) st.rs_st st.rs_names st.rs_sched
             in
             (st', ((TrSuccInt n) :: outs))
           | _ -> tr_r_fail st)
        | RpName ->
          (match m with
           | TrName p -> tr_r_name c dest st p
           | _ -> tr_r_fail st)
        | RpSize p ->
          (match m with
           | TrSize n -> tr_r_size c st p n
           | _ -> tr_r_fail st)
        | RpComp (p, size) ->
          (match m with
           | TrComp b ->
             ((tr_r_phase st (RpData (p, size, b, [],
                (tr_cur_sched st).sc_steps))), [])
           | _ -> tr_r_fail st)
        | RpData (p, size, cp, acc, steps) ->
          (match m with
           | TrData f -> tr_r_frame zdecomp c st p size cp acc steps f
           | TrKeepAlive -> tr_r_stay st
           | _ -> tr_r_fail st)
        | RpV1 (p, size, w) ->
          (match m with
           | TrData pl -> tr_r_v1 unzl c st p size w pl
           | _ -> tr_r_fail st)
        | RpMd5 (p, w) ->
          (match m with
           | TrMd5 d -> tr_r_md5 h deq c dest st p w d
           | _ -> tr_r_fail st)
        | RpExit ->
          (match m with
           | TrExit _ -> ((tr_r_phase st RpDone), [])
           | _ -> tr_r_fail st)
        | _ -> tr_r_stay st)
     | TrSize _ ->
       (match ph with
        | RpNum ->
          (match m with
           | TrNum n ->
             let (st', outs) =
               tr_r_next c (N.to_nat n) st.rs_st st.rs_names st.rs_sched
             in
             (st', ((TrSuccInt n) :: outs))
           | _ -> tr_r_fail st)
        | RpName ->
          (match m with
           | TrName p -> tr_r_name c dest st p
           | _ -> tr_r_fail st)
        | RpSize p ->
          (match m with
           | TrSize n -> tr_r_size c st p n
           | _ -> tr_r_fail st)
        | RpComp (p, size) ->
          (match m with
           | TrComp b ->
             ((tr_r_phase st (RpData (p, size, b, [],
                (tr_cur_sched st).sc_steps))), [])
           | _ -> tr_r_fail st)
        | RpData (p, size, cp, acc, steps) ->
          (match m with
           | TrData f -> tr_r_frame zdecomp c st p size cp acc steps f
           | TrKeepAlive -> tr_r_stay st
           | _ -> tr_r_fail st)
        | RpV1 (p, size, w) ->
          (match m with
           | TrData pl -> tr_r_v1 unzl c st p size w pl
           | _ -> tr_r_fail st)
        | RpMd5 (p, w) ->
          (match m with
           | TrMd5 d -> tr_r_md5 h deq c dest st p w d
           | _ -> tr_r_fail st)
        | RpExit ->
          (match m with
           | TrExit _ -> ((tr_r_phase st RpDone), [])
           | _ -> tr_r_fail st)
        | _ -> tr_r_stay st)
     | TrComp _ ->
       (match ph with
        | RpNum ->
          (match m with
           | TrNum n ->
             let (st', outs) =
               tr_r_next c (N.to_nat n) st.rs_st st.rs_names st.rs_sched
             in
             (st', ((TrSuccInt n) :: outs))
           | _ -> tr_r_fail st)
        | RpName ->
          (match m with
           | TrName p -> tr_r_name c dest st p
           | _ -> tr_r_fail st)
        | RpSize p ->
          (match m with
           | TrSize n -> tr_r_size c st p n
           | _ -> tr_r_fail st)
        | RpComp (p, size) ->
          (match m with
           | TrComp b ->
             ((tr_r_phase st (RpData (p, size, b, [],
                (tr_cur_sched st).sc_steps))), [])
           | _ -> tr_r_fail st)
        | RpData (p, size, cp, acc, steps) ->
          (match m with
           | TrData f -> tr_r_frame zdecomp c st p size cp acc steps f
           | TrKeepAlive -> tr_r_stay st
           | _ -> tr_r_fail st)
        | RpV1 (p, size, w) ->
          (match m with
           | TrData pl -> tr_r_v1 unzl c st p size w pl
           | _ -> tr_r_fail st)
        | RpMd5 (p, w) ->
          (match m with
           | TrMd5 d -> tr_r_md5 h deq c dest st p w d
           | _ -> tr_r_fail st)
        | RpExit ->
          (match m with
           | TrExit _ -> ((tr_r_phase st RpDone), [])
           | _ -> tr_r_fail st)
        | _ -> tr_r_stay st)
     | TrData _ ->
       (match ph with
        | RpNum ->
          (match m with
           | TrNum n ->
             let (st', outs) =
               tr_r_next c (N.to_nat n) st.rs_st st.rs_names st.rs_sched
             in
             (st', ((TrSuccInt n) :: outs))
           | _ -> tr_r_fail st)
        | RpName ->
          (match m with
           | TrName p -> tr_r_name c dest st p
           | _ -> tr_r_fail st)
        | RpSize p ->
          (match m with
           | TrSize n -> tr_r_size c st p n
           | _ -> tr_r_fail st)
        | RpComp (p, size) ->
          (match m with
           | TrComp b ->
             ((tr_r_phase st (RpData (p, size, b, [],
                (tr_cur_sched st).sc_steps))), [])
           | _ -> tr_r_fail st)
        | RpData (p, size, cp, acc, steps) ->
          (match m with
           | TrData f -> tr_r_frame zdecomp c st p size cp acc steps f
           | TrKeepAlive -> tr_r_stay st
           | _ -> tr_r_fail st)
        | RpV1 (p, size, w) ->
          (match m with
           | TrData pl -> tr_r_v1 unzl c st p size w pl
           | _ -> tr_r_fail st)
        | RpMd5 (p, w) ->
          (match m with
           | TrMd5 d -> tr_r_md5 h deq c dest st p w d
           | _ -> tr_r_fail st)
        | RpExit ->
          (match m with
           | TrExit _ -> ((tr_r_phase st RpDone), [])
           | _ -> tr_r_fail st)
        | _ -> tr_r_stay st)
     | TrMd5 _ ->
       (match ph with
        | RpNum ->
          (match m with
           | TrNum n ->
             let (st', outs) =
               tr_r_next c (N.to_nat n) st.rs_st st.rs_names st.rs_sched
             in
             (st', ((TrSuccInt n) :: outs))
           | _ -> tr_r_fail st)
        | RpName ->
          (match m with
           | TrName p -> tr_r_name c dest st p
           | _ -> tr_r_fail st)
        | RpSize p ->
          (match m with
           | TrSize n -> tr_r_size c st p n
           | _ -> tr_r_fail st)
        | RpComp (p, size) ->
          (match m with
           | TrComp b ->
             ((tr_r_phase st (RpData (p, size, b, [],
                (tr_cur_sched st).sc_steps))), [])
           | _ -> tr_r_fail st)
        | RpData (p, size, cp, acc, steps) ->
          (match m with
           | TrData f -> tr_r_frame zdecomp c st p size cp acc steps f
           | TrKeepAlive -> tr_r_stay st
           | _ -> tr_r_fail st)
        | RpV1 (p, size, w) ->
          (match m with
           | TrData pl -> tr_r_v1 unzl c st p size w pl
           | _ -> tr_r_fail st)
        | RpMd5 (p, w) ->
          (match m with
           | TrMd5 d -> tr_r_md5 h deq c dest st p w d
           | _ -> tr_r_fail st)
        | RpExit ->
          (match m with
           | TrExit _ -> ((tr_r_phase st RpDone), [])
           | _ -> tr_r_fail st)
        | _ -> tr_r_stay st)
     | TrExit _ ->
       (match ph with
        | RpNum ->
          (match m with
           | TrNum n ->
             let (st', outs) =
               tr_r_next c (N.to_nat n) st.rs_st st.rs_names st.rs_sched
             in
             (st', ((TrSuccInt n) :: outs))
           | _ -> tr_r_fail st)
        | RpName ->
          (match m with
           | TrName p -> tr_r_name c dest st p
           | _ -> tr_r_fail st)
        | RpSize p ->
          (match m with
           | TrSize n -> tr_r_size c st p n
           | _ -> tr_r_fail st)
        | RpComp (p, size) ->
          (match m with
           | TrComp b ->
             ((tr_r_phase st (RpData (p, size, b, [],
                (tr_cur_sched st).sc_steps))), [])
           | _ -> tr_r_fail st)
        | RpData (p, size, cp, acc, steps) ->
          (match m with
           | TrData f -> tr_r_frame zdecomp c st p size cp acc steps f
           | TrKeepAlive -> tr_r_stay st
           | _ -> tr_r_fail st)
        | RpV1 (p, size, w) ->
          (match m with
           | TrData pl -> tr_r_v1 unzl c st p size w pl
           | _ -> tr_r_fail st)
        | RpMd5 (p, w) ->
          (match m with
           | TrMd5 d -> tr_r_md5 h deq c dest st p w d
           | _ -> tr_r_fail st)
        | RpExit ->
          (match m with
           | TrExit _ -> ((tr_r_phase st RpDone), [])
           | _ -> tr_r_fail st)
        | _ -> tr_r_stay st)
     | TrSuccInt _ ->
       (match ph with
        | RpNum ->
          (match m with
           | TrNum n ->
             let (st', outs) =
               tr_r_next c (N.to_nat n) st.rs_st st.rs_names st.rs_sched
             in
             (st', ((TrSuccInt n) :: outs))
           | _ -> tr_r_fail st)
        | RpName ->
          (match m with
           | TrName p -> tr_r_name c dest st p
           | _ -> tr_r_fail st)
        | RpSize p ->
          (match m with
           | TrSize n -> tr_r_size c st p n
           | _ -> tr_r_fail st)
        | RpComp (p, size) ->
          (match m with
           | TrComp b ->
             ((tr_r_phase st (RpData (p, size, b, [],
                (tr_cur_sched st).sc_steps))), [])
           | _ -> tr_r_fail st)
        | RpData (p, size, cp, acc, steps) ->
          (match m with
           | TrData f -> tr_r_frame zdecomp c st p size cp acc steps f
           | TrKeepAlive -> tr_r_stay st
           | _ -> tr_r_fail st)
        | RpV1 (p, size, w) ->
          (match m with
           | TrData pl -> tr_r_v1 unzl c st p size w pl
           | _ -> tr_r_fail st)
        | RpMd5 (p, w) ->
          (match m with
           | TrMd5 d -> tr_r_md5 h deq c dest st p w d
           | _ -> tr_r_fail st)
        | RpExit ->
          (match m with
           | TrExit _ -> ((tr_r_phase st RpDone), [])
           | _ -> tr_r_fail st)
        | _ -> tr_r_stay st)
     | TrSuccName _ ->
       (match ph with
        | RpNum ->
          (match m with
           | TrNum n ->
             let (st', outs) =
               tr_r_next c (N.to_nat n) st.rs_st st.rs_names st.rs_sched
             in
             (st', ((TrSuccInt n) :: outs))
           | _ -> tr_r_fail st)
        | RpName ->
          (match m with
           | TrName p -> tr_r_name c dest st p
           | _ -> tr_r_fail st)
        | RpSize p ->
          (match m with
           | TrSize n -> tr_r_size c st p n
           | _ -> tr_r_fail st)
        | RpComp (p, size) ->
          (match m with
           | TrComp b ->
             ((tr_r_phase st (RpData (p, size, b, [],
                (tr_cur_sched st).sc_steps))), [])
           | _ -> tr_r_fail st)
        | RpData (p, size, cp, acc, steps) ->
          (match m with
           | TrData f -> tr_r_frame zdecomp c st p size cp acc steps f
           | TrKeepAlive -> tr_r_stay st
           | _ -> tr_r_fail st)
        | RpV1 (p, size, w) ->
          (match m with
           | TrData pl -> tr_r_v1 unzl c st p size w pl
           | _ -> tr_r_fail st)
        | RpMd5 (p, w) ->
          (match m with
           | TrMd5 d -> tr_r_md5 h deq c dest st p w d
           | _ -> tr_r_fail st)
        | RpExit ->
          (match m with
           | TrExit _ -> ((tr_r_phase st RpDone), [])
           | _ -> tr_r_fail st)
        | _ -> tr_r_stay st)
     | TrSuccTarget (_, _) ->
       (match ph with
        | RpNum ->
          (match m with
           | TrNum n ->
             let (st', outs) =
               tr_r_next c (N.to_nat n) st.rs_st st.rs_names st.rs_sched
             in
             (st', ((TrSuccInt n) :: outs))
           | _ -> tr_r_fail st)
        | RpName ->
          (match m with
           | TrName p -> tr_r_name c dest st p
           | _ -> tr_r_fail st)
        | RpSize p ->
          (match m with
           | TrSize n -> tr_r_size c st p n
           | _ -> tr_r_fail st)
        | RpComp (p, size) ->
          (match m with
           | TrComp b ->
             ((tr_r_phase st (RpData (p, size, b, [],
                (tr_cur_sched st).sc_steps))), [])
           | _ -> tr_r_fail st)
        | RpData (p, size, cp, acc, steps) ->
          (match m with
           | TrData f -> tr_r_frame zdecomp c st p size cp acc steps f
           | TrKeepAlive -> tr_r_stay st
           | _ -> tr_r_fail st)
        | RpV1 (p, size, w) ->
          (match m with
           | TrData pl -> tr_r_v1 unzl c st p size w pl
           | _ -> tr_r_fail st)
        | RpMd5 (p, w) ->
          (match m with
           | TrMd5 d -> tr_r_md5 h deq c dest st p w d
           | _ -> tr_r_fail st)
        | RpExit ->
          (match m with
           | TrExit _ -> ((tr_r_phase st RpDone), [])
           | _ -> tr_r_fail st)
        | _ -> tr_r_stay st)
     | TrSuccAck (_, _) ->
       (match ph with
        | RpNum ->
          (match m with
           | TrNum n ->
             let (st', outs) =
               tr_r_next c (N.to_nat n) st.rs_st st.rs_names st.rs_sched
             in
             (st', ((TrSuccInt n) :: outs))
           | _ -> tr_r_fail st)
        | RpName ->
          (match m with
           | TrName p -> tr_r_name c dest st p
           | _ -> tr_r_fail st)
        | RpSize p ->
          (match m with
           | TrSize n -> tr_r_size c st p n
           | _ -> tr_r_fail st)
        | RpComp (p, size) ->
          (match m with
           | TrComp b ->
             ((tr_r_phase st (RpData (p, size, b, [],
                (tr_cur_sched st).sc_steps))), [])
           | _ -> tr_r_fail st)
        | RpData (p, size, cp, acc, steps) ->
          (match m with
           | TrData f -> tr_r_frame zdecomp c st p size cp acc steps f
           | TrKeepAlive -> tr_r_stay st
           | _ -> tr_r_fail st)
        | RpV1 (p, size, w) ->
          (match m with
           | TrData pl -> tr_r_v1 unzl c st p size w pl
           | _ -> tr_r_fail st)
        | RpMd5 (p, w) ->
          (match m with
           | TrMd5 d -> tr_r_md5 h deq c dest st p w d
           | _ -> tr_r_fail st)
        | RpExit ->
          (match m with
           | TrExit _ -> ((tr_r_phase st RpDone), [])
           | _ -> tr_r_fail st)
        | _ -> tr_r_stay st)
     | TrSuccDigest _ ->
       (match ph with
        | RpNum ->
          (match m with
           | TrNum n ->
             let (st', outs) =
               tr_r_next c (N.to_nat n) st.rs_st st.rs_names st.rs_sched
             in
             (st', ((TrSuccInt n) :: outs))
           | _ -> tr_r_fail st)
        | RpName ->
          (match m with
           | TrName p -> tr_r_name c dest st p
           | _ -> tr_r_fail st)
        | RpSize p ->
          (match m with
           | TrSize n -> tr_r_size c st p n
           | _ -> tr_r_fail st)
        | RpComp (p, size) ->
          (match m with
           | TrComp b ->
             ((tr_r_phase st (RpData (p, size, b, [],
                (tr_cur_sched st).sc_steps))), [])
           | _ -> tr_r_fail st)
        | RpData (p, size, cp, acc, steps) ->
          (match m with
           | TrData f -> tr_r_frame zdecomp c st p size cp acc steps f
           | TrKeepAlive -> tr_r_stay st
           | _ -> tr_r_fail st)
        | RpV1 (p, size, w) ->
          (match m with
           | TrData pl -> tr_r_v1 unzl c st p size w pl
           | _ -> tr_r_fail st)
        | RpMd5 (p, w) ->
          (match m with
           | TrMd5 d -> tr_r_md5 h deq c dest st p w d
           | _ -> tr_r_fail st)
        | RpExit ->
          (match m with
           | TrExit _ -> ((tr_r_phase st RpDone), [])
           | _ -> tr_r_fail st)
        | _ -> tr_r_stay st)
     | TrKeepAlive ->
       (match ph with
        | RpNum ->
          (match m with
           | TrNum n ->
             let (st', outs) =
               tr_r_next c (N.to_nat n) st.rs_st st.rs_names st.rs_sched
             in
             (st', ((TrSuccInt n) :: outs))
           | _ -> tr_r_fail st)
        | RpName ->
          (match m with
           | TrName p -> tr_r_name c dest st p
           | _ -> tr_r_fail st)
        | RpSize p ->
          (match m with
           | TrSize n -> tr_r_size c st p n
           | _ -> tr_r_fail st)
        | RpComp (p, size) ->
          (match m with
           | TrComp b ->
             ((tr_r_phase st (RpData (p, size, b, [],
                (tr_cur_sched st).sc_steps))), [])
           | _ -> tr_r_fail st)
        | RpData (p, size, cp, acc, steps) ->
          (match m with
           | TrData f -> tr_r_frame zdecomp c st p size cp acc steps f
           | TrKeepAlive -> tr_r_stay st
           | _ -> tr_r_fail st)
        | RpV1 (p, size, w) ->
          (match m with
           | TrData pl -> tr_r_v1 unzl c st p size w pl
           | _ -> tr_r_fail st)
        | RpMd5 (p, w) ->
          (match m with
           | TrMd5 d -> tr_r_md5 h deq c dest st p w d
           | _ -> tr_r_fail st)
        | RpExit ->
          (match m with
           | TrExit _ -> ((tr_r_phase st RpDone), [])
           | _ -> tr_r_fail st)
        | _ -> tr_r_stay st)
     | TrFail -> ((tr_r_phase st RpFail), []))
  | _ -> tr_r_stay st

type 'digest tr_conf = { cf_s : tr_sstate; cf_r : tr_rstate;
                         cf_s2r : 'digest tr_msg list;
                         cf_r2s : 'digest tr_msg list;
                         cf_log : (bool * 'digest tr_msg) list }

(** val tr_tag_out : bool -> 'a1 tr_msg list -> (bool * 'a1 tr_msg) list **)

let tr_tag_out dir ms =
  map (fun m -> (dir, m)) ms

(** val tr_step :
    (byte list -> 'a1) -> ('a1 -> 'a1 -> bool) -> (byte list list -> byte
    list list) -> (byte list -> byte list option) -> (byte list -> byte list)
    -> (byte list -> byte list option) -> tr_cfg -> path -> 'a1 tr_conf ->
    'a1 tr_conf option **)

let tr_step h deq zcomp zdecomp zl unzl c dest cf =
  match cf.cf_s2r with
  | [] ->
    (match cf.cf_r2s with
     | [] -> None
     | m :: q ->
       let (s', outs) = tr_sender h deq zcomp zl c cf.cf_s m in
       Some { cf_s = s'; cf_r = cf.cf_r; cf_s2r = outs; cf_r2s = q; cf_log =
       (app cf.cf_log (tr_tag_out true outs)) })
  | m :: q ->
    let (r', outs) = tr_receiver h deq zdecomp unzl c dest cf.cf_r m in
    Some { cf_s = cf.cf_s; cf_r = r'; cf_s2r = q; cf_r2s =
    (app cf.cf_r2s outs); cf_log = (app cf.cf_log (tr_tag_out false outs)) }

(** val tr_run_from :
    (byte list -> 'a1) -> ('a1 -> 'a1 -> bool) -> (byte list list -> byte
    list list) -> (byte list -> byte list option) -> (byte list -> byte list)
    -> (byte list -> byte list option) -> nat -> tr_cfg -> path -> 'a1
    tr_conf -> 'a1 tr_conf **)

let rec tr_run_from h deq zcomp zdecomp zl unzl fuel c dest cf =
  match fuel with
  | O -> cf
  | S f ->
    (match tr_step h deq zcomp zdecomp zl unzl c dest cf with
     | Some cf' -> tr_run_from h deq zcomp zdecomp zl unzl f c dest cf'
     | None -> cf)

(** val tr_init :
    tr_cfg -> (tr_entry * tr_sched) list -> fs -> 'a1 tr_conf **)

let tr_init c ess f0 =
  let (s, outs) = tr_sender_init c ess in
  { cf_s = s; cf_r = (tr_receiver_init f0 (map snd ess)); cf_s2r = outs;
  cf_r2s = []; cf_log = (tr_tag_out true outs) }

(** val tr_run :
    (byte list -> 'a1) -> ('a1 -> 'a1 -> bool) -> (byte list list -> byte
    list list) -> (byte list -> byte list option) -> (byte list -> byte list)
    -> (byte list -> byte list option) -> nat -> tr_cfg -> path ->
    (tr_entry * tr_sched) list -> fs -> 'a1 tr_conf **)

let tr_run h deq zcomp zdecomp zl unzl fuel c dest ess f0 =
  tr_run_from h deq zcomp zdecomp zl unzl fuel c dest (tr_init c ess f0)

(** val tr_sender_ok : 'a1 tr_conf -> bool **)

let tr_sender_ok cf =
  match cf.cf_s.ss_phase with
  | SpDone -> true
  | _ -> false

(** val tr_receiver_ok : 'a1 tr_conf -> bool **)

let tr_receiver_ok cf =
  match cf.cf_r.rs_phase with
  | RpDone -> true
  | _ -> false

(** val tr_quiet : 'a1 tr_conf -> bool **)

let tr_quiet cf =
  match cf.cf_s2r with
  | [] -> (match cf.cf_r2s with
           | [] -> true
           | _ :: _ -> false)
  | _ :: _ -> false

(** val tr_entry_steps :
    (byte list list -> byte list list) -> tr_cfg -> (tr_entry * tr_sched) ->
    nat **)

let tr_entry_steps zcomp c = function
| (e, sc) ->
  if e.te_isdir
  then S (S O)
  else if tr_pipeline c
       then add
              (add
                (add
                  (add
                    (add (add (S (S O)) (S (S O)))
                      (length (snd (tr_compress c e sc))))
                    (mul (S (S O)) (S (length (tr_frames zcomp c e sc)))))
                  (length
                    (filter (fun s -> N.ltb s (te_size e)) sc.sc_prefinal)))
                (S O)) (S (S O))
       else add
              (add (add (S (S O)) (S (S O)))
                (mul (S (S O)) (length (tr_v1_chunks e sc)))) (S (S O))

(** val tr_fuel :
    (byte list list -> byte list list) -> tr_cfg -> (tr_entry * tr_sched)
    list -> nat **)

let tr_fuel zcomp c ess =
  add (S (S O))
    (fold_right (fun es n -> add (tr_entry_steps zcomp c es) n) (S O) ess)

(** val tr_spec_entry :
    tr_cfg -> path -> tr_entry -> state -> (name * state) option **)

let tr_spec_entry c dest e st =
  let p = tr_payload c e in
  if (&&) e.te_isdir (negb (tr_json c))
  then None
  else let (r, st1) = tr_create c dest p [] st in
       (match r with
        | NOk ln ->
          if e.te_isdir
          then Some (ln, st1)
          else if (&&) (tr_json_names c)
                    (N.ltb N0 (tr_target_size dest ln p st1))
               then None
               else let (r0, st2) = tr_create c dest p (te_data e) st in
                    (match r0 with
                     | NOk _ -> Some (ln, st2)
                     | NErr -> None)
        | NErr -> None)

(** val tr_spec :
    tr_cfg -> path -> tr_entry list -> state -> name list -> ((name
    list * name list) * state) option **)

let rec tr_spec c dest es st names =
  match es with
  | [] -> Some (([], names), st)
  | e :: es' ->
    (match tr_spec_entry c dest e st with
     | Some p ->
       let (ln, st') = p in
       (match tr_spec c dest es' st' (tr_add_name names ln) with
        | Some p0 ->
          let (p1, stf) = p0 in
          let (per, all) = p1 in Some (((ln :: per), all), stf)
        | None -> None)
     | None -> None)

type tr_tag =
| TgNum
| TgSucc
| TgName
| TgSize
| TgComp
| TgData
| TgFinish
| TgAck
| TgMd5
| TgExit
| TgOther

(** val tr_tag_of : 'a1 tr_msg -> tr_tag **)

let tr_tag_of = function
| TrNum _ -> TgNum
| TrName _ -> TgName
| TrSize _ -> TgSize
| TrComp _ -> TgComp
| TrData f -> (match f with
               | [] -> TgFinish
               | _ :: _ -> TgData)
| TrMd5 _ -> TgMd5
| TrExit _ -> TgExit
| TrSuccAck (_, _) -> TgAck
| TrKeepAlive -> TgOther
| TrFail -> TgOther
| _ -> TgSucc

type tr_q =
| Q0
| Q1
| Q2
| Q3
| Q4
| Q5
| Q6
| Q7
| Q8
| Q9
| Q10
| Q11
| QE

(** val tr_delta : bool -> tr_q -> tr_tag -> tr_q option **)

let tr_delta pipe q t =
  match q with
  | Q0 -> (match t with
           | TgNum -> Some Q1
           | _ -> None)
  | Q1 -> (match t with
           | TgSucc -> Some Q2
           | _ -> None)
  | Q2 -> (match t with
           | TgName -> Some Q3
           | TgExit -> Some QE
           | _ -> None)
  | Q3 -> (match t with
           | TgSucc -> Some Q4
           | _ -> None)
  | Q4 ->
    (match t with
     | TgName -> Some Q3
     | TgSize -> Some Q5
     | TgExit -> Some QE
     | _ -> None)
  | Q6 ->
    (match t with
     | TgComp -> if pipe then Some Q7 else None
     | TgData -> if pipe then Some Q7 else Some Q11
     | TgFinish -> if pipe then Some Q8 else Some Q11
     | TgMd5 -> if pipe then None else Some Q10
     | _ -> None)
  | Q7 -> (match t with
           | TgData -> Some Q7
           | TgFinish -> Some Q8
           | _ -> None)
  | Q8 -> (match t with
           | TgSucc -> Some Q9
           | TgAck -> Some Q8
           | _ -> None)
  | Q9 -> (match t with
           | TgSucc -> Some Q9
           | TgMd5 -> Some Q10
           | _ -> None)
  | Q10 -> (match t with
            | TgSucc -> Some Q2
            | _ -> None)
  | QE -> None
  | _ -> (match t with
          | TgSucc -> Some Q6
          | _ -> None)

(** val tr_accepts_from : bool -> tr_q -> tr_tag list -> tr_q option **)

let rec tr_accepts_from pipe q = function
| [] -> Some q
| t :: ts' ->
  (match tr_delta pipe q t with
   | Some q' -> tr_accepts_from pipe q' ts'
   | None -> None)

(** val tr_shape_ok : bool -> (bool * 'a1 tr_msg) list -> bool **)

let tr_shape_ok pipe log =
  match tr_accepts_from pipe Q0 (map (fun dm -> tr_tag_of (snd dm)) log) with
  | Some t -> (match t with
               | QE -> true
               | _ -> false)
  | None -> false
