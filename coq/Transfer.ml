open Archive
open BinInt
open BinNat
open BinNums
open Bytes0
open Consts
open Datatypes
open Escape
open Fs
open List0
open Names
open Nat0
open Path
open PeanoNat
open Resume
open Wire

type tr_cfg = { tc_proto : coq_N; tc_binary : bool; tc_directory : bool;
                tc_overwrite : bool; tc_ctype : coq_N; tc_table : table;
                tc_upload : bool }

(** val tr_pipeline : tr_cfg -> bool **)

let tr_pipeline c =
  N.leb tr_proto_pipeline c.tc_proto

(** val tr_json_names : tr_cfg -> bool **)

let tr_json_names c =
  N.leb tr_proto_json_names c.tc_proto

(** val tr_json : tr_cfg -> bool **)

let tr_json c =
  (||) (tr_json_names c) c.tc_directory

(** val tr_names_cfg : tr_cfg -> config **)

let tr_names_cfg c =
  { overwrite = c.tc_overwrite; directory = c.tc_directory; v3 =
    (tr_json_names c) }

(** val tr_rule_cond : coq_N -> coq_N -> tr_cfg -> coq_N -> bool **)

let tr_rule_cond kind value c size =
  if N.eqb kind N0
  then N.ltb c.tc_proto value
  else if N.eqb kind (Npos Coq_xH)
       then N.eqb c.tc_ctype value
       else if N.eqb kind (Npos (Coq_xO Coq_xH))
            then N.ltb size value
            else false

(** val tr_comp_val : coq_N -> tr_cfg -> bool **)

let tr_comp_val v c =
  if N.eqb v N0
  then false
  else if N.eqb v (Npos Coq_xH) then true else negb c.tc_binary

(** val tr_rules_eval :
    (((coq_N * coq_N) * bool) * coq_N) list -> tr_cfg -> coq_N -> bool * bool **)

let rec tr_rules_eval rules c size =
  match rules with
  | [] ->
    ((fst tr_compress_default), (tr_comp_val (snd tr_compress_default) c))
  | p :: r ->
    let (p0, cv) = p in
    let (p1, fx) = p0 in
    let (k, v) = p1 in
    if tr_rule_cond k v c size
    then (fx, (tr_comp_val cv c))
    else tr_rules_eval r c size

(** val tr_is_compress_fixed : tr_cfg -> coq_N -> bool * bool **)

let tr_is_compress_fixed c size =
  tr_rules_eval tr_compress_rules c size

type tr_entry = { te_id : coq_Z; te_rel : name list; te_isdir : bool;
                  te_chunks : byte list list; te_subs : tr_entry list }

(** val te_data : tr_entry -> byte list **)

let te_data e =
  concat e.te_chunks

(** val te_size : tr_entry -> coq_N **)

let te_size e =
  if e.te_isdir then N0 else N.of_nat (length (te_data e))

(** val te_name : tr_entry -> name **)

let te_name e =
  last e.te_rel []

type tr_sched = { sc_sizes : nat list; sc_dflt : nat; sc_profit : bool;
                  sc_steps : coq_N list; sc_prefinal : coq_N list;
                  sc_hstops : nat option; sc_rsizes : nat list;
                  sc_rdflt : nat; sc_wsizes : nat list; sc_wdflt : nat }

(** val tr_add_name : name list -> name -> name list **)

let tr_add_name names nm =
  if existsb (list_eqb nm) names then names else app names (nm :: [])

(** val tr_blen : byte list -> coq_N **)

let tr_blen l =
  N.of_nat (length l)

(** val tr_has_subs : tr_entry -> bool **)

let tr_has_subs e =
  nonempty e.te_subs

(** val tr_archive_mode : tr_cfg -> bool **)

let tr_archive_mode c =
  (&&) (N.leb tr_proto_archive c.tc_proto) (negb c.tc_overwrite)

(** val tr_same_id : tr_entry -> (tr_entry * tr_sched) -> bool **)

let tr_same_id e x =
  Z.eqb (fst x).te_id e.te_id

(** val tr_with_subs : tr_entry -> tr_entry list -> tr_entry **)

let tr_with_subs e subs =
  { te_id = e.te_id; te_rel = e.te_rel; te_isdir = e.te_isdir; te_chunks =
    e.te_chunks; te_subs = subs }

(** val tr_group_go :
    nat -> (tr_entry * tr_sched) list -> (tr_entry * tr_sched) list **)

let rec tr_group_go n ess =
  match n with
  | O -> []
  | S n' ->
    (match ess with
     | [] -> []
     | p :: r ->
       let (e, sc) = p in
       ((tr_with_subs e (app e.te_subs (map fst (filter (tr_same_id e) r)))),
       sc) :: (tr_group_go n' (filter (fun x -> negb (tr_same_id e x)) r)))

(** val tr_group :
    tr_cfg -> (tr_entry * tr_sched) list -> (tr_entry * tr_sched) list **)

let tr_group c ess =
  if tr_archive_mode c then tr_group_go (length ess) ess else ess

(** val tr_ameta : tr_entry -> ameta **)

let tr_ameta e =
  { am_path = (tl e.te_rel); am_dir = e.te_isdir; am_size =
    (Z.of_N (te_size e)) }

(** val tr_aentry : tr_entry -> aentry **)

let tr_aentry e =
  { ae_meta = (tr_ameta e); ae_data = (te_data e) }

(** val tr_anode : anode -> node **)

let tr_anode = function
| ADir -> Dir
| AFile x -> File x

(** val tr_graft : fs -> path -> afs -> fs **)

let tr_graft f base t =
  fold_right (fun pn f' -> set f' (app base (fst pn)) (tr_anode (snd pn))) f t

(** val tr_set_fs : state -> fs -> state **)

let tr_set_fs st f =
  { st_fs = f; st_log = st.st_log; st_created = st.st_created; st_map =
    st.st_map }

(** val tr_graft_st : state -> path -> afs -> state **)

let tr_graft_st st base t =
  tr_set_fs st (tr_graft st.st_fs base t)

(** val tr_set_file : state -> path -> byte list -> state **)

let tr_set_file st p data =
  tr_set_fs st (set st.st_fs p (File data))

(** val tr_old_content : state -> path -> byte list **)

let tr_old_content st p =
  match lookup st.st_fs p with
  | Some n -> (match n with
               | File old -> old
               | Dir -> [])
  | None -> []

(** val tr_skip_chunks : nat -> byte list list -> byte list list **)

let rec tr_skip_chunks n = function
| [] -> []
| ch :: r ->
  if Nat.leb (length ch) n
  then tr_skip_chunks (sub n (length ch)) r
  else (skipn n ch) :: r

(** val tr_rem_entry : tr_entry -> coq_Z -> tr_entry **)

let tr_rem_entry e ms =
  { te_id = e.te_id; te_rel = e.te_rel; te_isdir = false; te_chunks =
    (tr_skip_chunks (Z.to_nat ms) e.te_chunks); te_subs = [] }

(** val tr_hash_B : coq_N **)

let tr_hash_B =
  prefix_hash_step

type tr_npayload =
| TrPlain of name
| TrJson of src * coq_N

type 'digest tr_msg =
| TrNum of coq_N
| TrName of tr_npayload
| TrSize of coq_N
| TrComp of bool
| TrData of byte list
| TrMd5 of 'digest
| TrExit of name list
| TrHash of coq_Z * digest
| TrHashOver
| TrSuccInt of coq_N
| TrSuccName of name
| TrSuccTarget of name * coq_N
| TrSuccAck of coq_N * coq_N
| TrSuccDigest of 'digest
| TrSuccHack of coq_Z * bool
| TrKeepAlive
| TrFail

(** val tr_payload : tr_cfg -> tr_entry -> tr_npayload **)

let tr_payload c e =
  if tr_json c
  then TrJson ({ s_id = e.te_id; s_rel = e.te_rel; s_isdir = e.te_isdir;
         s_archive = (tr_has_subs e) }, (te_size e))
  else TrPlain (te_name e)

(** val tr_compress :
    tr_cfg -> tr_entry -> tr_sched -> bool * 'a1 tr_msg list **)

let tr_compress c e sc =
  let (b, cp) = tr_is_compress_fixed c (te_size e) in
  if b then (cp, []) else (sc.sc_profit, ((TrComp sc.sc_profit) :: []))

(** val tr_frames :
    (byte list list -> byte list list) -> tr_cfg -> tr_entry -> tr_sched ->
    byte list list **)

let tr_frames zcomp c e sc =
  wire_frames sc.sc_sizes sc.sc_dflt
    (wire_encode zcomp c.tc_binary (fst (tr_compress c e sc)) c.tc_table
      e.te_chunks)

(** val tr_v1_chunks : tr_entry -> tr_sched -> byte list list **)

let tr_v1_chunks e sc =
  wire_frames sc.sc_sizes sc.sc_dflt (te_data e)

(** val tr_v1_payload :
    (byte list -> byte list) -> tr_cfg -> byte list -> byte list **)

let tr_v1_payload zl c chunk =
  if c.tc_binary then escape c.tc_table chunk else wire_encode_bytes zl chunk

(** val tr_hdr_of :
    (src -> coq_Z -> byte list) -> coq_Z -> name -> ameta -> byte list **)

let tr_hdr_of ahdr i r0 m =
  ahdr { s_id = i; s_rel = (r0 :: m.am_path); s_isdir = m.am_dir; s_archive =
    false } m.am_size

(** val tr_parse_of :
    (byte list -> (src * coq_Z) option) -> coq_Z -> byte list -> ameta option **)

let tr_parse_of aparse i raw =
  match aparse raw with
  | Some p ->
    let (s, sz) = p in
    (match s.s_rel with
     | [] -> None
     | r0 :: rest ->
       if (&&) code_checks.chk_unmarshal
            (negb (forallb valid_name (r0 :: rest)))
       then None
       else if (&&) (Z.eqb s.s_id i) (negb s.s_archive)
            then Some { am_path = rest; am_dir = s.s_isdir; am_size = sz }
            else None)
  | None -> None

(** val tr_arch_hdr :
    (src -> coq_Z -> byte list) -> tr_entry -> ameta -> byte list **)

let tr_arch_hdr ahdr e =
  tr_hdr_of ahdr e.te_id (hd [] e.te_rel)

(** val tr_arch_entries : tr_entry -> aentry list **)

let tr_arch_entries e =
  map tr_aentry e.te_subs

(** val tr_arch_size : (src -> coq_Z -> byte list) -> tr_entry -> coq_Z **)

let tr_arch_size ahdr e =
  ar_total_size (tr_arch_hdr ahdr e) (tr_arch_entries e)

(** val tr_arch_entry :
    (src -> coq_Z -> byte list) -> tr_entry -> tr_sched -> tr_entry option **)

let tr_arch_entry ahdr e sc =
  let (p, _) =
    ar_reader_run (tr_arch_hdr ahdr e) (tr_arch_entries e)
      (map (fun x -> S x) sc.sc_rsizes) (S sc.sc_rdflt)
  in
  let (outs, a0) = p in
  (match a0 with
   | ArEndEof ->
     Some { te_id = e.te_id; te_rel = e.te_rel; te_isdir = false; te_chunks =
       outs; te_subs = [] }
   | _ -> None)

(** val tr_unarchive :
    (byte list -> (src * coq_Z) option) -> coq_Z -> tr_sched -> byte list ->
    afs option **)

let tr_unarchive aparse i sc w =
  match aw_writer_run (tr_parse_of aparse i) true
          (wire_frames sc.sc_wsizes sc.sc_wdflt w) with
  | AwDone ast -> Some (aw_close ast).aw_fs
  | _ -> None

(** val tr_hmsg : hmsg -> 'a1 tr_msg **)

let tr_hmsg = function
| Hash (s, h) -> TrHash (s, h)
| Over -> TrHashOver

(** val tr_hack : ack -> 'a1 tr_msg **)

let tr_hack a =
  TrSuccHack (a.a_step, a.a_match)

(** val tr_resume_size : tr_entry -> coq_N -> nat **)

let tr_resume_size e tsize =
  N.to_nat (N.min (tr_blen (te_data e)) tsize)

(** val tr_resume_pre : tr_cfg -> tr_entry -> 'a1 tr_msg list **)

let tr_resume_pre c e =
  if N.ltb c.tc_proto tr_proto_resume_nosize
  then (TrSize (te_size e)) :: []
  else []

type tr_sphase =
| SpNum
| SpName
| SpHash of coq_Z * coq_Z
| SpSize
| SpAcks of coq_N list
| SpFinal
| SpV1 of byte list list * coq_N
| SpMd5
| SpExit
| SpDone
| SpFail

type tr_sstate = { ss_phase : tr_sphase;
                   ss_todo : (tr_entry * tr_sched) list; ss_names : name list }

(** val tr_s_fail : tr_sstate -> tr_sstate * 'a1 tr_msg list **)

let tr_s_fail st =
  ({ ss_phase = SpFail; ss_todo = st.ss_todo; ss_names = st.ss_names },
    (TrFail :: []))

(** val tr_s_stay : tr_sstate -> tr_sstate * 'a1 tr_msg list **)

let tr_s_stay st =
  (st, [])

(** val tr_s_next :
    tr_cfg -> (tr_entry * tr_sched) list -> name list -> tr_sstate * 'a1
    tr_msg list **)

let tr_s_next c todo names =
  match todo with
  | [] ->
    if c.tc_upload
    then ({ ss_phase = SpDone; ss_todo = []; ss_names = names }, ((TrExit
           names) :: []))
    else ({ ss_phase = SpExit; ss_todo = []; ss_names = names }, [])
  | p :: _ ->
    let (e, _) = p in
    ({ ss_phase = SpName; ss_todo = todo; ss_names = names }, ((TrName
    (tr_payload c e)) :: []))

(** val tr_sender_init :
    tr_cfg -> (tr_entry * tr_sched) list -> tr_sstate * 'a1 tr_msg list **)

let tr_sender_init _ items =
  ({ ss_phase = SpNum; ss_todo = items; ss_names = [] }, ((TrNum
    (N.of_nat (length items))) :: []))

(** val tr_s_md5 :
    (byte list -> 'a1) -> tr_sstate -> tr_entry -> tr_sstate * 'a1 tr_msg list **)

let tr_s_md5 h st e =
  ({ ss_phase = SpMd5; ss_todo = st.ss_todo; ss_names = st.ss_names },
    ((TrMd5 (h (te_data e))) :: []))

(** val tr_s_size :
    tr_entry -> tr_sched -> (tr_entry * tr_sched) list -> name list -> coq_N
    -> tr_sstate * 'a1 tr_msg list **)

let tr_s_size f sc rest names n =
  ({ ss_phase = SpSize; ss_todo = ((f, sc) :: rest); ss_names = names },
    ((TrSize n) :: []))

(** val tr_s_resume :
    (byte list -> digest) -> tr_cfg -> tr_entry -> tr_sched ->
    (tr_entry * tr_sched) list -> name list -> coq_N -> tr_sstate * 'a1
    tr_msg list **)

let tr_s_resume hx c e sc rest names tsize =
  let size = tr_resume_size e tsize in
  (match send_hashes tr_hash_B hx size sc.sc_hstops (te_data e) size O [] with
   | Some hs ->
     if Nat.eqb size O
     then ({ ss_phase = SpSize; ss_todo = (((tr_rem_entry e Z0),
            sc) :: rest); ss_names = names },
            (app (tr_resume_pre c e)
              (app (map tr_hmsg hs) ((TrSize
                (te_size (tr_rem_entry e Z0))) :: []))))
     else ({ ss_phase = (SpHash ((Z.of_nat size), Z0)); ss_todo = ((e,
            sc) :: rest); ss_names = names },
            (app (tr_resume_pre c e) (map tr_hmsg hs)))
   | None ->
     ({ ss_phase = SpFail; ss_todo = ((e, sc) :: rest); ss_names = names },
       (TrFail :: [])))

(** val tr_s_named :
    (byte list -> digest) -> (src -> coq_Z -> byte list) -> tr_cfg ->
    tr_sstate -> tr_entry -> tr_sched -> (tr_entry * tr_sched) list -> name
    -> coq_N -> tr_sstate * 'a1 tr_msg list **)

let tr_s_named hx ahdr c st e sc rest nm tsize =
  let names' = tr_add_name st.ss_names nm in
  if (&&) (tr_json_names c) (tr_has_subs e)
  then (match tr_arch_entry ahdr e sc with
        | Some f -> tr_s_size f sc rest names' (Z.to_N (tr_arch_size ahdr e))
        | None ->
          ({ ss_phase = SpFail; ss_todo = st.ss_todo; ss_names = names' },
            (TrFail :: [])))
  else if e.te_isdir
       then tr_s_next c rest names'
       else if N.ltb N0 tsize
            then tr_s_resume hx c e sc rest names' tsize
            else ({ ss_phase = SpSize; ss_todo = st.ss_todo; ss_names =
                   names' }, ((TrSize (te_size e)) :: []))

(** val tr_s_data :
    (byte list -> 'a1) -> (byte list list -> byte list list) -> (byte list ->
    byte list) -> tr_cfg -> tr_sstate -> tr_entry -> tr_sched ->
    tr_sstate * 'a1 tr_msg list **)

let tr_s_data h zcomp zl c st e sc =
  if tr_pipeline c
  then let fs0 = tr_frames zcomp c e sc in
       ({ ss_phase = (SpAcks (app (map tr_blen fs0) (N0 :: []))); ss_todo =
       st.ss_todo; ss_names = st.ss_names },
       (app (snd (tr_compress c e sc))
         (app (map (fun x -> TrData x) fs0) ((TrData []) :: []))))
  else (match tr_v1_chunks e sc with
        | [] -> tr_s_md5 h st e
        | ch :: chs ->
          ({ ss_phase = (SpV1 (chs, (tr_blen ch))); ss_todo = st.ss_todo;
            ss_names = st.ss_names }, ((TrData
            (tr_v1_payload zl c ch)) :: [])))

(** val tr_s_hack :
    tr_sstate -> coq_Z -> coq_Z -> coq_Z -> bool -> tr_sstate * 'a1 tr_msg
    list **)

let tr_s_hack st size mstep step mtch =
  match st.ss_todo with
  | [] -> tr_s_fail st
  | p :: rest ->
    let (e, sc) = p in
    let verdict = fun ms ->
      tr_s_size (tr_rem_entry e ms) sc rest st.ss_names
        (te_size (tr_rem_entry e ms))
    in
    if negb mtch
    then verdict mstep
    else if Z.eqb step size
         then verdict step
         else if Z.ltb size step
              then tr_s_fail st
              else ({ ss_phase = (SpHash (size, step)); ss_todo = st.ss_todo;
                     ss_names = st.ss_names }, [])

(** val tr_sender :
    (byte list -> 'a1) -> ('a1 -> 'a1 -> bool) -> (byte list list -> byte
    list list) -> (byte list -> byte list) -> (byte list -> digest) -> (src
    -> coq_Z -> byte list) -> tr_cfg -> tr_sstate -> 'a1 tr_msg ->
    tr_sstate * 'a1 tr_msg list **)

let tr_sender h deq zcomp zl hx ahdr c st m =
  match st.ss_phase with
  | SpFinal ->
    let ph = SpFinal in
    (match m with
     | TrFail ->
       ({ ss_phase = SpFail; ss_todo = st.ss_todo; ss_names = st.ss_names },
         [])
     | _ ->
       (match ph with
        | SpNum ->
          (match m with
           | TrSuccInt n ->
             if N.eqb n (N.of_nat (length st.ss_todo))
             then tr_s_next c st.ss_todo st.ss_names
             else tr_s_fail st
           | _ -> tr_s_fail st)
        | SpName ->
          (match st.ss_todo with
           | [] -> tr_s_fail st
           | p :: rest ->
             let (e, sc) = p in
             (match m with
              | TrSuccName nm ->
                if tr_json_names c
                then tr_s_fail st
                else tr_s_named hx ahdr c st e sc rest nm N0
              | TrSuccTarget (nm, sz) ->
                if tr_json_names c
                then tr_s_named hx ahdr c st e sc rest nm sz
                else tr_s_fail st
              | _ -> tr_s_fail st))
        | SpHash (size, mstep) ->
          (match m with
           | TrSuccHack (step, mtch) -> tr_s_hack st size mstep step mtch
           | _ -> tr_s_fail st)
        | SpSize ->
          (match st.ss_todo with
           | [] -> tr_s_fail st
           | p :: _ ->
             let (e, sc) = p in
             (match m with
              | TrSuccInt n ->
                if N.eqb n (te_size e)
                then tr_s_data h zcomp zl c st e sc
                else tr_s_fail st
              | _ -> tr_s_fail st))
        | SpAcks pending ->
          (match m with
           | TrSuccAck (len, _) ->
             (match pending with
              | [] -> tr_s_fail st
              | l :: ls ->
                if N.eqb len l
                then ({ ss_phase =
                       (match ls with
                        | [] -> SpFinal
                        | _ :: _ -> SpAcks ls); ss_todo = st.ss_todo;
                       ss_names = st.ss_names }, [])
                else tr_s_fail st)
           | TrKeepAlive -> tr_s_stay st
           | _ -> tr_s_fail st)
        | SpFinal ->
          (match st.ss_todo with
           | [] ->
             (match m with
              | TrKeepAlive -> tr_s_stay st
              | _ -> tr_s_fail st)
           | p :: _ ->
             let (e, _) = p in
             (match m with
              | TrSuccInt step ->
                if N.ltb (te_size e) step
                then tr_s_fail st
                else if N.eqb step (te_size e)
                     then tr_s_md5 h st e
                     else tr_s_stay st
              | TrKeepAlive -> tr_s_stay st
              | _ -> tr_s_fail st))
        | SpV1 (chs, expect) ->
          (match st.ss_todo with
           | [] -> tr_s_fail st
           | p :: _ ->
             let (e, _) = p in
             (match m with
              | TrSuccInt n ->
                if N.eqb n expect
                then (match chs with
                      | [] -> tr_s_md5 h st e
                      | ch :: chs' ->
                        ({ ss_phase = (SpV1 (chs', (tr_blen ch))); ss_todo =
                          st.ss_todo; ss_names = st.ss_names }, ((TrData
                          (tr_v1_payload zl c ch)) :: [])))
                else tr_s_fail st
              | _ -> tr_s_fail st))
        | SpMd5 ->
          (match st.ss_todo with
           | [] -> tr_s_fail st
           | p :: rest ->
             let (e, _) = p in
             (match m with
              | TrSuccDigest d ->
                if deq d (h (te_data e))
                then tr_s_next c rest st.ss_names
                else tr_s_fail st
              | _ -> tr_s_fail st))
        | SpExit ->
          (match m with
           | TrExit _ ->
             ({ ss_phase = SpDone; ss_todo = st.ss_todo; ss_names =
               st.ss_names }, [])
           | _ -> tr_s_fail st)
        | _ -> tr_s_stay st))
  | SpDone -> tr_s_stay st
  | SpFail -> tr_s_stay st
  | x ->
    (match m with
     | TrFail ->
       ({ ss_phase = SpFail; ss_todo = st.ss_todo; ss_names = st.ss_names },
         [])
     | _ ->
       (match x with
        | SpNum ->
          (match m with
           | TrSuccInt n ->
             if N.eqb n (N.of_nat (length st.ss_todo))
             then tr_s_next c st.ss_todo st.ss_names
             else tr_s_fail st
           | _ -> tr_s_fail st)
        | SpName ->
          (match st.ss_todo with
           | [] -> tr_s_fail st
           | p :: rest ->
             let (e, sc) = p in
             (match m with
              | TrSuccName nm ->
                if tr_json_names c
                then tr_s_fail st
                else tr_s_named hx ahdr c st e sc rest nm N0
              | TrSuccTarget (nm, sz) ->
                if tr_json_names c
                then tr_s_named hx ahdr c st e sc rest nm sz
                else tr_s_fail st
              | _ -> tr_s_fail st))
        | SpHash (size, mstep) ->
          (match m with
           | TrSuccHack (step, mtch) -> tr_s_hack st size mstep step mtch
           | _ -> tr_s_fail st)
        | SpSize ->
          (match st.ss_todo with
           | [] -> tr_s_fail st
           | p :: _ ->
             let (e, sc) = p in
             (match m with
              | TrSuccInt n ->
                if N.eqb n (te_size e)
                then tr_s_data h zcomp zl c st e sc
                else tr_s_fail st
              | _ -> tr_s_fail st))
        | SpAcks pending ->
          (match m with
           | TrSuccAck (len, _) ->
             (match pending with
              | [] -> tr_s_fail st
              | l :: ls ->
                if N.eqb len l
                then ({ ss_phase =
                       (match ls with
                        | [] -> SpFinal
                        | _ :: _ -> SpAcks ls); ss_todo = st.ss_todo;
                       ss_names = st.ss_names }, [])
                else tr_s_fail st)
           | TrKeepAlive -> tr_s_stay st
           | _ -> tr_s_fail st)
        | SpFinal ->
          (match st.ss_todo with
           | [] ->
             (match m with
              | TrKeepAlive -> tr_s_stay st
              | _ -> tr_s_fail st)
           | p :: _ ->
             let (e, _) = p in
             (match m with
              | TrSuccInt step ->
                if N.ltb (te_size e) step
                then tr_s_fail st
                else if N.eqb step (te_size e)
                     then tr_s_md5 h st e
                     else tr_s_stay st
              | TrKeepAlive -> tr_s_stay st
              | _ -> tr_s_fail st))
        | SpV1 (chs, expect) ->
          (match st.ss_todo with
           | [] -> tr_s_fail st
           | p :: _ ->
             let (e, _) = p in
             (match m with
              | TrSuccInt n ->
                if N.eqb n expect
                then (match chs with
                      | [] -> tr_s_md5 h st e
                      | ch :: chs' ->
                        ({ ss_phase = (SpV1 (chs', (tr_blen ch))); ss_todo =
                          st.ss_todo; ss_names = st.ss_names }, ((TrData
                          (tr_v1_payload zl c ch)) :: [])))
                else tr_s_fail st
              | _ -> tr_s_fail st))
        | SpMd5 ->
          (match st.ss_todo with
           | [] -> tr_s_fail st
           | p :: rest ->
             let (e, _) = p in
             (match m with
              | TrSuccDigest d ->
                if deq d (h (te_data e))
                then tr_s_next c rest st.ss_names
                else tr_s_fail st
              | _ -> tr_s_fail st))
        | SpExit ->
          (match m with
           | TrExit _ ->
             ({ ss_phase = SpDone; ss_todo = st.ss_todo; ss_names =
               st.ss_names }, [])
           | _ -> tr_s_fail st)
        | _ -> tr_s_stay st))

(** val tr_create :
    tr_cfg -> path -> tr_npayload -> byte list -> state ->
    Names.result * state **)

let tr_create c dest p content st =
  match p with
  | TrPlain nm ->
    if tr_json c
    then (NErr, st)
    else create_file code_checks (tr_names_cfg c) dest nm true content st
  | TrJson (s, _) ->
    if tr_json_names c
    then recv_json code_checks (tr_names_cfg c) dest (Some s) false content st
    else if c.tc_directory
         then recv_json code_checks (tr_names_cfg c) dest (Some s) true
                content st
         else (NErr, st)

(** val tr_p_isdir : tr_npayload -> bool **)

let tr_p_isdir = function
| TrPlain _ -> false
| TrJson (s, _) -> s.s_isdir

(** val tr_p_archive : tr_npayload -> bool **)

let tr_p_archive = function
| TrPlain _ -> false
| TrJson (s, _) -> s.s_archive

(** val tr_p_tail : tr_npayload -> name list **)

let tr_p_tail = function
| TrPlain _ -> []
| TrJson (s, _) -> tl s.s_rel

(** val tr_p_aid : tr_npayload -> coq_Z **)

let tr_p_aid = function
| TrPlain _ -> Z0
| TrJson (s, _) -> s.s_id

(** val tr_p_size : tr_npayload -> coq_N **)

let tr_p_size = function
| TrPlain _ -> N0
| TrJson (_, size) -> size

(** val tr_leaf : path -> name -> tr_npayload -> path **)

let tr_leaf dest ln p =
  join dest (ln :: (tr_p_tail p))

(** val tr_target_size : path -> name -> tr_npayload -> state -> coq_N **)

let tr_target_size dest ln p st =
  match lookup st.st_fs (tr_leaf dest ln p) with
  | Some n -> (match n with
               | File old -> tr_blen old
               | Dir -> N0)
  | None -> N0

type tr_rphase =
| RpNum
| RpName
| RpHSize of tr_npayload * path * byte list
| RpHash of tr_npayload * path * byte list * coq_N * rstate
| RpSize of tr_npayload
| RpComp of tr_npayload * coq_N
| RpData of tr_npayload * coq_N * bool * byte list list * coq_N list
| RpV1 of tr_npayload * coq_N * byte list
| RpMd5 of tr_npayload * byte list
| RpExit
| RpDone
| RpFail

type tr_rstate = { rs_phase : tr_rphase; rs_left : nat; rs_st : state;
                   rs_names : name list; rs_sched : tr_sched list;
                   rs_open : ((path * file) * coq_Z) option }

(** val tr_r_fail : tr_rstate -> tr_rstate * 'a1 tr_msg list **)

let tr_r_fail st =
  ({ rs_phase = RpFail; rs_left = st.rs_left; rs_st = st.rs_st; rs_names =
    st.rs_names; rs_sched = st.rs_sched; rs_open = st.rs_open },
    (TrFail :: []))

(** val tr_r_stay : tr_rstate -> tr_rstate * 'a1 tr_msg list **)

let tr_r_stay st =
  (st, [])

(** val tr_r_phase : tr_rstate -> tr_rphase -> tr_rstate **)

let tr_r_phase st ph =
  { rs_phase = ph; rs_left = st.rs_left; rs_st = st.rs_st; rs_names =
    st.rs_names; rs_sched = st.rs_sched; rs_open = st.rs_open }

(** val tr_r_next :
    tr_cfg -> nat -> state -> name list -> tr_sched list -> tr_rstate * 'a1
    tr_msg list **)

let tr_r_next c left fst_ names sch =
  match left with
  | O ->
    if c.tc_upload
    then ({ rs_phase = RpExit; rs_left = O; rs_st = fst_; rs_names = names;
           rs_sched = sch; rs_open = None }, [])
    else ({ rs_phase = RpDone; rs_left = O; rs_st = fst_; rs_names = names;
           rs_sched = sch; rs_open = None }, ((TrExit names) :: []))
  | S _ ->
    ({ rs_phase = RpName; rs_left = left; rs_st = fst_; rs_names = names;
      rs_sched = sch; rs_open = None }, [])

(** val tr_receiver_init : fs -> tr_sched list -> tr_rstate **)

let tr_receiver_init f0 sch =
  { rs_phase = RpNum; rs_left = O; rs_st = (init_state f0); rs_names = [];
    rs_sched = sch; rs_open = None }

(** val tr_dflt_sched : tr_sched **)

let tr_dflt_sched =
  { sc_sizes = []; sc_dflt = (S O); sc_profit = false; sc_steps = [];
    sc_prefinal = []; sc_hstops = None; sc_rsizes = []; sc_rdflt = O;
    sc_wsizes = []; sc_wdflt = (S O) }

(** val tr_cur_sched : tr_rstate -> tr_sched **)

let tr_cur_sched st =
  match st.rs_sched with
  | [] -> tr_dflt_sched
  | sc :: _ -> sc

(** val tr_r_done :
    tr_cfg -> tr_rstate -> state -> 'a1 tr_msg list -> tr_rstate * 'a1 tr_msg
    list **)

let tr_r_done c st fst_ outs =
  let (st', outs') =
    tr_r_next c (pred st.rs_left) fst_ st.rs_names (tl st.rs_sched)
  in
  (st', (app outs outs'))

(** val tr_r_name :
    tr_cfg -> path -> tr_rstate -> tr_npayload -> tr_rstate * 'a1 tr_msg list **)

let tr_r_name c dest st p =
  let (r, st1) = tr_create c dest p [] st.rs_st in
  (match r with
   | NOk ln ->
     let names' = tr_add_name st.rs_names ln in
     let tsize =
       if (||) (tr_p_isdir p) (tr_p_archive p)
       then N0
       else tr_target_size dest ln p st1
     in
     let reply =
       if tr_json_names c then TrSuccTarget (ln, tsize) else TrSuccName ln
     in
     let stn = { rs_phase = st.rs_phase; rs_left = st.rs_left; rs_st =
       st.rs_st; rs_names = names'; rs_sched = st.rs_sched; rs_open =
       st.rs_open }
     in
     if tr_p_archive p
     then ((tr_r_phase stn (RpSize p)), (reply :: []))
     else if tr_p_isdir p
          then tr_r_done c stn st1 (reply :: [])
          else if (&&) (tr_json_names c) (N.ltb N0 tsize)
               then let leaf = tr_leaf dest ln p in
                    let old = tr_old_content st1 leaf in
                    ((tr_r_phase stn
                       (if N.ltb c.tc_proto tr_proto_resume_nosize
                        then RpHSize (p, leaf, old)
                        else RpHash (p, leaf, old, (tr_p_size p), r_init))),
                    (reply :: []))
               else ((tr_r_phase stn (RpSize p)), (reply :: []))
   | NErr -> tr_r_fail st)

(** val tr_r_hash :
    (byte list -> digest) -> tr_rstate -> tr_npayload -> path -> byte list ->
    coq_N -> rstate -> coq_Z -> digest -> tr_rstate * 'a1 tr_msg list **)

let tr_r_hash hx st p leaf old ssize r step h =
  match recv_hashes tr_hash_B hx old ((Hash (step, h)) :: []) r with
  | RBlocked r' ->
    ((tr_r_phase st (RpHash (p, leaf, old, ssize, r'))),
      (map tr_hack (skipn (length r.r_acks) r'.r_acks)))
  | _ -> tr_r_fail st

(** val tr_r_over :
    tr_rstate -> tr_npayload -> path -> byte list -> coq_N -> rstate ->
    tr_rstate * 'a1 tr_msg list **)

let tr_r_over st p leaf old ssize r =
  let mr = Z.to_nat r.r_mstep in
  let f = f_truncate (f_seek { f_data = old; f_off = r.r_off } mr) mr in
  ({ rs_phase = (RpSize p); rs_left = st.rs_left; rs_st = st.rs_st;
  rs_names = st.rs_names; rs_sched = st.rs_sched; rs_open = (Some ((leaf, f),
  (Z.sub (Z.of_N ssize) r.r_mstep))) }, [])

(** val tr_rest_mismatch : tr_rstate -> coq_N -> bool **)

let tr_rest_mismatch st n =
  match st.rs_open with
  | Some p ->
    let (_, rest) = p in
    (&&) tr_resume_rest_check
      ((&&) (Z.leb Z0 rest) (negb (Z.eqb (Z.of_N n) rest)))
  | None -> false

(** val tr_r_size :
    tr_cfg -> tr_rstate -> tr_npayload -> coq_N -> tr_rstate * 'a1 tr_msg list **)

let tr_r_size c st p n =
  if tr_rest_mismatch st n
  then ((tr_r_phase st RpFail), ((TrSuccInt n) :: (TrFail :: [])))
  else if tr_pipeline c
       then let (b, cp) = tr_is_compress_fixed c n in
            if b
            then ((tr_r_phase st (RpData (p, n, cp, [],
                    (tr_cur_sched st).sc_steps))), ((TrSuccInt n) :: []))
            else ((tr_r_phase st (RpComp (p, n))), ((TrSuccInt n) :: []))
       else if N.ltb N0 n
            then ((tr_r_phase st (RpV1 (p, n, []))), ((TrSuccInt n) :: []))
            else ((tr_r_phase st (RpMd5 (p, []))), ((TrSuccInt n) :: []))

(** val tr_rdflt : nat **)

let tr_rdflt =
  S O

(** val tr_complete :
    (byte list -> (src * coq_Z) option) -> tr_cfg -> path -> tr_rstate ->
    tr_npayload -> byte list -> state option **)

let tr_complete aparse c dest st p w =
  match st.rs_open with
  | Some p0 ->
    let (p1, _) = p0 in
    let (leaf, f) = p1 in
    let (r, st2) = tr_create c dest p [] st.rs_st in
    (match r with
     | NOk _ -> Some (tr_set_file st2 leaf (f_write f w).f_data)
     | NErr -> None)
  | None ->
    if tr_p_archive p
    then let (r, st2) = tr_create c dest p [] st.rs_st in
         (match r with
          | NOk ln ->
            (match tr_unarchive aparse (tr_p_aid p) (tr_cur_sched st) w with
             | Some t -> Some (tr_graft_st st2 (app dest (ln :: [])) t)
             | None -> None)
          | NErr -> None)
    else let (r, st2) = tr_create c dest p w st.rs_st in
         (match r with
          | NOk _ -> Some st2
          | NErr -> None)

(** val tr_r_frame :
    (byte list -> byte list option) -> (byte list -> (src * coq_Z) option) ->
    tr_cfg -> tr_rstate -> tr_npayload -> coq_N -> bool -> byte list list ->
    coq_N list -> byte list -> tr_rstate * 'a1 tr_msg list **)

let tr_r_frame zdecomp aparse c st p size cp acc steps f =
  let step = match steps with
             | [] -> N0
             | s :: _ -> s in
  (match f with
   | [] ->
     (match wire_decode zdecomp c.tc_binary cp c.tc_table acc [] tr_rdflt with
      | Some w ->
        if N.eqb (tr_blen w) size
        then if (&&) (tr_p_archive p)
                  (match tr_unarchive aparse (tr_p_aid p) (tr_cur_sched st) w with
                   | Some _ -> false
                   | None -> true)
             then tr_r_fail st
             else ((tr_r_phase st (RpMd5 (p, w))),
                    (app ((TrSuccAck (N0, step)) :: [])
                      (app
                        (map (fun x -> TrSuccInt x)
                          (filter (fun s -> N.ltb s size)
                            (tr_cur_sched st).sc_prefinal)) ((TrSuccInt
                        size) :: []))))
        else tr_r_fail st
      | None -> tr_r_fail st)
   | _ :: _ ->
     ((tr_r_phase st (RpData (p, size, cp, (app acc (f :: [])), (tl steps)))),
       ((TrSuccAck ((tr_blen f), step)) :: [])))

(** val tr_r_v1 :
    (byte list -> byte list option) -> tr_cfg -> tr_rstate -> tr_npayload ->
    coq_N -> byte list -> byte list -> tr_rstate * 'a1 tr_msg list **)

let tr_r_v1 unzl c st p size w pl =
  match wire_v1_decode unzl c.tc_binary c.tc_table pl with
  | Some ch ->
    let w' = app w ch in
    ((tr_r_phase st
       (if N.ltb (tr_blen w') size then RpV1 (p, size, w') else RpMd5 (p, w'))),
    ((TrSuccInt (tr_blen ch)) :: []))
  | None -> tr_r_fail st

(** val tr_r_md5 :
    (byte list -> 'a1) -> ('a1 -> 'a1 -> bool) -> (byte list -> (src * coq_Z)
    option) -> tr_cfg -> path -> tr_rstate -> tr_npayload -> byte list -> 'a1
    -> tr_rstate * 'a1 tr_msg list **)

let tr_r_md5 h deq aparse c dest st p w d =
  if deq d (h w)
  then (match tr_complete aparse c dest st p w with
        | Some st2 -> tr_r_done c st st2 ((TrSuccDigest (h w)) :: [])
        | None -> tr_r_fail st)
  else tr_r_fail st

(** val tr_receiver :
    (byte list -> 'a1) -> ('a1 -> 'a1 -> bool) -> (byte list -> byte list
    option) -> (byte list -> byte list option) -> (byte list -> digest) ->
    (byte list -> (src * coq_Z) option) -> tr_cfg -> path -> tr_rstate -> 'a1
    tr_msg -> tr_rstate * 'a1 tr_msg list **)

let tr_receiver h deq zdecomp unzl hx aparse c dest st m =
  match st.rs_phase with
  | RpNum ->
    let ph = RpNum in
    (match m with
     | TrNum _ ->
       (match ph with
        | RpNum ->
          (match m with
           | TrNum n ->
             let (st', outs) =
               tr_r_next c (N.to_nat n) st.rs_st st.rs_names st.rs_sched
             in
             (st', ((TrSuccInt n) :: outs))
           | _ -> tr_r_fail st)
        | RpName ->
          (match m with
           | TrName p -> tr_r_name c dest st p
           | _ -> tr_r_fail st)
        | RpHSize (p, leaf, old) ->
          (match m with
           | TrSize n ->
             ((tr_r_phase st (RpHash (p, leaf, old, n, r_init))), [])
           | _ -> tr_r_fail st)
        | RpHash (p, leaf, old, ssize, r) ->
          (match m with
           | TrHash (step, h0) -> tr_r_hash hx st p leaf old ssize r step h0
           | TrHashOver -> tr_r_over st p leaf old ssize r
           | _ -> tr_r_fail st)
        | RpSize p ->
          (match m with
           | TrSize n -> tr_r_size c st p n
           | _ -> tr_r_fail st)
        | RpComp (p, size) ->
          (match m with
           | TrComp b ->
             ((tr_r_phase st (RpData (p, size, b, [],
                (tr_cur_sched st).sc_steps))), [])
           | _ -> tr_r_fail st)
        | RpData (p, size, cp, acc, steps) ->
          (match m with
           | TrData f -> tr_r_frame zdecomp aparse c st p size cp acc steps f
           | TrKeepAlive -> tr_r_stay st
           | _ -> tr_r_fail st)
        | RpV1 (p, size, w) ->
          (match m with
           | TrData pl -> tr_r_v1 unzl c st p size w pl
           | _ -> tr_r_fail st)
        | RpMd5 (p, w) ->
          (match m with
           | TrMd5 d -> tr_r_md5 h deq aparse c dest st p w d
           | _ -> tr_r_fail st)
        | RpExit ->
          (match m with
           | TrExit _ -> ((tr_r_phase st RpDone), [])
           | _ -> tr_r_fail st)
        | _ -> tr_r_stay st)
     | TrName _ ->
       (match ph with
        | RpNum ->
          (match m with
           | TrNum n ->
             let (st', outs) =
               tr_r_next c (N.to_nat n) st.rs_st st.rs_names st.rs_sched
             in
             (st', ((TrSuccInt n) :: outs))
           | _ -> tr_r_fail st)
        | RpName ->
          (match m with
           | TrName p -> tr_r_name c dest st p
           | _ -> tr_r_fail st)
        | RpHSize (p, leaf, old) ->
          (match m with
           | TrSize n ->
             ((tr_r_phase st (RpHash (p, leaf, old, n, r_init))), [])
           | _ -> tr_r_fail st)
        | RpHash (p, leaf, old, ssize, r) ->
          (match m with
           | TrHash (step, h0) -> tr_r_hash hx st p leaf old ssize r step h0
           | TrHashOver -> tr_r_over st p leaf old ssize r
           | _ -> tr_r_fail st)
        | RpSize p ->
          (match m with
           | TrSize n -> tr_r_size c st p n
           | _ -> tr_r_fail st)
        | RpComp (p, size) ->
          (match m with
           | TrComp b ->
             ((tr_r_phase st (RpData (p, size, b, [],
                (tr_cur_sched st).sc_steps))), [])
           | _ -> tr_r_fail st)
        | RpData (p, size, cp, acc, steps) ->
          (match m with
           | TrData f -> tr_r_frame zdecomp aparse c st p size cp acc steps f
           | TrKeepAlive -> tr_r_stay st
           | _ -> tr_r_fail st)
        | RpV1 (p, size, w) ->
          (match m with
           | TrData pl -> tr_r_v1 unzl c st p size w pl
           | _ -> tr_r_fail st)
        | RpMd5 (p, w) ->
          (match m with
           | TrMd5 d -> tr_r_md5 h deq aparse c dest st p w d
           | _ -> tr_r_fail st)
        | RpExit ->
          (match m with
           | TrExit _ -> ((tr_r_phase st RpDone), [])
           | _ -> tr_r_fail st)
        | _ -> tr_r_stay st)
     | TrSize _ ->
       (match ph with
        | RpNum ->
          (match m with
           | TrNum n ->
             let (st', outs) =
               tr_r_next c (N.to_nat n) st.rs_st st.rs_names st.rs_sched
             in
             (st', ((TrSuccInt n) :: outs))
           | _ -> tr_r_fail st)
        | RpName ->
          (match m with
           | TrName p -> tr_r_name c dest st p
           | _ -> tr_r_fail st)
        | RpHSize (p, leaf, old) ->
          (match m with
           | TrSize n ->
             ((tr_r_phase st (RpHash (p, leaf, old, n, r_init))), [])
           | _ -> tr_r_fail st)
        | RpHash (p, leaf, old, ssize, r) ->
          (match m with
           | TrHash (step, h0) -> tr_r_hash hx st p leaf old ssize r step h0
           | TrHashOver -> tr_r_over st p leaf old ssize r
           | _ -> tr_r_fail st)
        | RpSize p ->
          (match m with
           | TrSize n -> tr_r_size c st p n
           | _ -> tr_r_fail st)
        | RpComp (p, size) ->
          (match m with
           | TrComp b ->
             ((tr_r_phase st (RpData (p, size, b, [],
                (tr_cur_sched st).sc_steps))), [])
           | _ -> tr_r_fail st)
        | RpData (p, size, cp, acc, steps) ->
          (match m with
           | TrData f -> tr_r_frame zdecomp aparse c st p size cp acc steps f
           | TrKeepAlive -> tr_r_stay st
           | _ -> tr_r_fail st)
        | RpV1 (p, size, w) ->
          (match m with
           | TrData pl -> tr_r_v1 unzl c st p size w pl
           | _ -> tr_r_fail st)
        | RpMd5 (p, w) ->
          (match m with
           | TrMd5 d -> tr_r_md5 h deq aparse c dest st p w d
           | _ -> tr_r_fail st)
        | RpExit ->
          (match m with
           | TrExit _ -> ((tr_r_phase st RpDone), [])
           | _ -> tr_r_fail st)
        | _ -> tr_r_stay st)
     | TrComp _ ->
       (match ph with
        | RpNum ->
          (match m with
           | TrNum n ->
             let (st', outs) =
               tr_r_next c (N.to_nat n) st.rs_st st.rs_names st.rs_sched
             in
             (st', ((TrSuccInt n) :: outs))
           | _ -> tr_r_fail st)
        | RpName ->
          (match m with
           | TrName p -> tr_r_name c dest st p
           | _ -> tr_r_fail st)
        | RpHSize (p, leaf, old) ->
          (match m with
           | TrSize n ->
             ((tr_r_phase st (RpHash (p, leaf, old, n, r_init))), [])
           | _ -> tr_r_fail st)
        | RpHash (p, leaf, old, ssize, r) ->
          (match m with
           | TrHash (step, h0) -> tr_r_hash hx st p leaf old ssize r step h0
           | TrHashOver -> tr_r_over st p leaf old ssize r
           | _ -> tr_r_fail st)
        | RpSize p ->
          (match m with
           | TrSize n -> tr_r_size c st p n
           | _ -> tr_r_fail st)
        | RpComp (p, size) ->
          (match m with
           | TrComp b ->
             ((tr_r_phase st (RpData (p, size, b, [],
                (tr_cur_sched st).sc_steps))), [])
           | _ -> tr_r_fail st)
        | RpData (p, size, cp, acc, steps) ->
          (match m with
           | TrData f -> tr_r_frame zdecomp aparse c st p size cp acc steps f
           | TrKeepAlive -> tr_r_stay st
           | _ -> tr_r_fail st)
        | RpV1 (p, size, w) ->
          (match m with
           | TrData pl -> tr_r_v1 unzl c st p size w pl
           | _ -> tr_r_fail st)
        | RpMd5 (p, w) ->
          (match m with
           | TrMd5 d -> tr_r_md5 h deq aparse c dest st p w d
           | _ -> tr_r_fail st)
        | RpExit ->
          (match m with
           | TrExit _ -> ((tr_r_phase st RpDone), [])
           | _ -> tr_r_fail st)
        | _ -> tr_r_stay st)
     | TrData _ ->
       (match ph with
        | RpNum ->
          (match m with
           | TrNum n ->
             let (st', outs) =
               tr_r_next c (N.to_nat n) st.rs_st st.rs_names st.rs_sched
             in
             (st', ((TrSuccInt n) :: outs))
           | _ -> tr_r_fail st)
        | RpName ->
          (match m with
           | TrName p -> tr_r_name c dest st p
           | _ -> tr_r_fail st)
        | RpHSize (p, leaf, old) ->
          (match m with
           | TrSize n ->
             ((tr_r_phase st (RpHash (p, leaf, old, n, r_init))), [])
           | _ -> tr_r_fail st)
        | RpHash (p, leaf, old, ssize, r) ->
          (match m with
           | TrHash (step, h0) -> tr_r_hash hx st p leaf old ssize r step h0
           | TrHashOver -> tr_r_over st p leaf old ssize r
           | _ -> tr_r_fail st)
        | RpSize p ->
          (match m with
           | TrSize n -> tr_r_size c st p n
           | _ -> tr_r_fail st)
        | RpComp (p, size) ->
          (match m with
           | TrComp b ->
             ((tr_r_phase st (RpData (p, size, b, [],
                (tr_cur_sched st).sc_steps))), [])
           | _ -> tr_r_fail st)
        | RpData (p, size, cp, acc, steps) ->
          (match m with
           | TrData f -> tr_r_frame zdecomp aparse c st p size cp acc steps f
           | TrKeepAlive -> tr_r_stay st
           | _ -> tr_r_fail st)
        | RpV1 (p, size, w) ->
          (match m with
           | TrData pl -> tr_r_v1 unzl c st p size w pl
           | _ -> tr_r_fail st)
        | RpMd5 (p, w) ->
          (match m with
           | TrMd5 d -> tr_r_md5 h deq aparse c dest st p w d
           | _ -> tr_r_fail st)
        | RpExit ->
          (match m with
           | TrExit _ -> ((tr_r_phase st RpDone), [])
           | _ -> tr_r_fail st)
        | _ -> tr_r_stay st)
     | TrMd5 _ ->
       (match ph with
        | RpNum ->
          (match m with
           | TrNum n ->
             let (st', outs) =
               tr_r_next c (N.to_nat n) st.rs_st st.rs_names st.rs_sched
             in
             (st', ((TrSuccInt n) :: outs))
           | _ -> tr_r_fail st)
        | RpName ->
          (match m with
           | TrName p -> tr_r_name c dest st p
           | _ -> tr_r_fail st)
        | RpHSize (p, leaf, old) ->
          (match m with
           | TrSize n ->
             ((tr_r_phase st (RpHash (p, leaf, old, n, r_init))), [])
           | _ -> tr_r_fail st)
        | RpHash (p, leaf, old, ssize, r) ->
          (match m with
           | TrHash (step, h0) -> tr_r_hash hx st p leaf old ssize r step h0
           | TrHashOver -> tr_r_over st p leaf old ssize r
           | _ -> tr_r_fail st)
        | RpSize p ->
          (match m with
           | TrSize n -> tr_r_size c st p n
           | _ -> tr_r_fail st)
        | RpComp (p, size) ->
          (match m with
           | TrComp b ->
             ((tr_r_phase st (RpData (p, size, b, [],
                (tr_cur_sched st).sc_steps))), [])
           | _ -> tr_r_fail st)
        | RpData (p, size, cp, acc, steps) ->
          (match m with
           | TrData f -> tr_r_frame zdecomp aparse c st p size cp acc steps f
           | TrKeepAlive -> tr_r_stay st
           | _ -> tr_r_fail st)
        | RpV1 (p, size, w) ->
          (match m with
           | TrData pl -> tr_r_v1 unzl c st p size w pl
           | _ -> tr_r_fail st)
        | RpMd5 (p, w) ->
          (match m with
           | TrMd5 d -> tr_r_md5 h deq aparse c dest st p w d
           | _ -> tr_r_fail st)
        | RpExit ->
          (match m with
           | TrExit _ -> ((tr_r_phase st RpDone), [])
           | _ -> tr_r_fail st)
        | _ -> tr_r_stay st)
     | TrExit _ ->
       (match ph with
        | RpNum ->
          (match m with
           | TrNum n ->
             let (st', outs) =
               tr_r_next c (N.to_nat n) st.rs_st st.rs_names st.rs_sched
             in
             (st', ((TrSuccInt n) :: outs))
           | _ -> tr_r_fail st)
        | RpName ->
          (match m with
           | TrName p -> tr_r_name c dest st p
           | _ -> tr_r_fail st)
        | RpHSize (p, leaf, old) ->
          (match m with
           | TrSize n ->
             ((tr_r_phase st (RpHash (p, leaf, old, n, r_init))), [])
           | _ -> tr_r_fail st)
        | RpHash (p, leaf, old, ssize, r) ->
          (match m with
           | TrHash (step, h0) -> tr_r_hash hx st p leaf old ssize r step h0
           | TrHashOver -> tr_r_over st p leaf old ssize r
           | _ -> tr_r_fail st)
        | RpSize p ->
          (match m with
           | TrSize n -> tr_r_size c st p n
           | _ -> tr_r_fail st)
        | RpComp (p, size) ->
          (match m with
           | TrComp b ->
             ((tr_r_phase st (RpData (p, size, b, [],
                (tr_cur_sched st).sc_steps))), [])
           | _ -> tr_r_fail st)
        | RpData (p, size, cp, acc, steps) ->
          (match m with
           | TrData f -> tr_r_frame zdecomp aparse c st p size cp acc steps f
           | TrKeepAlive -> tr_r_stay st
           | _ -> tr_r_fail st)
        | RpV1 (p, size, w) ->
          (match m with
           | TrData pl -> tr_r_v1 unzl c st p size w pl
           | _ -> tr_r_fail st)
        | RpMd5 (p, w) ->
          (match m with
           | TrMd5 d -> tr_r_md5 h deq aparse c dest st p w d
           | _ -> tr_r_fail st)
        | RpExit ->
          (match m with
           | TrExit _ -> ((tr_r_phase st RpDone), [])
           | _ -> tr_r_fail st)
        | _ -> tr_r_stay st)
     | TrHash (_, _) ->
       (match ph with
        | RpNum ->
          (match m with
           | TrNum n ->
             let (st', outs) =
               tr_r_next c (N.to_nat n) st.rs_st st.rs_names st.rs_sched
             in
             (st', ((TrSuccInt n) :: outs))
           | _ -> tr_r_fail st)
        | RpName ->
          (match m with
           | TrName p -> tr_r_name c dest st p
           | _ -> tr_r_fail st)
        | RpHSize (p, leaf, old) ->
          (match m with
           | TrSize n ->
             ((tr_r_phase st (RpHash (p, leaf, old, n, r_init))), [])
           | _ -> tr_r_fail st)
        | RpHash (p, leaf, old, ssize, r) ->
          (match m with
           | TrHash (step, h0) -> tr_r_hash hx st p leaf old ssize r step h0
           | TrHashOver -> tr_r_over st p leaf old ssize r
           | _ -> tr_r_fail st)
        | RpSize p ->
          (match m with
           | TrSize n -> tr_r_size c st p n
           | _ -> tr_r_fail st)
        | RpComp (p, size) ->
          (match m with
           | TrComp b ->
             ((tr_r_phase st (RpData (p, size, b, [],
                (tr_cur_sched st).sc_steps))), [])
           | _ -> tr_r_fail st)
        | RpData (p, size, cp, acc, steps) ->
          (match m with
           | TrData f -> tr_r_frame zdecomp aparse c st p size cp acc steps f
           | TrKeepAlive -> tr_r_stay st
           | _ -> tr_r_fail st)
        | RpV1 (p, size, w) ->
          (match m with
           | TrData pl -> tr_r_v1 unzl c st p size w pl
           | _ -> tr_r_fail st)
        | RpMd5 (p, w) ->
          (match m with
           | TrMd5 d -> tr_r_md5 h deq aparse c dest st p w d
           | _ -> tr_r_fail st)
        | RpExit ->
          (match m with
           | TrExit _ -> ((tr_r_phase st RpDone), [])
           | _ -> tr_r_fail st)
        | _ -> tr_r_stay st)
     | TrHashOver ->
       (match ph with
        | RpNum ->
          (match m with
           | TrNum n ->
             let (st', outs) =
               tr_r_next c (N.to_nat n) st.rs_st st.rs_names st.rs_sched
             in
             (st', ((TrSuccInt n) :: outs))
           | _ -> tr_r_fail st)
        | RpName ->
          (match m with
           | TrName p -> tr_r_name c dest st p
           | _ -> tr_r_fail st)
        | RpHSize (p, leaf, old) ->
          (match m with
           | TrSize n ->
             ((tr_r_phase st (RpHash (p, leaf, old, n, r_init))), [])
           | _ -> tr_r_fail st)
        | RpHash (p, leaf, old, ssize, r) ->
          (match m with
           | TrHash (step, h0) -> tr_r_hash hx st p leaf old ssize r step h0
           | TrHashOver -> tr_r_over st p leaf old ssize r
           | _ -> tr_r_fail st)
        | RpSize p ->
          (match m with
           | TrSize n -> tr_r_size c st p n
           | _ -> tr_r_fail st)
        | RpComp (p, size) ->
          (match m with
           | TrComp b ->
             ((tr_r_phase st (RpData (p, size, b, [],
                (tr_cur_sched st).sc_steps))), [])
           | _ -> tr_r_fail st)
        | RpData (p, size, cp, acc, steps) ->
          (match m with
           | TrData f -> tr_r_frame zdecomp aparse c st p size cp acc steps f
           | TrKeepAlive -> tr_r_stay st
           | _ -> tr_r_fail st)
        | RpV1 (p, size, w) ->
          (match m with
           | TrData pl -> tr_r_v1 unzl c st p size w pl
           | _ -> tr_r_fail st)
        | RpMd5 (p, w) ->
          (match m with
           | TrMd5 d -> tr_r_md5 h deq aparse c dest st p w d
           | _ -> tr_r_fail st)
        | RpExit ->
          (match m with
           | TrExit _ -> ((tr_r_phase st RpDone), [])
           | _ -> tr_r_fail st)
        | _ -> tr_r_stay st)
     | TrSuccInt _ ->
       (match ph with
        | RpNum ->
          (match m with
           | TrNum n ->
             let (st', outs) =
               tr_r_next c (N.to_nat n) st.rs_st st.rs_names st.rs_sched
             in
             (st', ((TrSuccInt n) :: outs))
           | _ -> tr_r_fail st)
        | RpName ->
          (match m with
           | TrName p -> tr_r_name c dest st p
           | _ -> tr_r_fail st)
        | RpHSize (p, leaf, old) ->
          (match m with
           | TrSize n ->
             ((tr_r_phase st (RpHash (p, leaf, old, n, r_init))), [])
           | _ -> tr_r_fail st)
        | RpHash (p, leaf, old, ssize, r) ->
          (match m with
           | TrHash (step, h0) -> tr_r_hash hx st p leaf old ssize r step h0
           | TrHashOver -> tr_r_over st p leaf old ssize r
           | _ -> tr_r_fail st)
        | RpSize p ->
          (match m with
           | TrSize n -> tr_r_size c st p n
           | _ -> tr_r_fail st)
        | RpComp (p, size) ->
          (match m with
           | TrComp b ->
             ((tr_r_phase st (RpData (p, size, b, [],
                (tr_cur_sched st).sc_steps))), [])
           | _ -> tr_r_fail st)
        | RpData (p, size, cp, acc, steps) ->
          (match m with
           | TrData f -> tr_r_frame zdecomp aparse c st p size cp acc steps f
           | TrKeepAlive -> tr_r_stay st
           | _ -> tr_r_fail st)
        | RpV1 (p, size, w) ->
          (match m with
           | TrData pl -> tr_r_v1 unzl c st p size w pl
           | _ -> tr_r_fail st)
        | RpMd5 (p, w) ->
          (match m with
           | TrMd5 d -> tr_r_md5 h deq aparse c dest st p w d
           | _ -> tr_r_fail st)
        | RpExit ->
          (match m with
           | TrExit _ -> ((tr_r_phase st RpDone), [])
           | _ -> tr_r_fail st)
        | _ -> tr_r_stay st)
     | TrSuccName _ ->
       (match ph with
        | RpNum ->
          (match m with
           | TrNum n ->
             let (st', outs) =
               tr_r_next c (N.to_nat n) st.rs_st st.rs_names st.rs_sched
             in
             (st', ((TrSuccInt n) :: outs))
           | _ -> tr_r_fail st)
        | RpName ->
          (match m with
           | TrName p -> tr_r_name c dest st p
           | _ -> tr_r_fail st)
        | RpHSize (p, leaf, old) ->
          (match m with
           | TrSize n ->
             ((tr_r_phase st (RpHash (p, leaf, old, n, r_init))), [])
           | _ -> tr_r_fail st)
        | RpHash (p, leaf, old, ssize, r) ->
          (match m with
           | TrHash (step, h0) -> tr_r_hash hx st p leaf old ssize r step h0
           | TrHashOver -> tr_r_over st p leaf old ssize r
           | _ -> tr_r_fail st)
        | RpSize p ->
          (match m with
           | TrSize n -> tr_r_size c st p n
           | _ -> tr_r_fail st)
        | RpComp (p, size) ->
          (match m with
           | TrComp b ->
             ((tr_r_phase st (RpData (p, size, b, [],
                (tr_cur_sched st).sc_steps))), [])
           | _ -> tr_r_fail st)
        | RpData (p, size, cp, acc, steps) ->
          (match m with
           | TrData f -> tr_r_frame zdecomp aparse c st p size cp acc steps f
           | TrKeepAlive -> tr_r_stay st
           | _ -> tr_r_fail st)
        | RpV1 (p, size, w) ->
          (match m with
           | TrData pl -> tr_r_v1 unzl c st p size w pl
           | _ -> tr_r_fail st)
        | RpMd5 (p, w) ->
          (match m with
           | TrMd5 d -> tr_r_md5 h deq aparse c dest st p w d
           | _ -> tr_r_fail st)
        | RpExit ->
          (match m with
           | TrExit _ -> ((tr_r_phase st RpDone), [])
           | _ -> tr_r_fail st)
        | _ -> tr_r_stay st)
     | TrSuccTarget (_, _) ->
       (match ph with
        | RpNum ->
          (match m with
           | TrNum n ->
             let (st', outs) =
               tr_r_next c (N.to_nat n) st.rs_st st.rs_names st.rs_sched
             in
             (st', ((TrSuccInt n) :: outs))
           | _ -> tr_r_fail st)
        | RpName ->
          (match m with
           | TrName p -> tr_r_name c dest st p
           | _ -> tr_r_fail st)
        | RpHSize (p, leaf, old) ->
          (match m with
           | TrSize n ->
             ((tr_r_phase st (RpHash (p, leaf, old, n, r_init))), [])
           | _ -> tr_r_fail st)
        | RpHash (p, leaf, old, ssize, r) ->
          (match m with
           | TrHash (step, h0) -> tr_r_hash hx st p leaf old ssize r step h0
           | TrHashOver -> tr_r_over st p leaf old ssize r
           | _ -> tr_r_fail st)
        | RpSize p ->
          (match m with
           | TrSize n -> tr_r_size c st p n
           | _ -> tr_r_fail st)
        | RpComp (p, size) ->
          (match m with
           | TrComp b ->
             ((tr_r_phase st (RpData (p, size, b, [],
                (tr_cur_sched st).sc_steps))), [])
           | _ -> tr_r_fail st)
        | RpData (p, size, cp, acc, steps) ->
          (match m with
           | TrData f -> tr_r_frame zdecomp aparse c st p size cp acc steps f
           | TrKeepAlive -> tr_r_stay st
           | _ -> tr_r_fail st)
        | RpV1 (p, size, w) ->
          (match m with
           | TrData pl -> tr_r_v1 unzl c st p size w pl
           | _ -> tr_r_fail st)
        | RpMd5 (p, w) ->
          (match m with
           | TrMd5 d -> tr_r_md5 h deq aparse c dest st p w d
           | _ -> tr_r_fail st)
        | RpExit ->
          (match m with
           | TrExit _ -> ((tr_r_phase st RpDone), [])
           | _ -> tr_r_fail st)
        | _ -> tr_r_stay st)
     | TrSuccAck (_, _) ->
       (match ph with
        | RpNum ->
          (match m with
           | TrNum n ->
             let (st', outs) =
               tr_r_next c (N.to_nat n) st.rs_st st.rs_names st.rs_sched
             in
             (st', ((TrSuccInt n) :: outs))
           | _ -> tr_r_fail st)
        | RpName ->
          (match m with
           | TrName p -> tr_r_name c dest st p
           | _ -> tr_r_fail st)
        | RpHSize (p, leaf, old) ->
          (match m with
           | TrSize n ->
             ((tr_r_phase st (RpHash (p, leaf, old, n, r_init))), [])
           | _ -> tr_r_fail st)
        | RpHash (p, leaf, old, ssize, r) ->
          (match m with
           | TrHash (step, h0) -> tr_r_hash hx st p leaf old ssize r step h0
           | TrHashOver -> tr_r_over st p leaf old ssize r
           | _ -> tr_r_fail st)
        | RpSize p ->
          (match m with
           | TrSize n -> tr_r_size c st p n
           | _ -> tr_r_fail st)
        | RpComp (p, size) ->
          (match m with
           | TrComp b ->
             ((tr_r_phase st (RpData (p, size, b, [],
                (tr_cur_sched st).sc_steps))), [])
           | _ -> tr_r_fail st)
        | RpData (p, size, cp, acc, steps) ->
          (match m with
           | TrData f -> tr_r_frame zdecomp aparse c st p size cp acc steps f
           | TrKeepAlive -> tr_r_stay st
           | _ -> tr_r_fail st)
        | RpV1 (p, size, w) ->
          (match m with
           | TrData pl -> tr_r_v1 unzl c st p size w pl
           | _ -> tr_r_fail st)
        | RpMd5 (p, w) ->
          (match m with
           | TrMd5 d -> tr_r_md5 h deq aparse c dest st p w d
           | _ -> tr_r_fail st)
        | RpExit ->
          (match m with
           | TrExit _ -> ((tr_r_phase st RpDone), [])
           | _ -> tr_r_fail st)
        | _ -> tr_r_stay st)
     | TrSuccDigest _ ->
       (match ph with
        | RpNum ->
          (match m with
           | TrNum n ->
             let (st', outs) =
               tr_r_next c (N.to_nat n) st.rs_st st.rs_names st.rs_sched
             in
             (st', ((TrSuccInt n) :: outs))
           | _ -> tr_r_fail st)
        | RpName ->
          (match m with
           | TrName p -> tr_r_name c dest st p
           | _ -> tr_r_fail st)
        | RpHSize (p, leaf, old) ->
          (match m with
           | TrSize n ->
             ((tr_r_phase st (RpHash (p, leaf, old, n, r_init))), [])
           | _ -> tr_r_fail st)
        | RpHash (p, leaf, old, ssize, r) ->
          (match m with
           | TrHash (step, h0) -> tr_r_hash hx st p leaf old ssize r step h0
           | TrHashOver -> tr_r_over st p leaf old ssize r
           | _ -> tr_r_fail st)
        | RpSize p ->
          (match m with
           | TrSize n -> tr_r_size c st p n
           | _ -> tr_r_fail st)
        | RpComp (p, size) ->
          (match m with
           | TrComp b ->
             ((tr_r_phase st (RpData (p, size, b, [],
                (tr_cur_sched st).sc_steps))), [])
           | _ -> tr_r_fail st)
        | RpData (p, size, cp, acc, steps) ->
          (match m with
           | TrData f -> tr_r_frame zdecomp aparse c st p size cp acc steps f
           | TrKeepAlive -> tr_r_stay st
           | _ -> tr_r_fail st)
        | RpV1 (p, size, w) ->
          (match m with
           | TrData pl -> tr_r_v1 unzl c st p size w pl
           | _ -> tr_r_fail st)
        | RpMd5 (p, w) ->
          (match m with
           | TrMd5 d -> tr_r_md5 h deq aparse c dest st p w d
           | _ -> tr_r_fail st)
        | RpExit ->
          (match m with
           | TrExit _ -> ((tr_r_phase st RpDone), [])
           | _ -> tr_r_fail st)
        | _ -> tr_r_stay st)
     | TrSuccHack (_, _) ->
       (match ph with
        | RpNum ->
          (match m with
           | TrNum n ->
             let (st', outs) =
               tr_r_next c (N.to_nat n) st.rs_st st.rs_names st.rs_sched
             in
             (st', ((TrSuccInt n) :: outs))
           | _ -> tr_r_fail st)
        | RpName ->
          (match m with
           | TrName p -> tr_r_name c dest st p
           | _ -> tr_r_fail st)
        | RpHSize (p, leaf, old) ->
          (match m with
           | TrSize n ->
             ((tr_r_phase st (RpHash (p, leaf, old, n, r_init))), [])
           | _ -> tr_r_fail st)
        | RpHash (p, leaf, old, ssize, r) ->
          (match m with
           | TrHash (step, h0) -> tr_r_hash hx st p leaf old ssize r step h0
           | TrHashOver -> tr_r_over st p leaf old ssize r
           | _ -> tr_r_fail st)
        | RpSize p ->
          (match m with
           | TrSize n -> tr_r_size c st p n
           | _ -> tr_r_fail st)
        | RpComp (p, size) ->
          (match m with
           | TrComp b ->
             ((tr_r_phase st (RpData (p, size, b, [],
                (tr_cur_sched st).sc_steps))), [])
           | _ -> tr_r_fail st)
        | RpData (p, size, cp, acc, steps) ->
          (match m with
           | TrData f -> tr_r_frame zdecomp aparse c st p size cp acc steps f
           | TrKeepAlive -> tr_r_stay st
           | _ -> tr_r_fail st)
        | RpV1 (p, size, w) ->
          (match m with
           | TrData pl -> tr_r_v1 unzl c st p size w pl
           | _ -> tr_r_fail st)
        | RpMd5 (p, w) ->
          (match m with
           | TrMd5 d -> tr_r_md5 h deq aparse c dest st p w d
           | _ -> tr_r_fail st)
        | RpExit ->
          (match m with
           | TrExit _ -> ((tr_r_phase st RpDone), [])
           | _ -> tr_r_fail st)
        | _ -> tr_r_stay st)
     | TrKeepAlive ->
       (match ph with
        | RpNum ->
          (match m with
           | TrNum n ->
             let (st', outs) =
               tr_r_next c (N.to_nat n) st.rs_st st.rs_names st.rs_sched
             in
             (st', ((TrSuccInt n) :: outs))
           | _ -> tr_r_fail st)
        | RpName ->
          (match m with
           | TrName p -> tr_r_name c dest st p
           | _ -> tr_r_fail st)
        | RpHSize (p, leaf, old) ->
          (match m with
           | TrSize n ->
             ((tr_r_phase st (RpHash (p, leaf, old, n, r_init))), [])
           | _ -> tr_r_fail st)
        | RpHash (p, leaf, old, ssize, r) ->
          (match m with
           | TrHash (step, h0) -> tr_r_hash hx st p leaf old ssize r step h0
           | TrHashOver -> tr_r_over st p leaf old ssize r
           | _ -> tr_r_fail st)
        | RpSize p ->
          (match m with
           | TrSize n -> tr_r_size c st p n
           | _ -> tr_r_fail st)
        | RpComp (p, size) ->
          (match m with
           | TrComp b ->
             ((tr_r_phase st (RpData (p, size, b, [],
                (tr_cur_sched st).sc_steps))), [])
           | _ -> tr_r_fail st)
        | RpData (p, size, cp, acc, steps) ->
          (match m with
           | TrData f -> tr_r_frame zdecomp aparse c st p size cp acc steps f
           | TrKeepAlive -> tr_r_stay st
           | _ -> tr_r_fail st)
        | RpV1 (p, size, w) ->
          (match m with
           | TrData pl -> tr_r_v1 unzl c st p size w pl
           | _ -> tr_r_fail st)
        | RpMd5 (p, w) ->
          (match m with
           | TrMd5 d -> tr_r_md5 h deq aparse c dest st p w d
           | _ -> tr_r_fail st)
        | RpExit ->
          (match m with
           | TrExit _ -> ((tr_r_phase st RpDone), [])
           | _ -> tr_r_fail st)
        | _ -> tr_r_stay st)
     | TrFail -> ((tr_r_phase st RpFail), []))
  | RpName ->
    let ph = RpName in
    (match m with
     | TrNum _ ->
       (match ph with
        | RpNum ->
          (match m with
           | TrNum n ->
             let (st', outs) =
               tr_r_next c (N.to_nat n) st.rs_st st.rs_names st.rs_sched
             in
             (st', ((TrSuccInt n) :: outs))
           | _ -> tr_r_fail st)
        | RpName ->
          (match m with
           | TrName p -> tr_r_name c dest st p
           | _ -> tr_r_fail st)
        | RpHSize (p, leaf, old) ->
          (match m with
           | TrSize n ->
             ((tr_r_phase st (RpHash (p, leaf, old, n, r_init))), [])
           | _ -> tr_r_fail st)
        | RpHash (p, leaf, old, ssize, r) ->
          (match m with
           | TrHash (step, h0) -> tr_r_hash hx st p leaf old ssize r step h0
           | TrHashOver -> tr_r_over st p leaf old ssize r
           | _ -> tr_r_fail st)
        | RpSize p ->
          (match m with
           | TrSize n -> tr_r_size c st p n
           | _ -> tr_r_fail st)
        | RpComp (p, size) ->
          (match m with
           | TrComp b ->
             ((tr_r_phase st (RpData (p, size, b, [],
                (tr_cur_sched st).sc_steps))), [])
           | _ -> tr_r_fail st)
        | RpData (p, size, cp, acc, steps) ->
          (match m with
           | TrData f -> tr_r_frame zdecomp aparse c st p size cp acc steps f
           | TrKeepAlive -> tr_r_stay st
           | _ -> tr_r_fail st)
        | RpV1 (p, size, w) ->
          (match m with
           | TrData pl -> tr_r_v1 unzl c st p size w pl
           | _ -> tr_r_fail st)
        | RpMd5 (p, w) ->
          (match m with
           | TrMd5 d -> tr_r_md5 h deq aparse c dest st p w d
           | _ -> tr_r_fail st)
        | RpExit ->
          (match m with
           | TrExit _ -> ((tr_r_phase st RpDone), [])
           | _ -> tr_r_fail st)
        | _ -> tr_r_stay st)
     | TrName _ ->
       (match ph with
        | RpNum ->
          (match m with
           | TrNum n ->
             let (st', outs) =
               tr_r_next c (N.to_nat n) st.rs_st st.rs_names st.rs_sched
             in
             (st', ((TrSuccInt n) :: outs))
           | _ -> tr_r_fail st)
        | RpName ->
          (match m with
           | TrName p -> tr_r_name c dest st p
           | _ -> tr_r_fail st)
        | RpHSize (p, leaf, old) ->
          (match m with
           | TrSize n ->
             ((tr_r_phase st (RpHash (p, leaf, old, n, r_init))), [])
           | _ -> tr_r_fail st)
        | RpHash (p, leaf, old, ssize, r) ->
          (match m with
           | TrHash (step, h0) -> tr_r_hash hx st p leaf old ssize r step h0
           | TrHashOver -> tr_r_over st p leaf old ssize r
           | _ -> tr_r_fail st)
        | RpSize p ->
          (match m with
           | TrSize n -> tr_r_size c st p n
           | _ -> tr_r_fail st)
        | RpComp (p, size) ->
          (match m with
           | TrComp b ->
             ((tr_r_phase st (RpData (p, size, b, [],
                (tr_cur_sched st).sc_steps))), [])
           | _ -> tr_r_fail st)
        | RpData (p, size, cp, acc, steps) ->
          (match m with
           | TrData f -> tr_r_frame zdecomp aparse c st p size cp acc steps f
           | TrKeepAlive -> tr_r_stay st
           | _ -> tr_r_fail st)
        | RpV1 (p, size, w) ->
          (match m with
           | TrData pl -> tr_r_v1 unzl c st p size w pl
           | _ -> tr_r_fail st)
        | RpMd5 (p, w) ->
          (match m with
           | TrMd5 d -> tr_r_md5 h deq aparse c dest st p w d
           | _ -> tr_r_fail st)
        | RpExit ->
          (match m with
           | TrExit _ -> ((tr_r_phase st RpDone), [])
           | _ -> tr_r_fail st)
        | _ -> tr_r_stay st)
     | TrSize _ ->
       (match ph with
        | RpNum ->
          (match m with
           | TrNum n ->
             let (st', outs) =
               tr_r_next c (N.to_nat n) st.rs_st st.rs_names st.rs_sched
             in
             (st', ((TrSuccInt n) :: outs))
           | _ -> tr_r_fail st)
        | RpName ->
          (match m with
           | TrName p -> tr_r_name c dest st p
           | _ -> tr_r_fail st)
        | RpHSize (p, leaf, old) ->
          (match m with
           | TrSize n ->
             ((tr_r_phase st (RpHash (p, leaf, old, n, r_init))), [])
           | _ -> tr_r_fail st)
        | RpHash (p, leaf, old, ssize, r) ->
          (match m with
           | TrHash (step, h0) -> tr_r_hash hx st p leaf old ssize r step h0
           | TrHashOver -> tr_r_over st p leaf old ssize r
           | _ -> tr_r_fail st)
        | RpSize p ->
          (match m with
           | TrSize n -> tr_r_size c st p n
           | _ -> tr_r_fail st)
        | RpComp (p, size) ->
          (match m with
           | TrComp b ->
             ((tr_r_phase st (RpData (p, size, b, [],
                (tr_cur_sched st).sc_steps))), [])
           | _ -> tr_r_fail st)
        | RpData (p, size, cp, acc, steps) ->
          (match m with
           | TrData f -> tr_r_frame zdecomp aparse c st p size cp acc steps f
           | TrKeepAlive -> tr_r_stay st
           | _ -> tr_r_fail st)
        | RpV1 (p, size, w) ->
          (match m with
           | TrData pl -> tr_r_v1 unzl c st p size w pl
           | _ -> tr_r_fail st)
        | RpMd5 (p, w) ->
          (match m with
           | TrMd5 d -> tr_r_md5 h deq aparse c dest st p w d
           | _ -> tr_r_fail st)
        | RpExit ->
          (match m with
           | TrExit _ -> ((tr_r_phase st RpDone), [])
           | _ -> tr_r_fail st)
        | _ -> tr_r_stay st)
     | TrComp _ ->
       (match ph with
        | RpNum ->
          (match m with
           | TrNum n ->
             let (st', outs) =
               tr_r_next c (N.to_nat n) st.rs_st st.rs_names st.rs_sched
             in
             (st', ((TrSuccInt n) :: outs))
           | _ -> tr_r_fail st)
        | RpName ->
          (match m with
           | TrName p -> tr_r_name c dest st p
           | _ -> tr_r_fail st)
        | RpHSize (p, leaf, old) ->
          (match m with
           | TrSize n ->
             ((tr_r_phase st (RpHash (p, leaf, old, n, r_init))), [])
           | _ -> tr_r_fail st)
        | RpHash (p, leaf, old, ssize, r) ->
          (match m with
           | TrHash (step, h0) -> tr_r_hash hx st p leaf old ssize r step h0
           | TrHashOver -> tr_r_over st p leaf old ssize r
           | _ -> tr_r_fail st)
        | RpSize p ->
          (match m with
           | TrSize n -> tr_r_size c st p n
           | _ -> tr_r_fail st)
        | RpComp (p, size) ->
          (match m with
           | TrComp b ->
             ((tr_r_phase st (RpData (p, size, b, [],
                (tr_cur_sched st).sc_steps))), [])
           | _ -> tr_r_fail st)
        | RpData (p, size, cp, acc, steps) ->
          (match m with
           | TrData f -> tr_r_frame zdecomp aparse c st p size cp acc steps f
           | TrKeepAlive -> tr_r_stay st
           | _ -> tr_r_fail st)
        | RpV1 (p, size, w) ->
          (match m with
           | TrData pl -> tr_r_v1 unzl c st p size w pl
           | _ -> tr_r_fail st)
        | RpMd5 (p, w) ->
          (match m with
           | TrMd5 d -> tr_r_md5 h deq aparse c dest st p w d
           | _ -> tr_r_fail st)
        | RpExit ->
          (match m with
           | TrExit _ -> ((tr_r_phase st RpDone), [])
           | _ -> tr_r_fail st)
        | _ -> tr_r_stay st)
     | TrData _ ->
       (match ph with
        | RpNum ->
          (match m with
           | TrNum n ->
             let (st', outs) =
               tr_r_next c (N.to_nat n) st.rs_st st.rs_names st.rs_sched
             in
             (st', ((TrSuccInt n) :: outs))
           | _ -> tr_r_fail st)
        | RpName ->
          (match m with
           | TrName p -> tr_r_name c dest st p
           | _ -> tr_r_fail st)
        | RpHSize (p, leaf, old) ->
          (match m with
           | TrSize n ->
             ((tr_r_phase st (RpHash (p, leaf, old, n, r_init))), [])
           | _ -> tr_r_fail st)
        | RpHash (p, leaf, old, ssize, r) ->
          (match m with
           | TrHash (step, h0) -> tr_r_hash hx st p leaf old ssize r step h0
           | TrHashOver -> tr_r_over st p leaf old ssize r
           | _ -> tr_r_fail st)
        | RpSize p ->
          (match m with
           | TrSize n -> tr_r_size c st p n
           | _ -> tr_r_fail st)
        | RpComp (p, size) ->
          (match m with
           | TrComp b ->
             ((tr_r_phase st (RpData (p, size, b, [],
                (tr_cur_sched st).sc_steps))), [])
           | _ -> tr_r_fail st)
        | RpData (p, size, cp, acc, steps) ->
          (match m with
           | TrData f -> tr_r_frame zdecomp aparse c st p size cp acc steps f
           | TrKeepAlive -> tr_r_stay st
           | _ -> tr_r_fail st)
        | RpV1 (p, size, w) ->
          (match m with
           | TrData pl -> tr_r_v1 unzl c st p size w pl
           | _ -> tr_r_fail st)
        | RpMd5 (p, w) ->
          (match m with
           | TrMd5 d -> tr_r_md5 h deq aparse c dest st p w d
           | _ -> tr_r_fail st)
        | RpExit ->
          (match m with
           | TrExit _ -> ((tr_r_phase st RpDone), [])
           | _ -> tr_r_fail st)
        | _ -> tr_r_stay st)
     | TrMd5 _ ->
       (match ph with
        | RpNum ->
          (match m with
           | TrNum n ->
             let (st', outs) =
               tr_r_next c (N.to_nat n) st.rs_st st.rs_names st.rs_sched
             in
             (st', ((TrSuccInt n) :: outs))
           | _ -> tr_r_fail st)
        | RpName ->
          (match m with
           | TrName p -> tr_r_name c dest st p
           | _ -> tr_r_fail st)
        | RpHSize (p, leaf, old) ->
          (match m with
           | TrSize n ->
             ((tr_r_phase st (RpHash (p, leaf, old, n, r_init))), [])
           | _ -> tr_r_fail st)
        | RpHash (p, leaf, old, ssize, r) ->
          (match m with
           | TrHash (step, h0) -> tr_r_hash hx st p leaf old ssize r step h0
           | TrHashOver -> tr_r_over st p leaf old ssize r
           | _ -> tr_r_fail st)
        | RpSize p ->
          (match m with
           | TrSize n -> tr_r_size c st p n
           | _ -> tr_r_fail st)
        | RpComp (p, size) ->
          (match m with
           | TrComp b ->
             ((tr_r_phase st (RpData (p, size, b, [],
                (tr_cur_sched st).sc_steps))), [])
           | _ -> tr_r_fail st)
        | RpData (p, size, cp, acc, steps) ->
          (match m with
           | TrData f -> tr_r_frame zdecomp aparse c st p size cp acc steps f
           | TrKeepAlive -> tr_r_stay st
           | _ -> tr_r_fail st)
        | RpV1 (p, size, w) ->
          (match m with
           | TrData pl -> tr_r_v1 unzl c st p size w pl
           | _ -> tr_r_fail st)
        | RpMd5 (p, w) ->
          (match m with
           | TrMd5 d -> tr_r_md5 h deq aparse c dest st p w d
           | _ -> tr_r_fail st)
        | RpExit ->
          (match m with
           | TrExit _ -> ((tr_r_phase st RpDone), [])
           | _ -> tr_r_fail st)
        | _ -> tr_r_stay st)
     | TrExit _ ->
       (match ph with
        | RpNum ->
          (match m with
           | TrNum n ->
             let (st', outs) =
               tr_r_next c (N.to_nat n) st.rs_st st.rs_names st.rs_sched
             in
             (st', ((TrSuccInt n) :: outs))
           | _ -> tr_r_fail st)
        | RpName ->
          (match m with
           | TrName p -> tr_r_name c dest st p
           | _ -> tr_r_fail st)
        | RpHSize (p, leaf, old) ->
          (match m with
           | TrSize n ->
             ((tr_r_phase st (RpHash (p, leaf, old, n, r_init))), [])
           | _ -> tr_r_fail st)
        | RpHash (p, leaf, old, ssize, r) ->
          (match m with
           | TrHash (step, h0) -> tr_r_hash hx st p leaf old ssize r step h0
           | TrHashOver -> tr_r_over st p leaf old ssize r
           | _ -> tr_r_fail st)
        | RpSize p ->
          (match m with
           | TrSize n -> tr_r_size c st p n
           | _ -> tr_r_fail st)
        | RpComp (p, size) ->
          (match m with
           | TrComp b ->
             ((tr_r_phase st (RpData (p, size, b, [],
                (tr_cur_sched st).sc_steps))), [])
           | _ -> tr_r_fail st)
        | RpData (p, size, cp, acc, steps) ->
          (match m with
           | TrData f -> tr_r_frame zdecomp aparse c st p size cp acc steps f
           | TrKeepAlive -> tr_r_stay st
           | _ -> tr_r_fail st)
        | RpV1 (p, size, w) ->
          (match m with
           | TrData pl -> tr_r_v1 unzl c st p size w pl
           | _ -> tr_r_fail st)
        | RpMd5 (p, w) ->
          (match m with
           | TrMd5 d -> tr_r_md5 h deq aparse c dest st p w d
           | _ -> tr_r_fail st)
        | RpExit ->
          (match m with
           | TrExit _ -> ((tr_r_phase st RpDone), [])
           | _ -> tr_r_fail st)
        | _ -> tr_r_stay st)
     | TrHash (_, _) ->
       (match ph with
        | RpNum ->
          (match m with
           | TrNum n ->
             let (st', outs) =
               tr_r_next c (N.to_nat n) st.rs_st st.rs_names st.rs_sched
             in
             (st', ((TrSuccInt n) :: outs))
           | _ -> tr_r_fail st)
        | RpName ->
          (match m with
           | TrName p -> tr_r_name c dest st p
           | _ -> tr_r_fail st)
        | RpHSize (p, leaf, old) ->
          (match m with
           | TrSize n ->
             ((tr_r_phase st (RpHash (p, leaf, old, n, r_init))), [])
           | _ -> tr_r_fail st)
        | RpHash (p, leaf, old, ssize, r) ->
          (match m with
           | TrHash (step, h0) -> tr_r_hash hx st p leaf old ssize r step h0
           | TrHashOver -> tr_r_over st p leaf old ssize r
           | _ -> tr_r_fail st)
        | RpSize p ->
          (match m with
           | TrSize n -> tr_r_size c st p n
           | _ -> tr_r_fail st)
        | RpComp (p, size) ->
          (match m with
           | TrComp b ->
             ((tr_r_phase st (RpData (p, size, b, [],
                (tr_cur_sched st).sc_steps))), [])
           | _ -> tr_r_fail st)
        | RpData (p, size, cp, acc, steps) ->
          (match m with
           | TrData f -> tr_r_frame zdecomp aparse c st p size cp acc steps f
           | TrKeepAlive -> tr_r_stay st
           | _ -> tr_r_fail st)
        | RpV1 (p, size, w) ->
          (match m with
           | TrData pl -> tr_r_v1 unzl c st p size w pl
           | _ -> tr_r_fail st)
        | RpMd5 (p, w) ->
          (match m with
           | TrMd5 d -> tr_r_md5 h deq aparse c dest st p w d
           | _ -> tr_r_fail st)
        | RpExit ->
          (match m with
           | TrExit _ -> ((tr_r_phase st RpDone), [])
           | _ -> tr_r_fail st)
        | _ -> tr_r_stay st)
     | TrHashOver ->
       (match ph with
        | RpNum ->
          (match m with
           | TrNum n ->
             let (st', outs) =
               tr_r_next c (N.to_nat n) st.rs_st st.rs_names st.rs_sched
             in
             (st', ((TrSuccInt n) :: outs))
           | _ -> tr_r_fail st)
        | RpName ->
          (match m with
           | TrName p -> tr_r_name c dest st p
           | _ -> tr_r_fail st)
        | RpHSize (p, leaf, old) ->
          (match m with
           | TrSize n ->
             ((tr_r_phase st (RpHash (p, leaf, old, n, r_init))), [])
           | _ -> tr_r_fail st)
        | RpHash (p, leaf, old, ssize, r) ->
          (match m with
           | TrHash (step, h0) -> tr_r_hash hx st p leaf old ssize r step h0
           | TrHashOver -> tr_r_over st p leaf old ssize r
           | _ -> tr_r_fail st)
        | RpSize p ->
          (match m with
           | TrSize n -> tr_r_size c st p n
           | _ -> tr_r_fail st)
        | RpComp (p, size) ->
          (match m with
           | TrComp b ->
             ((tr_r_phase st (RpData (p, size, b, [],
                (tr_cur_sched st).sc_steps))), [])
           | _ -> tr_r_fail st)
        | RpData (p, size, cp, acc, steps) ->
          (match m with
           | TrData f -> tr_r_frame zdecomp aparse c st p size cp acc steps f
           | TrKeepAlive -> tr_r_stay st
           | _ -> tr_r_fail st)
        | RpV1 (p, size, w) ->
          (match m with
           | TrData pl -> tr_r_v1 unzl c st p size w pl
           | _ -> tr_r_fail st)
        | RpMd5 (p, w) ->
          (match m with
           | TrMd5 d -> tr_r_md5 h deq aparse c dest st p w d
           | _ -> tr_r_fail st)
        | RpExit ->
          (match m with
           | TrExit _ -> ((tr_r_phase st RpDone), [])
           | _ -> tr_r_fail st)
        | _ -> tr_r_stay st)
     | TrSuccInt _ ->
       (match ph with
        | RpNum ->
          (match m with
           | TrNum n ->
             let (st', outs) =
               tr_r_next c (N.to_nat n) st.rs_st st.rs_names st.rs_sched
             in
             (st', ((TrSuccInt n) :: outs))
           | _ -> tr_r_fail st)
        | RpName ->
          (match m with
           | TrName p -> tr_r_name c dest st p
           | _ -> tr_r_fail st)
        | RpHSize (p, leaf, old) ->
          (match m with
           | TrSize n ->
             ((tr_r_phase st (RpHash (p, leaf, old, n, r_init))), [])
           | _ -> tr_r_fail st)
        | RpHash (p, leaf, old, ssize, r) ->
          (match m with
           | TrHash (step, h0) -> tr_r_hash hx st p leaf old ssize r step h0
           | TrHashOver -> tr_r_over st p leaf old ssize r
           | _ -> tr_r_fail st)
        | RpSize p ->
          (match m with
           | TrSize n -> tr_r_size c st p n
           | _ -> tr_r_fail st)
        | RpComp (p, size) ->
          (match m with
           | TrComp b ->
             ((tr_r_phase st (RpData (p, size, b, [],
                (tr_cur_sched st).sc_steps))), [])
           | _ -> tr_r_fail st)
        | RpData (p, size, cp, acc, steps) ->
          (match m with
           | TrData f -> tr_r_frame zdecomp aparse c st p size cp acc steps f
           | TrKeepAlive -> tr_r_stay st
           | _ -> tr_r_fail st)
        | RpV1 (p, size, w) ->
          (match m with
           | TrData pl -> tr_r_v1 unzl c st p size w pl
           | _ -> tr_r_fail st)
        | RpMd5 (p, w) ->
          (match m with
           | TrMd5 d -> tr_r_md5 h deq aparse c dest st p w d
           | _ -> tr_r_fail st)
        | RpExit ->
          (match m with
           | TrExit _ -> ((tr_r_phase st RpDone), [])
           | _ -> tr_r_fail st)
        | _ -> tr_r_stay st)
     | TrSuccName _ ->
       (match ph with
        | RpNum ->
          (match m with
           | TrNum n ->
             let (st', outs) =
               tr_r_next c (N.to_nat n) st.rs_st st.rs_names st.rs_sched
             in
             (st', ((TrSuccInt n) :: outs))
           | _ -> tr_r_fail st)
        | RpName ->
          (match m with
           | TrName p -> tr_r_name c dest st p
           | _ -> tr_r_fail st)
        | RpHSize (p, leaf, old) ->
          (match m with
           | TrSize n ->
             ((tr_r_phase st (RpHash (p, leaf, old, n, r_init))), [])
           | _ -> tr_r_fail st)
        | RpHash (p, leaf, old, ssize, r) ->
          (match m with
           | TrHash (step, h0) -> tr_r_hash hx st p leaf old ssize r step h0
           | TrHashOver -> tr_r_over st p leaf old ssize r
           | _ -> tr_r_fail st)
        | RpSize p ->
          (match m with
           | TrSize n -> tr_r_size c st p n
           | _ -> tr_r_fail st)
        | RpComp (p, size) ->
          (match m with
           | TrComp b ->
             ((tr_r_phase st (RpData (p, size, b, [],
                (tr_cur_sched st).sc_steps))), [])
           | _ -> tr_r_fail st)
        | RpData (p, size, cp, acc, steps) ->
          (match m with
           | TrData f -> tr_r_frame zdecomp aparse c st p size cp acc steps f
           | TrKeepAlive -> tr_r_stay st
           | _ -> tr_r_fail st)
        | RpV1 (p, size, w) ->
          (match m with
           | TrData pl -> tr_r_v1 unzl c st p size w pl
           | _ -> tr_r_fail st)
        | RpMd5 (p, w) ->
          (match m with
           | TrMd5 d -> tr_r_md5 h deq aparse c dest st p w d
           | _ -> tr_r_fail st)
        | RpExit ->
          (match m with
           | TrExit _ -> ((tr_r_phase st RpDone), [])
           | _ -> tr_r_fail st)
        | _ -> tr_r_stay st)
     | TrSuccTarget (_, _) ->
       (match ph with
        | RpNum ->
          (match m with
           | TrNum n ->
             let (st', outs) =
               tr_r_next c (N.to_nat n) st.rs_st st.rs_names st.rs_sched
             in
             (st', ((TrSuccInt n) :: outs))
           | _ -> tr_r_fail st)
        | RpName ->
          (match m with
           | TrName p -> tr_r_name c dest st p
           | _ -> tr_r_fail st)
        | RpHSize (p, leaf, old) ->
          (match m with
           | TrSize n ->
             ((tr_r_phase st (RpHash (p, leaf, old, n, r_init))), [])
           | _ -> tr_r_fail st)
        | RpHash (p, leaf, old, ssize, r) ->
          (match m with
           | TrHash (step, h0) -> tr_r_hash hx st p leaf old ssize r step h0
           | TrHashOver -> tr_r_over st p leaf old ssize r
           | _ -> tr_r_fail st)
        | RpSize p ->
          (match m with
           | TrSize n -> tr_r_size c st p n
           | _ -> tr_r_fail st)
        | RpComp (p, size) ->
          (match m with
           | TrComp b ->
             ((tr_r_phase st (RpData (p, size, b, [],
                (tr_cur_sched st).sc_steps))), [])
           | _ -> tr_r_fail st)
        | RpData (p, size, cp, acc, steps) ->
          (match m with
           | TrData f -> tr_r_frame zdecomp aparse c st p size cp acc steps f
           | TrKeepAlive -> tr_r_stay st
           | _ -> tr_r_fail st)
        | RpV1 (p, size, w) ->
          (match m with
           | TrData pl -> tr_r_v1 unzl c st p size w pl
           | _ -> tr_r_fail st)
        | RpMd5 (p, w) ->
          (match m with
           | TrMd5 d -> tr_r_md5 h deq aparse c dest st p w d
           | _ -> tr_r_fail st)
        | RpExit ->
          (match m with
           | TrExit _ -> ((tr_r_phase st RpDone), [])
           | _ -> tr_r_fail st)
        | _ -> tr_r_stay st)
     | TrSuccAck (_, _) ->
       (match ph with
        | RpNum ->
          (match m with
           | TrNum n ->
             let (st', outs) =
               tr_r_next c (N.to_nat n) st.rs_st st.rs_names st.rs_sched
             in
             (st', ((TrSuccInt n) :: outs))
           | _ -> tr_r_fail st)
        | RpName ->
          (match m with
           | TrName p -> tr_r_name c dest st p
           | _ -> tr_r_fail st)
        | RpHSize (p, leaf, old) ->
          (match m with
           | TrSize n ->
             ((tr_r_phase st (RpHash (p, leaf, old, n, r_init))), [])
           | _ -> tr_r_fail st)
        | RpHash (p, leaf, old, ssize, r) ->
          (match m with
           | TrHash (step, h0) -> tr_r_hash hx st p leaf old ssize r step h0
           | TrHashOver -> tr_r_over st p leaf old ssize r
           | _ -> tr_r_fail st)
        | RpSize p ->
          (match m with
           | TrSize n -> tr_r_size c st p n
           | _ -> tr_r_fail st)
        | RpComp (p, size) ->
          (match m with
           | TrComp b ->
             ((tr_r_phase st (RpData (p, size, b, [],
                (tr_cur_sched st).sc_steps))), [])
           | _ -> tr_r_fail st)
        | RpData (p, size, cp, acc, steps) ->
          (match m with
           | TrData f -> tr_r_frame zdecomp aparse c st p size cp acc steps f
           | TrKeepAlive -> tr_r_stay st
           | _ -> tr_r_fail st)
        | RpV1 (p, size, w) ->
          (match m with
           | TrData pl -> tr_r_v1 unzl c st p size w pl
           | _ -> tr_r_fail st)
        | RpMd5 (p, w) ->
          (match m with
           | TrMd5 d -> tr_r_md5 h deq aparse c dest st p w d
           | _ -> tr_r_fail st)
        | RpExit ->
          (match m with
           | TrExit _ -> ((tr_r_phase st RpDone), [])
           | _ -> tr_r_fail st)
        | _ -> tr_r_stay st)
     | TrSuccDigest _ ->
       (match ph with
        | RpNum ->
          (match m with
           | TrNum n ->
             let (st', outs) =
               tr_r_next c (N.to_nat n) st.rs_st st.rs_names st.rs_sched
             in
             (st', ((TrSuccInt n) :: outs))
           | _ -> tr_r_fail st)
        | RpName ->
          (match m with
           | TrName p -> tr_r_name c dest st p
           | _ -> tr_r_fail st)
        | RpHSize (p, leaf, old) ->
          (match m with
           | TrSize n ->
             ((tr_r_phase st (RpHash (p, leaf, old, n, r_init))), [])
           | _ -> tr_r_fail st)
        | RpHash (p, leaf, old, ssize, r) ->
          (match m with
           | TrHash (step, h0) -> tr_r_hash hx st p leaf old ssize r step h0
           | TrHashOver -> tr_r_over st p leaf old ssize r
           | _ -> tr_r_fail st)
        | RpSize p ->
          (match m with
           | TrSize n -> tr_r_size c st p n
           | _ -> tr_r_fail st)
        | RpComp (p, size) ->
          (match m with
           | TrComp b ->
             ((tr_r_phase st (RpData (p, size, b, [],
                (tr_cur_sched st).sc_steps))), [])
           | _ -> tr_r_fail st)
        | RpData (p, size, cp, acc, steps) ->
          (match m with
           | TrData f -> tr_r_frame zdecomp aparse c st p size cp acc steps f
           | TrKeepAlive -> tr_r_stay st
           | _ -> tr_r_fail st)
        | RpV1 (p, size, w) ->
          (match m with
           | TrData pl -> tr_r_v1 unzl c st p size w pl
           | _ -> tr_r_fail st)
        | RpMd5 (p, w) ->
          (match m with
           | TrMd5 d -> tr_r_md5 h deq aparse c dest st p w d
           | _ -> tr_r_fail st)
        | RpExit ->
          (match m with
           | TrExit _ -> ((tr_r_phase st RpDone), [])
           | _ -> tr_r_fail st)
        | _ -> tr_r_stay st)
     | TrSuccHack (_, _) ->
       (match ph with
        | RpNum ->
          (match m with
           | TrNum n ->
             let (st', outs) =
               tr_r_next c (N.to_nat n) st.rs_st st.rs_names st.rs_sched
             in
             (st', ((TrSuccInt n) :: outs))
           | _ -> tr_r_fail st)
        | RpName ->
          (match m with
           | TrName p -> tr_r_name c dest st p
           | _ -> tr_r_fail st)
        | RpHSize (p, leaf, old) ->
          (match m with
           | TrSize n ->
             ((tr_r_phase st (RpHash (p, leaf, old, n, r_init))), [])
           | _ -> tr_r_fail st)
        | RpHash (p, leaf, old, ssize, r) ->
          (match m with
           | TrHash (step, h0) -> tr_r_hash hx st p leaf old ssize r step h0
           | TrHashOver -> tr_r_over st p leaf old ssize r
           | _ -> tr_r_fail st)
        | RpSize p ->
          (match m with
           | TrSize n -> tr_r_size c st p n
           | _ -> tr_r_fail st)
        | RpComp (p, size) ->
          (match m with
           | TrComp b ->
             ((tr_r_phase st (RpData (p, size, b, [],
                (tr_cur_sched st).sc_steps))), [])
           | _ -> tr_r_fail st)
        | RpData (p, size, cp, acc, steps) ->
          (match m with
           | TrData f -> tr_r_frame zdecomp aparse c st p size cp acc steps f
           | TrKeepAlive -> tr_r_stay st
           | _ -> tr_r_fail st)
        | RpV1 (p, size, w) ->
          (match m with
           | TrData pl -> tr_r_v1 unzl c st p size w pl
           | _ -> tr_r_fail st)
        | RpMd5 (p, w) ->
          (match m with
           | TrMd5 d -> tr_r_md5 h deq aparse c dest st p w d
           | _ -> tr_r_fail st)
        | RpExit ->
          (match m with
           | TrExit _ -> ((tr_r_phase st RpDone), [])
           | _ -> tr_r_fail st)
        | _ -> tr_r_stay st)
     | TrKeepAlive ->
       (match ph with
        | RpNum ->
          (match m with
           | TrNum n ->
             let (st', outs) =
               tr_r_next c (N.to_nat n) st.rs_st st.rs_names st.rs_sched
             in
             (st', ((TrSuccInt n) :: outs))
           | _ -> tr_r_fail st)
        | RpName ->
          (match m with
           | TrName p -> tr_r_name c dest st p
           | _ -> tr_r_fail st)
        | RpHSize (p, leaf, old) ->
          (match m with
           | TrSize n ->
             ((tr_r_phase st (RpHash (p, leaf, old, n, r_init))), [])
           | _ -> tr_r_fail st)
        | RpHash (p, leaf, old, ssize, r) ->
          (match m with
           | TrHash (step, h0) -> tr_r_hash hx st p leaf old ssize r step h0
           | TrHashOver -> tr_r_over st p leaf old ssize r
           | _ -> tr_r_fail st)
        | RpSize p ->
          (match m with
           | TrSize n -> tr_r_size c st p n
           | _ -> tr_r_fail st)
        | RpComp (p, size) ->
          (match m with
           | TrComp b ->
             ((tr_r_phase st (RpData (p, size, b, [],
                (tr_cur_sched st).sc_steps))), [])
           | _ -> tr_r_fail st)
        | RpData (p, size, cp, acc, steps) ->
          (match m with
           | TrData f -> tr_r_frame zdecomp aparse c st p size cp acc steps f
           | TrKeepAlive -> tr_r_stay st
           | _ -> tr_r_fail st)
        | RpV1 (p, size, w) ->
          (match m with
           | TrData pl -> tr_r_v1 unzl c st p size w pl
           | _ -> tr_r_fail st)
        | RpMd5 (p, w) ->
          (match m with
           | TrMd5 d -> tr_r_md5 h deq aparse c dest st p w d
           | _ -> tr_r_fail st)
        | RpExit ->
          (match m with
           | TrExit _ -> ((tr_r_phase st RpDone), [])
           | _ -> tr_r_fail st)
        | _ -> tr_r_stay st)
     | TrFail -> ((tr_r_phase st RpFail), []))
  | RpHSize (p, leaf, old) ->
    let ph = RpHSize (p, leaf, old) in
    (match m with
     | TrNum _ ->
       (match ph with
        | RpNum ->
          (match m with
           | TrNum n ->
             let (st', outs) =
               tr_r_next c (N.to_nat n) st.rs_st st.rs_names st.rs_sched
             in
             (st', ((TrSuccInt n) :: outs))
           | _ -> tr_r_fail st)
        | RpName ->
          (match m with
           | TrName p0 -> tr_r_name c dest st p0
           | _ -> tr_r_fail st)
        | RpHSize (p0, leaf0, old0) ->
          (match m with
           | TrSize n ->
             ((tr_r_phase st (RpHash (p0, leaf0, old0, n, r_init))), [])
           | _ -> tr_r_fail st)
        | RpHash (p0, leaf0, old0, ssize, r) ->
          (match m with
           | TrHash (step, h0) ->
             tr_r_hash hx st p0 leaf0 old0 ssize r step h0
           | TrHashOver -> tr_r_over st p0 leaf0 old0 ssize r
           | _ -> tr_r_fail st)
        | RpSize p0 ->
          (match m with
           | TrSize n -> tr_r_size c st p0 n
           | _ -> tr_r_fail st)
        | RpComp (p0, size) ->
          (match m with
           | TrComp b ->
             ((tr_r_phase st (RpData (p0, size, b, [],
                (tr_cur_sched st).sc_steps))), [])
           | _ -> tr_r_fail st)
        | RpData (p0, size, cp, acc, steps) ->
          (match m with
           | TrData f -> tr_r_frame zdecomp aparse c st p0 size cp acc steps f
           | TrKeepAlive -> tr_r_stay st
           | _ -> tr_r_fail st)
        | RpV1 (p0, size, w) ->
          (match m with
           | TrData pl -> tr_r_v1 unzl c st p0 size w pl
           | _ -> tr_r_fail st)
        | RpMd5 (p0, w) ->
          (match m with
           | TrMd5 d -> tr_r_md5 h deq aparse c dest st p0 w d
           | _ -> tr_r_fail st)
        | RpExit ->
          (match m with
           | TrExit _ -> ((tr_r_phase st RpDone), [])
           | _ -> tr_r_fail st)
        | _ -> tr_r_stay st)
     | TrName _ ->
       (match ph with
        | RpNum ->
          (match m with
           | TrNum n ->
             let (st', outs) =
               tr_r_next c (N.to_nat n) st.rs_st st.rs_names st.rs_sched
             in
             (st', ((TrSuccInt n) :: outs))
           | _ -> tr_r_fail st)
        | RpName ->
          (match m with
           | TrName p0 -> tr_r_name c dest st p0
           | _ -> tr_r_fail st)
        | RpHSize (p0, leaf0, old0) ->
          (match m with
           | TrSize n ->
             ((tr_r_phase st (RpHash (p0, leaf0, old0, n, r_init))), [])
           | _ -> tr_r_fail st)
        | RpHash (p0, leaf0, old0, ssize, r) ->
          (match m with
           | TrHash (step, h0) ->
             tr_r_hash hx st p0 leaf0 old0 ssize r step h0
           | TrHashOver -> tr_r_over st p0 leaf0 old0 ssize r
           | _ -> tr_r_fail st)
        | RpSize p0 ->
          (match m with
           | TrSize n -> tr_r_size c st p0 n
           | _ -> tr_r_fail st)
        | RpComp (p0, size) ->
          (match m with
           | TrComp b ->
             ((tr_r_phase st (RpData (p0, size, b, [],
                (tr_cur_sched st).sc_steps))), [])
           | _ -> tr_r_fail st)
        | RpData (p0, size, cp, acc, steps) ->
          (match m with
           | TrData f -> tr_r_frame zdecomp aparse c st p0 size cp acc steps f
           | TrKeepAlive -> tr_r_stay st
           | _ -> tr_r_fail st)
        | RpV1 (p0, size, w) ->
          (match m with
           | TrData pl -> tr_r_v1 unzl c st p0 size w pl
           | _ -> tr_r_fail st)
        | RpMd5 (p0, w) ->
          (match m with
           | TrMd5 d -> tr_r_md5 h deq aparse c dest st p0 w d
           | _ -> tr_r_fail st)
        | RpExit ->
          (match m with
           | TrExit _ -> ((tr_r_phase st RpDone), [])
           | _ -> tr_r_fail st)
        | _ -> tr_r_stay st)
     | TrSize _ ->
       (match ph with
        | RpNum ->
          (match m with
           | TrNum n ->
             let (st', outs) =
               tr_r_next c (N.to_nat n) st.rs_st st.rs_names st.rs_sched
             in
             (st', ((TrSuccInt n) :: outs))
           | _ -> tr_r_fail st)
        | RpName ->
          (match m with
           | TrName p0 -> tr_r_name c dest st p0
           | _ -> tr_r_fail st)
        | RpHSize (p0, leaf0, old0) ->
          (match m with
           | TrSize n ->
             ((tr_r_phase st (RpHash (p0, leaf0, old0, n, r_init))), [])
           | _ -> tr_r_fail st)
        | RpHash (p0, leaf0, old0, ssize, r) ->
          (match m with
           | TrHash (step, h0) ->
             tr_r_hash hx st p0 leaf0 old0 ssize r step h0
           | TrHashOver -> tr_r_over st p0 leaf0 old0 ssize r
           | _ -> tr_r_fail st)
        | RpSize p0 ->
          (match m with
           | TrSize n -> tr_r_size c st p0 n
           | _ -> tr_r_fail st)
        | RpComp (p0, size) ->
          (match m with
           | TrComp b ->
             ((tr_r_phase st (RpData (p0, size, b, [],
                (tr_cur_sched st).sc_steps))), [])
           | _ -> tr_r_fail st)
        | RpData (p0, size, cp, acc, steps) ->
          (match m with
           | TrData f -> tr_r_frame zdecomp aparse c st p0 size cp acc steps f
           | TrKeepAlive -> tr_r_stay st
           | _ -> tr_r_fail st)
        | RpV1 (p0, size, w) ->
          (match m with
           | TrData pl -> tr_r_v1 unzl c st p0 size w pl
           | _ -> tr_r_fail st)
        | RpMd5 (p0, w) ->
          (match m with
           | TrMd5 d -> tr_r_md5 h deq aparse c dest st p0 w d
           | _ -> tr_r_fail st)
        | RpExit ->
          (match m with
           | TrExit _ -> ((tr_r_phase st RpDone), [])
           | _ -> tr_r_fail st)
        | _ -> tr_r_stay st)
     | TrComp _ ->
       (match ph with
        | RpNum ->
          (match m with
           | TrNum n ->
             let (st', outs) =
               tr_r_next c (N.to_nat n) st.rs_st st.rs_names st.rs_sched
             in
             (st', ((TrSuccInt n) :: outs))
           | _ -> tr_r_fail st)
        | RpName ->
          (match m with
           | TrName p0 -> tr_r_name c dest st p0
           | _ -> tr_r_fail st)
        | RpHSize (p0, leaf0, old0) ->
          (match m with
           | TrSize n ->
             ((tr_r_phase st (RpHash (p0, leaf0, old0, n, r_init))), [])
           | _ -> tr_r_fail st)
        | RpHash (p0, leaf0, old0, ssize, r) ->
          (match m with
           | TrHash (step, h0) ->
             tr_r_hash hx st p0 leaf0 old0 ssize r step h0
           | TrHashOver -> tr_r_over st p0 leaf0 old0 ssize r
           | _ -> tr_r_fail st)
        | RpSize p0 ->
          (match m with
           | TrSize n -> tr_r_size c st p0 n
           | _ -> tr_r_fail st)
        | RpComp (p0, size) ->
          (match m with
           | TrComp b ->
             ((tr_r_phase st (RpData (p0, size, b, [],
                (tr_cur_sched st).sc_steps))), [])
           | _ -> tr_r_fail st)
        | RpData (p0, size, cp, acc, steps) ->
          (match m with
           | TrData f -> tr_r_frame zdecomp aparse c st p0 size cp acc steps f
           | TrKeepAlive -> tr_r_stay st
           | _ -> tr_r_fail st)
        | RpV1 (p0, size, w) ->
          (match m with
           | TrData pl -> tr_r_v1 unzl c st p0 size w pl
           | _ -> tr_r_fail st)
        | RpMd5 (p0, w) ->
          (match m with
           | TrMd5 d -> tr_r_md5 h deq aparse c dest st p0 w d
           | _ -> tr_r_fail st)
        | RpExit ->
          (match m with
           | TrExit _ -> ((tr_r_phase st RpDone), [])
           | _ -> tr_r_fail st)
        | _ -> tr_r_stay st)
     | TrData _ ->
       (match ph with
        | RpNum ->
          (match m with
           | TrNum n ->
             let (st', outs) =
               tr_r_next c (N.to_nat n) st.rs_st st.rs_names st.rs_sched
             in
             (st', ((TrSuccInt n) :: outs))
           | _ -> tr_r_fail st)
        | RpName ->
          (match m with
           | TrName p0 -> tr_r_name c dest st p0
           | _ -> tr_r_fail st)
        | RpHSize (p0, leaf0, old0) ->
          (match m with
           | TrSize n ->
             ((tr_r_phase st (RpHash (p0, leaf0, old0, n, r_init))), [])
           | _ -> tr_r_fail st)
        | RpHash (p0, leaf0, old0, ssize, r) ->
          (match m with
           | TrHash (step, h0) ->
             tr_r_hash hx st p0 leaf0 old0 ssize r step h0
           | TrHashOver -> tr_r_over st p0 leaf0 old0 ssize r
           | _ -> tr_r_fail st)
        | RpSize p0 ->
          (match m with
           | TrSize n -> tr_r_size c st p0 n
           | _ -> tr_r_fail st)
        | RpComp (p0, size) ->
          (match m with
           | TrComp b ->
             ((tr_r_phase st (RpData (p0, size, b, [],
                (tr_cur_sched st).sc_steps))), [])
           | _ -> tr_r_fail st)
        | RpData (p0, size, cp, acc, steps) ->
          (match m with
           | TrData f -> tr_r_frame zdecomp aparse c st p0 size cp acc steps f
           | TrKeepAlive -> tr_r_stay st
           | _ -> tr_r_fail st)
        | RpV1 (p0, size, w) ->
          (match m with
           | TrData pl -> tr_r_v1 unzl c st p0 size w pl
           | _ -> tr_r_fail st)
        | RpMd5 (p0, w) ->
          (match m with
           | TrMd5 d -> tr_r_md5 h deq aparse c dest st p0 w d
           | _ -> tr_r_fail st)
        | RpExit ->
          (match m with
           | TrExit _ -> ((tr_r_phase st RpDone), [])
           | _ -> tr_r_fail st)
        | _ -> tr_r_stay st)
     | TrMd5 _ ->
       (match ph with
        | RpNum ->
          (match m with
           | TrNum n ->
             let (st', outs) =
               tr_r_next c (N.to_nat n) st.rs_st st.rs_names st.rs_sched
             in
             (st', ((TrSuccInt n) :: outs))
           | _ -> tr_r_fail st)
        | RpName ->
          (match m with
           | TrName p0 -> tr_r_name c dest st p0
           | _ -> tr_r_fail st)
        | RpHSize (p0, leaf0, old0) ->
          (match m with
           | TrSize n ->
             ((tr_r_phase st (RpHash (p0, leaf0, old0, n, r_init))), [])
           | _ -> tr_r_fail st)
        | RpHash (p0, leaf0, old0, ssize, r) ->
          (match m with
           | TrHash (step, h0) ->
             tr_r_hash hx st p0 leaf0 old0 ssize r step h0
           | TrHashOver -> tr_r_over st p0 leaf0 old0 ssize r
           | _ -> tr_r_fail st)
        | RpSize p0 ->
          (match m with
           | TrSize n -> tr_r_size c st p0 n
           | _ -> tr_r_fail st)
        | RpComp (p0, size) ->
          (match m with
           | TrComp b ->
             ((tr_r_phase st (RpData (p0, size, b, [],
                (tr_cur_sched st).sc_steps))), [])
           | _ -> tr_r_fail st)
        | RpData (p0, size, cp, acc, steps) ->
          (match m with
           | TrData f -> tr_r_frame zdecomp aparse c st p0 size cp acc steps f
           | TrKeepAlive -> tr_r_stay st
           | _ -> tr_r_fail st)
        | RpV1 (p0, size, w) ->
          (match m with
           | TrData pl -> tr_r_v1 unzl c st p0 size w pl
           | _ -> tr_r_fail st)
        | RpMd5 (p0, w) ->
          (match m with
           | TrMd5 d -> tr_r_md5 h deq aparse c dest st p0 w d
           | _ -> tr_r_fail st)
        | RpExit ->
          (match m with
           | TrExit _ -> ((tr_r_phase st RpDone), [])
           | _ -> tr_r_fail st)
        | _ -> tr_r_stay st)
     | TrExit _ ->
       (match ph with
        | RpNum ->
          (match m with
           | TrNum n ->
             let (st', outs) =
               tr_r_next c (N.to_nat n) st.rs_st st.rs_names st.rs_sched
             in
             (st', ((TrSuccInt n) :: outs))
           | _ -> tr_r_fail st)
        | RpName ->
          (match m with
           | TrName p0 -> tr_r_name c dest st p0
           | _ -> tr_r_fail st)
        | RpHSize (p0, leaf0, old0) ->
          (match m with
           | TrSize n ->
             ((tr_r_phase st (RpHash (p0, leaf0, old0, n, r_init))), [])
           | _ -> tr_r_fail st)
        | RpHash (p0, leaf0, old0, ssize, r) ->
          (match m with
           | TrHash (step, h0) ->
             tr_r_hash hx st p0 leaf0 old0 ssize r step h0
           | TrHashOver -> tr_r_over st p0 leaf0 old0 ssize r
           | _ -> tr_r_fail st)
        | RpSize p0 ->
          (match m with
           | TrSize n -> tr_r_size c st p0 n
           | _ -> tr_r_fail st)
        | RpComp (p0, size) ->
          (match m with
           | TrComp b ->
             ((tr_r_phase st (RpData (p0, size, b, [],
                (tr_cur_sched st).sc_steps))), [])
           | _ -> tr_r_fail st)
        | RpData (p0, size, cp, acc, steps) ->
          (match m with
           | TrData f -> tr_r_frame zdecomp aparse c st p0 size cp acc steps f
           | TrKeepAlive -> tr_r_stay st
           | _ -> tr_r_fail st)
        | RpV1 (p0, size, w) ->
          (match m with
           | TrData pl -> tr_r_v1 unzl c st p0 size w pl
           | _ -> tr_r_fail st)
        | RpMd5 (p0, w) ->
          (match m with
           | TrMd5 d -> tr_r_md5 h deq aparse c dest st p0 w d
           | _ -> tr_r_fail st)
        | RpExit ->
          (match m with
           | TrExit _ -> ((tr_r_phase st RpDone), [])
           | _ -> tr_r_fail st)
        | _ -> tr_r_stay st)
     | TrHash (_, _) ->
       (match ph with
        | RpNum ->
          (match m with
           | TrNum n ->
             let (st', outs) =
               tr_r_next c (N.to_nat n) st.rs_st st.rs_names st.rs_sched
             in
             (st', ((TrSuccInt n) :: outs))
           | _ -> tr_r_fail st)
        | RpName ->
          (match m with
           | TrName p0 -> tr_r_name c dest st p0
           | _ -> tr_r_fail st)
        | RpHSize (p0, leaf0, old0) ->
          (match m with
           | TrSize n ->
             ((tr_r_phase st (RpHash (p0, leaf0, old0, n, r_init))), [])
           | _ -> tr_r_fail st)
        | RpHash (p0, leaf0, old0, ssize, r) ->
          (match m with
           | TrHash (step, h0) ->
             tr_r_hash hx st p0 leaf0 old0 ssize r step h0
           | TrHashOver -> tr_r_over st p0 leaf0 old0 ssize r
           | _ -> tr_r_fail st)
        | RpSize p0 ->
          (match m with
           | TrSize n -> tr_r_size c st p0 n
           | _ -> tr_r_fail st)
        | RpComp (p0, size) ->
          (match m with
           | TrComp b ->
             ((tr_r_phase st (RpData (p0, size, b, [],
                (tr_cur_sched st).sc_steps))), [])
           | _ -> tr_r_fail st)
        | RpData (p0, size, cp, acc, steps) ->
          (match m with
           | TrData f -> tr_r_frame zdecomp aparse c st p0 size cp acc steps f
           | TrKeepAlive -> tr_r_stay st
           | _ -> tr_r_fail st)
        | RpV1 (p0, size, w) ->
          (match m with
           | TrData pl -> tr_r_v1 unzl c st p0 size w pl
           | _ -> tr_r_fail st)
        | RpMd5 (p0, w) ->
          (match m with
           | TrMd5 d -> tr_r_md5 h deq aparse c dest st p0 w d
           | _ -> tr_r_fail st)
        | RpExit ->
          (match m with
           | TrExit _ -> ((tr_r_phase st RpDone), [])
           | _ -> tr_r_fail st)
        | _ -> tr_r_stay st)
     | TrHashOver ->
       (match ph with
        | RpNum ->
          (match m with
           | TrNum n ->
             let (st', outs) =
               tr_r_next c (N.to_nat n) st.rs_st st.rs_names st.rs_sched
             in
             (st', ((TrSuccInt n) :: outs))
           | _ -> tr_r_fail st)
        | RpName ->
          (match m with
           | TrName p0 -> tr_r_name c dest st p0
           | _ -> tr_r_fail st)
        | RpHSize (p0, leaf0, old0) ->
          (match m with
           | TrSize n ->
             ((tr_r_phase st (RpHash (p0, leaf0, old0, n, r_init))), [])
           | _ -> tr_r_fail st)
        | RpHash (p0, leaf0, old0, ssize, r) ->
          (match m with
           | TrHash (step, h0) ->
             tr_r_hash hx st p0 leaf0 old0 ssize r step h0
           | TrHashOver -> tr_r_over st p0 leaf0 old0 ssize r
           | _ -> tr_r_fail st)
        | RpSize p0 ->
          (match m with
           | TrSize n -> tr_r_size c st p0 n
           | _ -> tr_r_fail st)
        | RpComp (p0, size) ->
          (match m with
           | TrComp b ->
             ((tr_r_phase st (RpData (p0, size, b, [],
                (tr_cur_sched st).sc_steps))), [])
           | _ -> tr_r_fail st)
        | RpData (p0, size, cp, acc, steps) ->
          (match m with
           | TrData f -> tr_r_frame zdecomp aparse c st p0 size cp acc steps f
           | TrKeepAlive -> tr_r_stay st
           | _ -> tr_r_fail st)
        | RpV1 (p0, size, w) ->
          (match m with
           | TrData pl -> tr_r_v1 unzl c st p0 size w pl
           | _ -> tr_r_fail st)
        | RpMd5 (p0, w) ->
          (match m with
           | TrMd5 d -> tr_r_md5 h deq aparse c dest st p0 w d
           | _ -> tr_r_fail st)
        | RpExit ->
          (match m with
           | TrExit _ -> ((tr_r_phase st RpDone), [])
           | _ -> tr_r_fail st)
        | _ -> tr_r_stay st)
     | TrSuccInt _ ->
       (match ph with
        | RpNum ->
          (match m with
           | TrNum n ->
             let (st', outs) =
               tr_r_next c (N.to_nat n) st.rs_st st.rs_names st.rs_sched
             in
             (st', ((TrSuccInt n) :: outs))
           | _ -> tr_r_fail st)
        | RpName ->
          (match m with
           | TrName p0 -> tr_r_name c dest st p0
           | _ -> tr_r_fail st)
        | RpHSize (p0, leaf0, old0) ->
          (match m with
           | TrSize n ->
             ((tr_r_phase st (RpHash (p0, leaf0, old0, n, r_init))), [])
           | _ -> tr_r_fail st)
        | RpHash (p0, leaf0, old0, ssize, r) ->
          (match m with
           | TrHash (step, h0) ->
             tr_r_hash hx st p0 leaf0 old0 ssize r step h0
           | TrHashOver -> tr_r_over st p0 leaf0 old0 ssize r
           | _ -> tr_r_fail st)
        | RpSize p0 ->
          (match m with
           | TrSize n -> tr_r_size c st p0 n
           | _ -> tr_r_fail st)
        | RpComp (p0, size) ->
          (match m with
           | TrComp b ->
             ((tr_r_phase st (RpData (p0, size, b, [],
                (tr_cur_sched st).sc_steps))), [])
           | _ -> tr_r_fail st)
        | RpData (p0, size, cp, acc, steps) ->
          (match m with
           | TrData f -> tr_r_frame zdecomp aparse c st p0 size cp acc steps f
           | TrKeepAlive -> tr_r_stay st
           | _ -> tr_r_fail st)
        | RpV1 (p0, size, w) ->
          (match m with
           | TrData pl -> tr_r_v1 unzl c st p0 size w pl
           | _ -> tr_r_fail st)
        | RpMd5 (p0, w) ->
          (match m with
           | TrMd5 d -> tr_r_md5 h deq aparse c dest st p0 w d
           | _ -> tr_r_fail st)
        | RpExit ->
          (match m with
           | TrExit _ -> ((tr_r_phase st RpDone), [])
           | _ -> tr_r_fail st)
        | _ -> tr_r_stay st)
     | TrSuccName _ ->
       (match ph with
        | RpNum ->
          (match m with
           | TrNum n ->
             let (st', outs) =
               tr_r_next c (N.to_nat n) st.rs_st st.rs_names st.rs_sched
             in
             (st', ((TrSuccInt n) :: outs))
           | _ -> tr_r_fail st)
        | RpName ->
          (match m with
           | TrName p0 -> tr_r_name c dest st p0
           | _ -> tr_r_fail st)
        | RpHSize (p0, leaf0, old0) ->
          (match m with
           | TrSize n ->
             ((tr_r_phase st (RpHash (p0, leaf0, old0, n, r_init))), [])
           | _ -> tr_r_fail st)
        | RpHash (p0, leaf0, old0, ssize, r) ->
          (match m with
           | TrHash (step, h0) ->
             tr_r_hash hx st p0 leaf0 old0 ssize r step h0
           | TrHashOver -> tr_r_over st p0 leaf0 old0 ssize r
           | _ -> tr_r_fail st)
        | RpSize p0 ->
          (match m with
           | TrSize n -> tr_r_size c st p0 n
           | _ -> tr_r_fail st)
        | RpComp (p0, size) ->
          (match m with
           | TrComp b ->
             ((tr_r_phase st (RpData (p0, size, b, [],
                (tr_cur_sched st).sc_steps))), [])
           | _ -> tr_r_fail st)
        | RpData (p0, size, cp, acc, steps) ->
          (match m with
           | TrData f -> tr_r_frame zdecomp aparse c st p0 size cp acc steps f
           | TrKeepAlive -> tr_r_stay st
           | _ -> tr_r_fail st)
        | RpV1 (p0, size, w) ->
          (match m with
           | TrData pl -> tr_r_v1 unzl c st p0 size w pl
           | _ -> tr_r_fail st)
        | RpMd5 (p0, w) ->
          (match m with
           | TrMd5 d -> tr_r_md5 h deq aparse c dest st p0 w d
           | _ -> tr_r_fail st)
        | RpExit ->
          (match m with
           | TrExit _ -> ((tr_r_phase st RpDone), [])
           | _ -> tr_r_fail st)
        | _ -> tr_r_stay st)
     | TrSuccTarget (_, _) ->
       (match ph with
        | RpNum ->
          (match m with
           | TrNum n ->
             let (st', outs) =
               tr_r_next c (N.to_nat n) st.rs_st st.rs_names st.rs_sched
             in
             (st', ((TrSuccInt n) :: outs))
           | _ -> tr_r_fail st)
        | RpName ->
          (match m with
           | TrName p0 -> tr_r_name c dest st p0
           | _ -> tr_r_fail st)
        | RpHSize (p0, leaf0, old0) ->
          (match m with
           | TrSize n ->
             ((tr_r_phase st (RpHash (p0, leaf0, old0, n, r_init))), [])
           | _ -> tr_r_fail st)
        | RpHash (p0, leaf0, old0, ssize, r) ->
          (match m with
           | TrHash (step, h0) ->
             tr_r_hash hx st p0 leaf0 old0 ssize r step h0
           | TrHashOver -> tr_r_over st p0 leaf0 old0 ssize r
           | _ -> tr_r_fail st)
        | RpSize p0 ->
          (match m with
           | TrSize n -> tr_r_size c st p0 n
           | _ -> tr_r_fail st)
        | RpComp (p0, size) ->
          (match m with
           | TrComp b ->
             ((tr_r_phase st (RpData (p0, size, b, [],
                (tr_cur_sched st).sc_steps))), [])
           | _ -> tr_r_fail st)
        | RpData (p0, size, cp, acc, steps) ->
          (match m with
           | TrData f -> tr_r_frame zdecomp aparse c st p0 size cp acc steps f
           | TrKeepAlive -> tr_r_stay st
           | _ -> tr_r_fail st)
        | RpV1 (p0, size, w) ->
          (match m with
           | TrData pl -> tr_r_v1 unzl c st p0 size w pl
           | _ -> tr_r_fail st)
        | RpMd5 (p0, w) ->
          (match m with
           | TrMd5 d -> tr_r_md5 h deq aparse c dest st p0 w d
           | _ -> tr_r_fail st)
        | RpExit ->
          (match m with
           | TrExit _ -> ((tr_r_phase st RpDone), [])
           | _ -> tr_r_fail st)
        | _ -> tr_r_stay st)
     | TrSuccAck (_, _) ->
       (match ph with
        | RpNum ->
          (match m with
           | TrNum n ->
             let (st', outs) =
               tr_r_next c (N.to_nat n) st.rs_st st.rs_names st.rs_sched
             in
             (st', ((TrSuccInt n) :: outs))
           | _ -> tr_r_fail st)
        | RpName ->
          (match m with
           | TrName p0 -> tr_r_name c dest st p0
           | _ -> tr_r_fail st)
        | RpHSize (p0, leaf0, old0) ->
          (match m with
           | TrSize n ->
             ((tr_r_phase st (RpHash (p0, leaf0, old0, n, r_init))), [])
           | _ -> tr_r_fail st)
        | RpHash (p0, leaf0, old0, ssize, r) ->
          (match m with
           | TrHash (step, h0) ->
             tr_r_hash hx st p0 leaf0 old0 ssize r step h0
           | TrHashOver -> tr_r_over st p0 leaf0 old0 ssize r
           | _ -> tr_r_fail st)
        | RpSize p0 ->
          (match m with
           | TrSize n -> tr_r_size c st p0 n
           | _ -> tr_r_fail st)
        | RpComp (p0, size) ->
          (match m with
           | TrComp b ->
             ((tr_r_phase st (RpData (p0, size, b, [],
                (tr_cur_sched st).sc_steps))), [])
           | _ -> tr_r_fail st)
        | RpData (p0, size, cp, acc, steps) ->
          (match m with
           | TrData f -> tr_r_frame zdecomp aparse c st p0 size cp acc steps f
           | TrKeepAlive -> tr_r_stay st
           | _ -> tr_r_fail st)
        | RpV1 (p0, size, w) ->
          (match m with
           | TrData pl -> tr_r_v1 unzl c st p0 size w pl
           | _ -> tr_r_fail st)
        | RpMd5 (p0, w) ->
          (match m with
           | TrMd5 d -> tr_r_md5 h deq aparse c dest st p0 w d
           | _ -> tr_r_fail st)
        | RpExit ->
          (match m with
           | TrExit _ -> ((tr_r_phase st RpDone), [])
           | _ -> tr_r_fail st)
        | _ -> tr_r_stay st)
     | TrSuccDigest _ ->
       (match ph with
        | RpNum ->
          (match m with
           | TrNum n ->
             let (st', outs) =
               tr_r_next c (N.to_nat n) st.rs_st st.rs_names st.rs_sched
             in
             (st', ((TrSuccInt n) :: outs))
           | _ -> tr_r_fail st)
        | RpName ->
          (match m with
           | TrName p0 -> tr_r_name c dest st p0
           | _ -> tr_r_fail st)
        | RpHSize (p0, leaf0, old0) ->
          (match m with
           | TrSize n ->
             ((tr_r_phase st (RpHash (p0, leaf0, old0, n, r_init))), [])
           | _ -> tr_r_fail st)
        | RpHash (p0, leaf0, old0, ssize, r) ->
          (match m with
           | TrHash (step, h0) ->
             tr_r_hash hx st p0 leaf0 old0 ssize r step h0
           | TrHashOver -> tr_r_over st p0 leaf0 old0 ssize r
           | _ -> tr_r_fail st)
        | RpSize p0 ->
          (match m with
           | TrSize n -> tr_r_size c st p0 n
           | _ -> tr_r_fail st)
        | RpComp (p0, size) ->
          (match m with
           | TrComp b ->
             ((tr_r_phase st (RpData (p0, size, b, [],
                (tr_cur_sched st).sc_steps))), [])
           | _ -> tr_r_fail st)
        | RpData (p0, size, cp, acc, steps) ->
          (match m with
           | TrData f -> tr_r_frame zdecomp aparse c st p0 size cp acc steps f
           | TrKeepAlive -> tr_r_stay st
           | _ -> tr_r_fail st)
        | RpV1 (p0, size, w) ->
          (match m with
           | TrData pl -> tr_r_v1 unzl c st p0 size w pl
           | _ -> tr_r_fail st)
        | RpMd5 (p0, w) ->
          (match m with
           | TrMd5 d -> tr_r_md5 h deq aparse c dest st p0 w d
           | _ -> tr_r_fail st)
        | RpExit ->
          (match m with
           | TrExit _ -> ((tr_r_phase st RpDone), [])
           | _ -> tr_r_fail st)
        | _ -> tr_r_stay st)
     | TrSuccHack (_, _) ->
       (match ph with
        | RpNum ->
          (match m with
           | TrNum n ->
             let (st', outs) =
               tr_r_next c (N.to_nat n) st.rs_st st.rs_names st.rs_sched
             in
             (st', ((TrSuccInt n) :: outs))
           | _ -> tr_r_fail st)
        | RpName ->
          (match m with
           | TrName p0 -> tr_r_name c dest st p0
           | _ -> tr_r_fail st)
        | RpHSize (p0, leaf0, old0) ->
          (match m with
           | TrSize n ->
             ((tr_r_phase st (RpHash (p0, leaf0, old0, n, r_init))), [])
           | _ -> tr_r_fail st)
        | RpHash (p0, leaf0, old0, ssize, r) ->
          (match m with
           | TrHash (step, h0) ->
             tr_r_hash hx st p0 leaf0 old0 ssize r step h0
           | TrHashOver -> tr_r_over st p0 leaf0 old0 ssize r
           | _ -> tr_r_fail st)
        | RpSize p0 ->
          (match m with
           | TrSize n -> tr_r_size c st p0 n
           | _ -> tr_r_fail st)
        | RpComp (p0, size) ->
          (match m with
           | TrComp b ->
             ((tr_r_phase st (RpData (p0, size, b, [],
                (tr_cur_sched st).sc_steps))), [])
           | _ -> tr_r_fail st)
        | RpData (p0, size, cp, acc, steps) ->
          (match m with
           | TrData f -> tr_r_frame zdecomp aparse c st p0 size cp acc steps f
           | TrKeepAlive -> tr_r_stay st
           | _ -> tr_r_fail st)
        | RpV1 (p0, size, w) ->
          (match m with
           | TrData pl -> tr_r_v1 unzl c st p0 size w pl
           | _ -> tr_r_fail st)
        | RpMd5 (p0, w) ->
          (match m with
           | TrMd5 d -> tr_r_md5 h deq aparse c dest st p0 w d
           | _ -> tr_r_fail st)
        | RpExit ->
          (match m with
           | TrExit _ -> ((tr_r_phase st RpDone), [])
           | _ -> tr_r_fail st)
        | _ -> tr_r_stay st)
     | TrKeepAlive ->
       (match ph with
        | RpNum ->
          (match m with
           | TrNum n ->
             let (st', outs) =
               tr_r_next c (N.to_nat n) st.rs_st st.rs_names st.rs_sched
             in
             (st', ((TrSuccInt n) :: outs))
           | _ -> tr_r_fail st)
        | RpName ->
          (match m with
           | TrName p0 -> tr_r_name c dest st p0
           | _ -> tr_r_fail st)
        | RpHSize (p0, leaf0, old0) ->
          (match m with
           | TrSize n ->
             ((tr_r_phase st (RpHash (p0, leaf0, old0, n, r_init))), [])
           | _ -> tr_r_fail st)
        | RpHash (p0, leaf0, old0, ssize, r) ->
          (match m with
           | TrHash (step, h0) ->
             tr_r_hash hx st p0 leaf0 old0 ssize r step h0
           | TrHashOver -> tr_r_over st p0 leaf0 old0 ssize r
           | _ -> tr_r_fail st)
        | RpSize p0 ->
          (match m with
           | TrSize n -> tr_r_size c st p0 n
           | _ -> tr_r_fail st)
        | RpComp (p0, size) ->
          (match m with
           | TrComp b ->
             ((tr_r_phase st (RpData (p0, size, b, [],
                (tr_cur_sched st).sc_steps))), [])
           | _ -> tr_r_fail st)
        | RpData (p0, size, cp, acc, steps) ->
          (match m with
           | TrData f -> tr_r_frame zdecomp aparse c st p0 size cp acc steps f
           | TrKeepAlive -> tr_r_stay st
           | _ -> tr_r_fail st)
        | RpV1 (p0, size, w) ->
          (match m with
           | TrData pl -> tr_r_v1 unzl c st p0 size w pl
           | _ -> tr_r_fail st)
        | RpMd5 (p0, w) ->
          (match m with
           | TrMd5 d -> tr_r_md5 h deq aparse c dest st p0 w d
           | _ -> tr_r_fail st)
        | RpExit ->
          (match m with
           | TrExit _ -> ((tr_r_phase st RpDone), [])
           | _ -> tr_r_fail st)
        | _ -> tr_r_stay st)
     | TrFail -> ((tr_r_phase st RpFail), []))
  | RpHash (p, leaf, old, ssize, r) ->
    let ph = RpHash (p, leaf, old, ssize, r) in
    (match m with
     | TrNum _ ->
       (match ph with
        | RpNum ->
          (match m with
           | TrNum n ->
             let (st', outs) =
               tr_r_next c (N.to_nat n) st.rs_st st.rs_names st.rs_sched
             in
             (st', ((TrSuccInt n) :: outs))
           | _ -> tr_r_fail st)
        | RpName ->
          (match m with
           | TrName p0 -> tr_r_name c dest st p0
           | _ -> tr_r_fail st)
        | RpHSize (p0, leaf0, old0) ->
          (match m with
           | TrSize n ->
             ((tr_r_phase st (RpHash (p0, leaf0, old0, n, r_init))), [])
           | _ -> tr_r_fail st)
        | RpHash (p0, leaf0, old0, ssize0, r0) ->
          (match m with
           | TrHash (step, h0) ->
             tr_r_hash hx st p0 leaf0 old0 ssize0 r0 step h0
           | TrHashOver -> tr_r_over st p0 leaf0 old0 ssize0 r0
           | _ -> tr_r_fail st)
        | RpSize p0 ->
          (match m with
           | TrSize n -> tr_r_size c st p0 n
           | _ -> tr_r_fail st)
        | RpComp (p0, size) ->
          (match m with
           | TrComp b ->
             ((tr_r_phase st (RpData (p0, size, b, [],
                (tr_cur_sched st).sc_steps))), [])
           | _ -> tr_r_fail st)
        | RpData (p0, size, cp, acc, steps) ->
          (match m with
           | TrData f -> tr_r_frame zdecomp aparse c st p0 size cp acc steps f
           | TrKeepAlive -> tr_r_stay st
           | _ -> tr_r_fail st)
        | RpV1 (p0, size, w) ->
          (match m with
           | TrData pl -> tr_r_v1 unzl c st p0 size w pl
           | _ -> tr_r_fail st)
        | RpMd5 (p0, w) ->
          (match m with
           | TrMd5 d -> tr_r_md5 h deq aparse c dest st p0 w d
           | _ -> tr_r_fail st)
        | RpExit ->
          (match m with
           | TrExit _ -> ((tr_r_phase st RpDone), [])
           | _ -> tr_r_fail st)
        | _ -> tr_r_stay st)
     | TrName _ ->
       (match ph with
        | RpNum ->
          (match m with
           | TrNum n ->
             let (st', outs) =
               tr_r_next c (N.to_nat n) st.rs_st st.rs_names st.rs_sched
             in
             (st', ((TrSuccInt n) :: outs))
           | _ -> tr_r_fail st)
        | RpName ->
          (match m with
           | TrName p0 -> tr_r_name c dest st p0
           | _ -> tr_r_fail st)
        | RpHSize (p0, leaf0, old0) ->
          (match m with
           | TrSize n ->
             ((tr_r_phase st (RpHash (p0, leaf0, old0, n, r_init))), [])
           | _ -> tr_r_fail st)
        | RpHash (p0, leaf0, old0, ssize0, r0) ->
          (match m with
           | TrHash (step, h0) ->
             tr_r_hash hx st p0 leaf0 old0 ssize0 r0 step h0
           | TrHashOver -> tr_r_over st p0 leaf0 old0 ssize0 r0
           | _ -> tr_r_fail st)
        | RpSize p0 ->
          (match m with
           | TrSize n -> tr_r_size c st p0 n
           | _ -> tr_r_fail st)
        | RpComp (p0, size) ->
          (match m with
           | TrComp b ->
             ((tr_r_phase st (RpData (p0, size, b, [],
                (tr_cur_sched st).sc_steps))), [])
           | _ -> tr_r_fail st)
        | RpData (p0, size, cp, acc, steps) ->
          (match m with
           | TrData f -> tr_r_frame zdecomp aparse c st p0 size cp acc steps f
           | TrKeepAlive -> tr_r_stay st
           | _ -> tr_r_fail st)
        | RpV1 (p0, size, w) ->
          (match m with
           | TrData pl -> tr_r_v1 unzl c st p0 size w pl
           | _ -> tr_r_fail st)
        | RpMd5 (p0, w) ->
          (match m with
           | TrMd5 d -> tr_r_md5 h deq aparse c dest st p0 w d
           | _ -> tr_r_fail st)
        | RpExit ->
          (match m with
           | TrExit _ -> ((tr_r_phase st RpDone), [])
           | _ -> tr_r_fail st)
        | _ -> tr_r_stay st)
     | TrSize _ ->
       (match ph with
        | RpNum ->
          (match m with
           | TrNum n ->
             let (st', outs) =
               tr_r_next c (N.to_nat n) st.rs_st st.rs_names st.rs_sched
             in
             (st', ((TrSuccInt n) :: outs))
           | _ -> tr_r_fail st)
        | RpName ->
          (match m with
           | TrName p0 -> tr_r_name c dest st p0
           | _ -> tr_r_fail st)
        | RpHSize (p0, leaf0, old0) ->
          (match m with
           | TrSize n ->
             ((tr_r_phase st (RpHash (p0, leaf0, old0, n, r_init))), [])
           | _ -> tr_r_fail st)
        | RpHash (p0, leaf0, old0, ssize0, r0) ->
          (match m with
           | TrHash (step, h0) ->
             tr_r_hash hx st p0 leaf0 old0 ssize0 r0 step h0
           | TrHashOver -> tr_r_over st p0 leaf0 old0 ssize0 r0
           | _ -> tr_r_fail st)
        | RpSize p0 ->
          (match m with
           | TrSize n -> tr_r_size c st p0 n
           | _ -> tr_r_fail st)
        | RpComp (p0, size) ->
          (match m with
           | TrComp b ->
             ((tr_r_phase st (RpData (p0, size, b, [],
                (tr_cur_sched st).sc_steps))), [])
           | _ -> tr_r_fail st)
        | RpData (p0, size, cp, acc, steps) ->
          (match m with
           | TrData f -> tr_r_frame zdecomp aparse c st p0 size cp acc steps f
           | TrKeepAlive -> tr_r_stay st
           | _ -> tr_r_fail st)
        | RpV1 (p0, size, w) ->
          (match m with
           | TrData pl -> tr_r_v1 unzl c st p0 size w pl
           | _ -> tr_r_fail st)
        | RpMd5 (p0, w) ->
          (match m with
           | TrMd5 d -> tr_r_md5 h deq aparse c dest st p0 w d
           | _ -> tr_r_fail st)
        | RpExit ->
          (match m with
           | TrExit _ -> ((tr_r_phase st RpDone), [])
           | _ -> tr_r_fail st)
        | _ -> tr_r_stay st)
     | TrComp _ ->
       (match ph with
        | RpNum ->
          (match m with
           | TrNum n ->
             let (st', outs) =
               tr_r_next c (N.to_nat n) st.rs_st st.rs_names st.rs_sched
             in
             (st', ((TrSuccInt n) :: outs))
           | _ -> tr_r_fail st)
        | RpName ->
          (match m with
           | TrName p0 -> tr_r_name c dest st p0
           | _ -> tr_r_fail st)
        | RpHSize (p0, leaf0, old0) ->
          (match m with
           | TrSize n ->
             ((tr_r_phase st (RpHash (p0, leaf0, old0, n, r_init))), [])
           | _ -> tr_r_fail st)
        | RpHash (p0, leaf0, old0, ssize0, r0) ->
          (match m with
           | TrHash (step, h0) ->
             tr_r_hash hx st p0 leaf0 old0 ssize0 r0 step h0
           | TrHashOver -> tr_r_over st p0 leaf0 old0 ssize0 r0
           | _ -> tr_r_fail st)
        | RpSize p0 ->
          (match m with
           | TrSize n -> tr_r_size c st p0 n
           | _ -> tr_r_fail st)
        | RpComp (p0, size) ->
          (match m with
           | TrComp b ->
             ((tr_r_phase st (RpData (p0, size, b, [],
                (tr_cur_sched st).sc_steps))), [])
           | _ -> tr_r_fail st)
        | RpData (p0, size, cp, acc, steps) ->
          (match m with
           | TrData f -> tr_r_frame zdecomp aparse c st p0 size cp acc steps f
           | TrKeepAlive -> tr_r_stay st
           | _ -> tr_r_fail st)
        | RpV1 (p0, size, w) ->
          (match m with
           | TrData pl -> tr_r_v1 unzl c st p0 size w pl
           | _ -> tr_r_fail st)
        | RpMd5 (p0, w) ->
          (match m with
           | TrMd5 d -> tr_r_md5 h deq aparse c dest st p0 w d
           | _ -> tr_r_fail st)
        | RpExit ->
          (match m with
           | TrExit _ -> ((tr_r_phase st RpDone), [])
           | _ -> tr_r_fail st)
        | _ -> tr_r_stay st)
     | TrData _ ->
       (match ph with
        | RpNum ->
          (match m with
           | TrNum n ->
             let (st', outs) =
               tr_r_next c (N.to_nat n) st.rs_st st.rs_names st.rs_sched
             in
             (st', ((TrSuccInt n) :: outs))
           | _ -> tr_r_fail st)
        | RpName ->
          (match m with
           | TrName p0 -> tr_r_name c dest st p0
           | _ -> tr_r_fail st)
        | RpHSize (p0, leaf0, old0) ->
          (match m with
           | TrSize n ->
             ((tr_r_phase st (RpHash (p0, leaf0, old0, n, r_init))), [])
           | _ -> tr_r_fail st)
        | RpHash (p0, leaf0, old0, ssize0, r0) ->
          (match m with
           | TrHash (step, h0) ->
             tr_r_hash hx st p0 leaf0 old0 ssize0 r0 step h0
           | TrHashOver -> tr_r_over st p0 leaf0 old0 ssize0 r0
           | _ -> tr_r_fail st)
        | RpSize p0 ->
          (match m with
           | TrSize n -> tr_r_size c st p0 n
           | _ -> tr_r_fail st)
        | RpComp (p0, size) ->
          (match m with
           | TrComp b ->
             ((tr_r_phase st (RpData (p0, size, b, [],
                (tr_cur_sched st).sc_steps))), [])
           | _ -> tr_r_fail st)
        | RpData (p0, size, cp, acc, steps) ->
          (match m with
           | TrData f -> tr_r_frame zdecomp aparse c st p0 size cp acc steps f
           | TrKeepAlive -> tr_r_stay st
           | _ -> tr_r_fail st)
        | RpV1 (p0, size, w) ->
          (match m with
           | TrData pl -> tr_r_v1 unzl c st p0 size w pl
           | _ -> tr_r_fail st)
        | RpMd5 (p0, w) ->
          (match m with
           | TrMd5 d -> tr_r_md5 h deq aparse c dest st p0 w d
           | _ -> tr_r_fail st)
        | RpExit ->
          (match m with
           | TrExit _ -> ((tr_r_phase st RpDone), [])
           | _ -> tr_r_fail st)
        | _ -> tr_r_stay st)
     | TrMd5 _ ->
       (match ph with
        | RpNum ->
          (match m with
           | TrNum n ->
             let (st', outs) =
               tr_r_next c (N.to_nat n) st.rs_st st.rs_names st.rs_sched
             in
             (st', ((TrSuccInt n) :: outs))
           | _ -> tr_r_fail st)
        | RpName ->
          (match m with
           | TrName p0 -> tr_r_name c dest st p0
           | _ -> tr_r_fail st)
        | RpHSize (p0, leaf0, old0) ->
          (match m with
           | TrSize n ->
             ((tr_r_phase st (RpHash (p0, leaf0, old0, n, r_init))), [])
           | _ -> tr_r_fail st)
        | RpHash (p0, leaf0, old0, ssize0, r0) ->
          (match m with
           | TrHash (step, h0) ->
             tr_r_hash hx st p0 leaf0 old0 ssize0 r0 step h0
           | TrHashOver -> tr_r_over st p0 leaf0 old0 ssize0 r0
           | _ -> tr_r_fail st)
        | RpSize p0 ->
          (match m with
           | TrSize n -> tr_r_size c st p0 n
           | _ -> tr_r_fail st)
        | RpComp (p0, size) ->
          (match m with
           | TrComp b ->
             ((tr_r_phase st (RpData (p0, size, b, [],
                (tr_cur_sched st).sc_steps))), [])
           | _ -> tr_r_fail st)
        | RpData (p0, size, cp, acc, steps) ->
          (match m with
           | TrData f -> tr_r_frame zdecomp aparse c st p0 size cp acc steps f
           | TrKeepAlive -> tr_r_stay st
           | _ -> tr_r_fail st)
        | RpV1 (p0, size, w) ->
          (match m with
           | TrData pl -> tr_r_v1 unzl c st p0 size w pl
           | _ -> tr_r_fail st)
        | RpMd5 (p0, w) ->
          (match m with
           | TrMd5 d -> tr_r_md5 h deq aparse c dest st p0 w d
           | _ -> tr_r_fail st)
        | RpExit ->
          (match m with
           | TrExit _ -> ((tr_r_phase st RpDone), [])
           | _ -> tr_r_fail st)
        | _ -> tr_r_stay st)
     | TrExit _ ->
       (match ph with
        | RpNum ->
          (match m with
           | TrNum n ->
             let (st', outs) =
               tr_r_next c (N.to_nat n) st.rs_st st.rs_names st.rs_sched
             in
             (st', ((TrSuccInt n) :: outs))
           | _ -> tr_r_fail st)
        | RpName ->
          (match m with
           | TrName p0 -> tr_r_name c dest st p0
           | _ -> tr_r_fail st)
        | RpHSize (p0, leaf0, old0) ->
          (match m with
           | TrSize n ->
             ((tr_r_phase st (RpHash (p0, leaf0, old0, n, r_init))), [])
           | _ -> tr_r_fail st)
        | RpHash (p0, leaf0, old0, ssize0, r0) ->
          (match m with
           | TrHash (step, h0) ->
             tr_r_hash hx st p0 leaf0 old0 ssize0 r0 step h0
           | TrHashOver -> tr_r_over st p0 leaf0 old0 ssize0 r0
           | _ -> tr_r_fail st)
        | RpSize p0 ->
          (match m with
           | TrSize n -> tr_r_size c st p0 n
           | _ -> tr_r_fail st)
        | RpComp (p0, size) ->
          (match m with
           | TrComp b ->
             ((tr_r_phase st (RpData (p0, size, b, [],
                (tr_cur_sched st).sc_steps))), [])
           | _ -> tr_r_fail st)
        | RpData (p0, size, cp, acc, steps) ->
          (match m with
           | TrData f -> tr_r_frame zdecomp aparse c st p0 size cp acc steps f
           | TrKeepAlive -> tr_r_stay st
           | _ -> tr_r_fail st)
        | RpV1 (p0, size, w) ->
          (match m with
           | TrData pl -> tr_r_v1 unzl c st p0 size w pl
           | _ -> tr_r_fail st)
        | RpMd5 (p0, w) ->
          (match m with
           | TrMd5 d -> tr_r_md5 h deq aparse c dest st p0 w d
           | _ -> tr_r_fail st)
        | RpExit ->
          (match m with
           | TrExit _ -> ((tr_r_phase st RpDone), [])
           | _ -> tr_r_fail st)
        | _ -> tr_r_stay st)
     | TrHash (_, _) ->
       (match ph with
        | RpNum ->
          (match m with
           | TrNum n ->
             let (st', outs) =
               tr_r_next c (N.to_nat n) st.rs_st st.rs_names st.rs_sched
             in
             (st', ((TrSuccInt n) :: outs))
           | _ -> tr_r_fail st)
        | RpName ->
          (match m with
           | TrName p0 -> tr_r_name c dest st p0
           | _ -> tr_r_fail st)
        | RpHSize (p0, leaf0, old0) ->
          (match m with
           | TrSize n ->
             ((tr_r_phase st (RpHash (p0, leaf0, old0, n, r_init))), [])
           | _ -> tr_r_fail st)
        | RpHash (p0, leaf0, old0, ssize0, r0) ->
          (match m with
           | TrHash (step, h0) ->
             tr_r_hash hx st p0 leaf0 old0 ssize0 r0 step h0
           | TrHashOver -> tr_r_over st p0 leaf0 old0 ssize0 r0
           | _ -> tr_r_fail st)
        | RpSize p0 ->
          (match m with
           | TrSize n -> tr_r_size c st p0 n
           | _ -> tr_r_fail st)
        | RpComp (p0, size) ->
          (match m with
           | TrComp b ->
             ((tr_r_phase st (RpData (p0, size, b, [],
                (tr_cur_sched st).sc_steps))), [])
           | _ -> tr_r_fail st)
        | RpData (p0, size, cp, acc, steps) ->
          (match m with
           | TrData f -> tr_r_frame zdecomp aparse c st p0 size cp acc steps f
           | TrKeepAlive -> tr_r_stay st
           | _ -> tr_r_fail st)
        | RpV1 (p0, size, w) ->
          (match m with
           | TrData pl -> tr_r_v1 unzl c st p0 size w pl
           | _ -> tr_r_fail st)
        | RpMd5 (p0, w) ->
          (match m with
           | TrMd5 d -> tr_r_md5 h deq aparse c dest st p0 w d
           | _ -> tr_r_fail st)
        | RpExit ->
          (match m with
           | TrExit _ -> ((tr_r_phase st RpDone), [])
           | _ -> tr_r_fail st)
        | _ -> tr_r_stay st)
     | TrHashOver ->
       (match ph with
        | RpNum ->
          (match m with
           | TrNum n ->
             let (st', outs) =
               tr_r_next c (N.to_nat n) st.rs_st st.rs_names st.rs_sched
             in
             (st', ((TrSuccInt n) :: outs))
           | _ -> tr_r_fail st)
        | RpName ->
          (match m with
           | TrName p0 -> tr_r_name c dest st p0
           | _ -> tr_r_fail st)
        | RpHSize (p0, leaf0, old0) ->
          (match m with
           | TrSize n ->
             ((tr_r_phase st (RpHash (p0, leaf0, old0, n, r_init))), [])
           | _ -> tr_r_fail st)
        | RpHash (p0, leaf0, old0, ssize0, r0) ->
          (match m with
           | TrHash (step, h0) ->
             tr_r_hash hx st p0 leaf0 old0 ssize0 r0 step h0
           | TrHashOver -> tr_r_over st p0 leaf0 old0 ssize0 r0
           | _ -> tr_r_fail st)
        | RpSize p0 ->
          (match m with
           | TrSize n -> tr_r_size c st p0 n
           | _ -> tr_r_fail st)
        | RpComp (p0, size) ->
          (match m with
           | TrComp b ->
             ((tr_r_phase st (RpData (p0, size, b, [],
                (tr_cur_sched st).sc_steps))), [])
           | _ -> tr_r_fail st)
        | RpData (p0, size, cp, acc, steps) ->
          (match m with
           | TrData f -> tr_r_frame zdecomp aparse c st p0 size cp acc steps f
           | TrKeepAlive -> tr_r_stay st
           | _ -> tr_r_fail st)
        | RpV1 (p0, size, w) ->
          (match m with
           | TrData pl -> tr_r_v1 unzl c st p0 size w pl
           | _ -> tr_r_fail st)
        | RpMd5 (p0, w) ->
          (match m with
           | TrMd5 d -> tr_r_md5 h deq aparse c dest st p0 w d
           | _ -> tr_r_fail st)
        | RpExit ->
          (match m with
           | TrExit _ -> ((tr_r_phase st RpDone), [])
           | _ -> tr_r_fail st)
        | _ -> tr_r_stay st)
     | TrSuccInt _ ->
       (match ph with
        | RpNum ->
          (match m with
           | TrNum n ->
             let (st', outs) =
               tr_r_next c (N.to_nat n) st.rs_st st.rs_names st.rs_sched
             in
             (st', ((TrSuccInt n) :: outs))
           | _ -> tr_r_fail st)
        | RpName ->
          (match m with
           | TrName p0 -> tr_r_name c dest st p0
           | _ -> tr_r_fail st)
        | RpHSize (p0, leaf0, old0) ->
          (match m with
           | TrSize n ->
             ((tr_r_phase st (RpHash (p0, leaf0, old0, n, r_init))), [])
           | _ -> tr_r_fail st)
        | RpHash (p0, leaf0, old0, ssize0, r0) ->
          (match m with
           | TrHash (step, h0) ->
             tr_r_hash hx st p0 leaf0 old0 ssize0 r0 step h0
           | TrHashOver -> tr_r_over st p0 leaf0 old0 ssize0 r0
           | _ -> tr_r_fail st)
        | RpSize p0 ->
          (match m with
           | TrSize n -> tr_r_size c st p0 n
           | _ -> tr_r_fail st)
        | RpComp (p0, size) ->
          (match m with
           | TrComp b ->
             ((tr_r_phase st (RpData (p0, size, b, [],
                (tr_cur_sched st).sc_steps))), [])
           | _ -> tr_r_fail st)
        | RpData (p0, size, cp, acc, steps) ->
          (match m with
           | TrData f -> tr_r_frame zdecomp aparse c st p0 size cp acc steps f
           | TrKeepAlive -> tr_r_stay st
           | _ -> tr_r_fail st)
        | RpV1 (p0, size, w) ->
          (match m with
           | TrData pl -> tr_r_v1 unzl c st p0 size w pl
           | _ -> tr_r_fail st)
        | RpMd5 (p0, w) ->
          (match m with
           | TrMd5 d -> tr_r_md5 h deq aparse c dest st p0 w d
           | _ -> tr_r_fail st)
        | RpExit ->
          (match m with
           | TrExit _ -> ((tr_r_phase st RpDone), [])
           | _ -> tr_r_fail st)
        | _ -> tr_r_stay st)
     | TrSuccName _ ->
       (match ph with
        | RpNum ->
          (match m with
           | TrNum n ->
             let (st', outs) =
               tr_r_next c (N.to_nat n) st.rs_st st.rs_names st.rs_sched
             in
             (st', ((TrSuccInt n) :: outs))
           | _ -> tr_r_fail st)
        | RpName ->
          (match m with
           | TrName p0 -> tr_r_name c dest st p0
           | _ -> tr_r_fail st)
        | RpHSize (p0, leaf0, old0) ->
          (match m with
           | TrSize n ->
             ((tr_r_phase st (RpHash (p0, leaf0, old0, n, r_init))), [])
           | _ -> tr_r_fail st)
        | RpHash (p0, leaf0, old0, ssize0, r0) ->
          (match m with
           | TrHash (step, h0) ->
             tr_r_hash hx st p0 leaf0 old0 ssize0 r0 step h0
           | TrHashOver -> tr_r_over st p0 leaf0 old0 ssize0 r0
           | _ -> tr_r_fail st)
        | RpSize p0 ->
          (match m with
           | TrSize n -> tr_r_size c st p0 n
           | _ -> tr_r_fail st)
        | RpComp (p0, size) ->
          (match m with
           | TrComp b ->
             ((tr_r_phase st (RpData (p0, size, b, [],
                (tr_cur_sched st).sc_steps))), [])
           | _ -> tr_r_fail st)
        | RpData (p0, size, cp, acc, steps) ->
          (match m with
           | TrData f -> tr_r_frame zdecomp aparse c st p0 size cp acc steps f
           | TrKeepAlive -> tr_r_stay st
           | _ -> tr_r_fail st)
        | RpV1 (p0, size, w) ->
          (match m with
           | TrData pl -> tr_r_v1 unzl c st p0 size w pl
           | _ -> tr_r_fail st)
        | RpMd5 (p0, w) ->
          (match m with
           | TrMd5 d -> tr_r_md5 h deq aparse c dest st p0 w d
           | _ -> tr_r_fail st)
        | RpExit ->
          (match m with
           | TrExit _ -> ((tr_r_phase st RpDone), [])
           | _ -> tr_r_fail st)
        | _ -> tr_r_stay st)
     | TrSuccTarget (_, _) ->
       (match ph with
        | RpNum ->
          (match m with
           | TrNum n ->
             let (st', outs) =
               tr_r_next c (N.to_nat n) st.rs_st st.rs_names st.rs_sched
             in
             (st', ((TrSuccInt n) :: outs))
           | _ -> tr_r_fail st)
        | RpName ->
          (match m with
           | TrName p0 -> tr_r_name c dest st p0
           | _ -> tr_r_fail st)
        | RpHSize (p0, leaf0, old0) ->
          (match m with
           | TrSize n ->
             ((tr_r_phase st (RpHash (p0, leaf0, old0, n, r_init))), [])
           | _ -> tr_r_fail st)
        | RpHash (p0, leaf0, old0, ssize0, r0) ->
          (match m with
           | TrHash (step, h0) ->
             tr_r_hash hx st p0 leaf0 old0 ssize0 r0 step h0
           | TrHashOver -> tr_r_over st p0 leaf0 old0 ssize0 r0
           | _ -> tr_r_fail st)
        | RpSize p0 ->
          (match m with
           | TrSize n -> tr_r_size c st p0 n
           | _ -> tr_r_fail st)
        | RpComp (p0, size) ->
          (match m with
           | TrComp b ->
             ((tr_r_phase st (RpData (p0, size, b, [],
                (tr_cur_sched st).sc_steps))), [])
           | _ -> tr_r_fail st)
        | RpData (p0, size, cp, acc, steps) ->
          (match m with
           | TrData f -> tr_r_frame zdecomp aparse c st p0 size cp acc steps f
           | TrKeepAlive -> tr_r_stay st
           | _ -> tr_r_fail st)
        | RpV1 (p0, size, w) ->
          (match m with
           | TrData pl -> tr_r_v1 unzl c st p0 size w pl
           | _ -> tr_r_fail st)
        | RpMd5 (p0, w) ->
          (match m with
           | TrMd5 d -> tr_r_md5 h deq aparse c dest st p0 w d
           | _ -> tr_r_fail st)
        | RpExit ->
          (match m with
           | TrExit _ -> ((tr_r_phase st RpDone), [])
           | _ -> tr_r_fail st)
        | _ -> tr_r_stay st)
     | TrSuccAck (_, _) ->
       (match ph with
        | RpNum ->
          (match m with
           | TrNum n ->
             let (st', outs) =
               tr_r_next c (N.to_nat n) st.rs_st st.rs_names st.rs_sched
             in
             (st', ((TrSuccInt n) :: outs))
           | _ -> tr_r_fail st)
        | RpName ->
          (match m with
           | TrName p0 -> tr_r_name c dest st p0
           | _ -> tr_r_fail st)
        | RpHSize (p0, leaf0, old0) ->
          (match m with
           | TrSize n ->
             ((tr_r_phase st (RpHash (p0, leaf0, old0, n, r_init))), [])
           | _ -> tr_r_fail st)
        | RpHash (p0, leaf0, old0, ssize0, r0) ->
          (match m with
           | TrHash (step, h0) ->
             tr_r_hash hx st p0 leaf0 old0 ssize0 r0 step h0
           | TrHashOver -> tr_r_over st p0 leaf0 old0 ssize0 r0
           | _ -> tr_r_fail st)
        | RpSize p0 ->
          (match m with
           | TrSize n -> tr_r_size c st p0 n
           | _ -> tr_r_fail st)
        | RpComp (p0, size) ->
          (match m with
           | TrComp b ->
             ((tr_r_phase st (RpData (p0, size, b, [],
                (tr_cur_sched st).sc_steps))), [])
           | _ -> tr_r_fail st)
        | RpData (p0, size, cp, acc, steps) ->
          (match m with
           | TrData f -> tr_r_frame zdecomp aparse c st p0 size cp acc steps f
           | TrKeepAlive -> tr_r_stay st
           | _ -> tr_r_fail st)
        | RpV1 (p0, size, w) ->
          (match m with
           | TrData pl -> tr_r_v1 unzl c st p0 size w pl
           | _ -> tr_r_fail st)
        | RpMd5 (p0, w) ->
          (match m with
           | TrMd5 d -> tr_r_md5 h deq aparse c dest st p0 w d
           | _ -> tr_r_fail st)
        | RpExit ->
          (match m with
           | TrExit _ -> ((tr_r_phase st RpDone), [])
           | _ -> tr_r_fail st)
        | _ -> tr_r_stay st)
     | TrSuccDigest _ ->
       (match ph with
        | RpNum ->
          (match m with
           | TrNum n ->
             let (st', outs) =
               tr_r_next c (N.to_nat n) st.rs_st st.rs_names st.rs_sched
             in
             (st', ((TrSuccInt n) :: outs))
           | _ -> tr_r_fail st)
        | RpName ->
          (match m with
           | TrName p0 -> tr_r_name c dest st p0
           | _ -> tr_r_fail st)
        | RpHSize (p0, leaf0, old0) ->
          (match m with
           | TrSize n ->
             ((tr_r_phase st (RpHash (p0, leaf0, old0, n, r_init))), [])
           | _ -> tr_r_fail st)
        | RpHash (p0, leaf0, old0, ssize0, r0) ->
          (match m with
           | TrHash (step, h0) ->
             tr_r_hash hx st p0 leaf0 old0 ssize0 r0 step h0
           | TrHashOver -> tr_r_over st p0 leaf0 old0 ssize0 r0
           | _ -> tr_r_fail st)
        | RpSize p0 ->
          (match m with
           | TrSize n -> tr_r_size c st p0 n
           | _ -> tr_r_fail st)
        | RpComp (p0, size) ->
          (match m with
           | TrComp b ->
             ((tr_r_phase st (RpData (p0, size, b, [],
                (tr_cur_sched st).sc_steps))), [])
           | _ -> tr_r_fail st)
        | RpData (p0, size, cp, acc, steps) ->
          (match m with
           | TrData f -> tr_r_frame zdecomp aparse c st p0 size cp acc steps f
           | TrKeepAlive -> tr_r_stay st
           | _ -> tr_r_fail st)
        | RpV1 (p0, size, w) ->
          (match m with
           | TrData pl -> tr_r_v1 unzl c st p0 size w pl
           | _ -> tr_r_fail st)
        | RpMd5 (p0, w) ->
          (match m with
           | TrMd5 d -> tr_r_md5 h deq aparse c dest st p0 w d
           | _ -> tr_r_fail st)
        | RpExit ->
          (match m with
           | TrExit _ -> ((tr_r_phase st RpDone), [])
           | _ -> tr_r_fail st)
        | _ -> tr_r_stay st)
     | TrSuccHack (_, _) ->
       (match ph with
        | RpNum ->
          (match m with
           | TrNum n ->
             let (st', outs) =
               tr_r_next c (N.to_nat n) st.rs_st st.rs_names st.rs_sched
             in
             (st', ((TrSuccInt n) :: outs))
           | _ -> tr_r_fail st)
        | RpName ->
          (match m with
           | TrName p0 -> tr_r_name c dest st p0
           | _ -> tr_r_fail st)
        | RpHSize (p0, leaf0, old0) ->
          (match m with
           | TrSize n ->
             ((tr_r_phase st (RpHash (p0, leaf0, old0, n, r_init))), [])
           | _ -> tr_r_fail st)
        | RpHash (p0, leaf0, old0, ssize0, r0) ->
          (match m with
           | TrHash (step, h0) ->
             tr_r_hash hx st p0 leaf0 old0 ssize0 r0 step h0
           | TrHashOver -> tr_r_over st p0 leaf0 old0 ssize0 r0
           | _ -> tr_r_fail st)
        | RpSize p0 ->
          (match m with
           | TrSize n -> tr_r_size c st p0 n
           | _ -> tr_r_fail st)
        | RpComp (p0, size) ->
          (match m with
           | TrComp b ->
             ((tr_r_phase st (RpData (p0, size, b, [],
                (tr_cur_sched st).sc_steps))), [])
           | _ -> tr_r_fail st)
        | RpData (p0, size, cp, acc, steps) ->
          (match m with
           | TrData f -> tr_r_frame zdecomp aparse c st p0 size cp acc steps f
           | TrKeepAlive -> tr_r_stay st
           | _ -> tr_r_fail st)
        | RpV1 (p0, size, w) ->
          (match m with
           | TrData pl -> tr_r_v1 unzl c st p0 size w pl
           | _ -> tr_r_fail st)
        | RpMd5 (p0, w) ->
          (match m with
           | TrMd5 d -> tr_r_md5 h deq aparse c dest st p0 w d
           | _ -> tr_r_fail st)
        | RpExit ->
          (match m with
           | TrExit _ -> ((tr_r_phase st RpDone), [])
           | _ -> tr_r_fail st)
        | _ -> tr_r_stay st)
     | TrKeepAlive ->
       (match ph with
        | RpNum ->
          (match m with
           | TrNum n ->
             let (st', outs) =
               tr_r_next c (N.to_nat n) st.rs_st st.rs_names st.rs_sched
             in
             (st', ((TrSuccInt n) :: outs))
           | _ -> tr_r_fail st)
        | RpName ->
          (match m with
           | TrName p0 -> tr_r_name c dest st p0
           | _ -> tr_r_fail st)
        | RpHSize (p0, leaf0, old0) ->
          (match m with
           | TrSize n ->
             ((tr_r_phase st (RpHash (p0, leaf0, old0, n, r_init))), [])
           | _ -> tr_r_fail st)
        | RpHash (p0, leaf0, old0, ssize0, r0) ->
          (match m with
           | TrHash (step, h0) ->
             tr_r_hash hx st p0 leaf0 old0 ssize0 r0 step h0
           | TrHashOver -> tr_r_over st p0 leaf0 old0 ssize0 r0
           | _ -> tr_r_fail st)
        | RpSize p0 ->
          (match m with
           | TrSize n -> tr_r_size c st p0 n
           | _ -> tr_r_fail st)
        | RpComp (p0, size) ->
          (match m with
           | TrComp b ->
             ((tr_r_phase st (RpData (p0, size, b, [],
                (tr_cur_sched st).sc_steps))), [])
           | _ -> tr_r_fail st)
        | RpData (p0, size, cp, acc, steps) ->
          (match m with
           | TrData f -> tr_r_frame zdecomp aparse c st p0 size cp acc steps f
           | TrKeepAlive -> tr_r_stay st
           | _ -> tr_r_fail st)
        | RpV1 (p0, size, w) ->
          (match m with
           | TrData pl -> tr_r_v1 unzl c st p0 size w pl
           | _ -> tr_r_fail st)
        | RpMd5 (p0, w) ->
          (match m with
           | TrMd5 d -> tr_r_md5 h deq aparse c dest st p0 w d
           | _ -> tr_r_fail st)
        | RpExit ->
          (match m with
           | TrExit _ -> ((tr_r_phase st RpDone), [])
           | _ -> tr_r_fail st)
        | _ -> tr_r_stay st)
     | TrFail -> ((tr_r_phase st RpFail), []))
  | RpSize p ->
    let ph = RpSize p in
    (match m with
     | TrNum _ ->
       (match ph with
        | RpNum ->
          (match m with
           | TrNum n ->
             let (st', outs) =
               tr_r_next c (N.to_nat n) st.rs_st st.rs_names st.rs_sched
             in
             (st', ((TrSuccInt n) :: outs))
           | _ -> tr_r_fail st)
        | RpName ->
          (match m with
           | TrName p0 -> tr_r_name c dest st p0
           | _ -> tr_r_fail st)
        | RpHSize (p0, leaf, old) ->
          (match m with
           | TrSize n ->
             ((tr_r_phase st (RpHash (p0, leaf, old, n, r_init))), [])
           | _ -> tr_r_fail st)
        | RpHash (p0, leaf, old, ssize, r) ->
          (match m with
           | TrHash (step, h0) -> tr_r_hash hx st p0 leaf old ssize r step h0
           | TrHashOver -> tr_r_over st p0 leaf old ssize r
           | _ -> tr_r_fail st)
        | RpSize p0 ->
          (match m with
           | TrSize n -> tr_r_size c st p0 n
           | _ -> tr_r_fail st)
        | RpComp (p0, size) ->
          (match m with
           | TrComp b ->
             ((tr_r_phase st (RpData (p0, size, b, [],
                (tr_cur_sched st).sc_steps))), [])
           | _ -> tr_r_fail st)
        | RpData (p0, size, cp, acc, steps) ->
          (match m with
           | TrData f -> tr_r_frame zdecomp aparse c st p0 size cp acc steps f
           | TrKeepAlive -> tr_r_stay st
           | _ -> tr_r_fail st)
        | RpV1 (p0, size, w) ->
          (match m with
           | TrData pl -> tr_r_v1 unzl c st p0 size w pl
           | _ -> tr_r_fail st)
        | RpMd5 (p0, w) ->
          (match m with
           | TrMd5 d -> tr_r_md5 h deq aparse c dest st p0 w d
           | _ -> tr_r_fail st)
        | RpExit ->
          (match m with
           | TrExit _ -> ((tr_r_phase st RpDone), [])
           | _ -> tr_r_fail st)
        | _ -> tr_r_stay st)
     | TrName _ ->
       (match ph with
        | RpNum ->
          (match m with
           | TrNum n ->
             let (st', outs) =
               tr_r_next c (N.to_nat n) st.rs_st st.rs_names st.rs_sched
             in
             (st', ((TrSuccInt n) :: outs))
           | _ -> tr_r_fail st)
        | RpName ->
          (match m with
           | TrName p0 -> tr_r_name c dest st p0
           | _ -> tr_r_fail st)
        | RpHSize (p0, leaf, old) ->
          (match m with
           | TrSize n ->
             ((tr_r_phase st (RpHash (p0, leaf, old, n, r_init))), [])
           | _ -> tr_r_fail st)
        | RpHash (p0, leaf, old, ssize, r) ->
          (match m with
           | TrHash (step, h0) -> tr_r_hash hx st p0 leaf old ssize r step h0
           | TrHashOver -> tr_r_over st p0 leaf old ssize r
           | _ -> tr_r_fail st)
        | RpSize p0 ->
          (match m with
           | TrSize n -> tr_r_size c st p0 n
           | _ -> tr_r_fail st)
        | RpComp (p0, size) ->
          (match m with
           | TrComp b ->
             ((tr_r_phase st (RpData (p0, size, b, [],
                (tr_cur_sched st).sc_steps))), [])
           | _ -> tr_r_fail st)
        | RpData (p0, size, cp, acc, steps) ->
          (match m with
           | TrData f -> tr_r_frame zdecomp aparse c st p0 size cp acc steps f
           | TrKeepAlive -> tr_r_stay st
           | _ -> tr_r_fail st)
        | RpV1 (p0, size, w) ->
          (match m with
           | TrData pl -> tr_r_v1 unzl c st p0 size w pl
           | _ -> tr_r_fail st)
        | RpMd5 (p0, w) ->
          (match m with
           | TrMd5 d -> tr_r_md5 h deq aparse c dest st p0 w d
           | _ -> tr_r_fail st)
        | RpExit ->
          (match m with
           | TrExit _ -> ((tr_r_phase st RpDone), [])
           | _ -> tr_r_fail st)
        | _ -> tr_r_stay st)
     | TrSize _ ->
       (match ph with
        | RpNum ->
          (match m with
           | TrNum n ->
             let (st', outs) =
               tr_r_next c (N.to_nat n) st.rs_st st.rs_names st.rs_sched
             in
             (st', ((TrSuccInt n) :: outs))
           | _ -> tr_r_fail st)
        | RpName ->
          (match m with
           | TrName p0 -> tr_r_name c dest st p0
           | _ -> tr_r_fail st)
        | RpHSize (p0, leaf, old) ->
          (match m with
           | TrSize n ->
             ((tr_r_phase st (RpHash (p0, leaf, old, n, r_init))), [])
           | _ -> tr_r_fail st)
        | RpHash (p0, leaf, old, ssize, r) ->
          (match m with
           | TrHash (step, h0) -> tr_r_hash hx st p0 leaf old ssize r step h0
           | TrHashOver -> tr_r_over st p0 leaf old ssize r
           | _ -> tr_r_fail st)
        | RpSize p0 ->
          (match m with
           | TrSize n -> tr_r_size c st p0 n
           | _ -> tr_r_fail st)
        | RpComp (p0, size) ->
          (match m with
           | TrComp b ->
             ((tr_r_phase st (RpData (p0, size, b, [],
                (tr_cur_sched st).sc_steps))), [])
           | _ -> tr_r_fail st)
        | RpData (p0, size, cp, acc, steps) ->
          (match m with
           | TrData f -> tr_r_frame zdecomp aparse c st p0 size cp acc steps f
           | TrKeepAlive -> tr_r_stay st
           | _ -> tr_r_fail st)
        | RpV1 (p0, size, w) ->
          (match m with
           | TrData pl -> tr_r_v1 unzl c st p0 size w pl
           | _ -> tr_r_fail st)
        | RpMd5 (p0, w) ->
          (match m with
           | TrMd5 d -> tr_r_md5 h deq aparse c dest st p0 w d
           | _ -> tr_r_fail st)
        | RpExit ->
          (match m with
           | TrExit _ -> ((tr_r_phase st RpDone), [])
           | _ -> tr_r_fail st)
        | _ -> tr_r_stay st)
     | TrComp _ ->
       (match ph with
        | RpNum ->
          (match m with
           | TrNum n ->
             let (st', outs) =
               tr_r_next c (N.to_nat n) st.rs_st st.rs_names st.rs_sched
             in
             (st', ((TrSuccInt n) :: outs))
           | _ -> tr_r_fail st)
        | RpName ->
          (match m with
           | TrName p0 -> tr_r_name c dest st p0
           | _ -> tr_r_fail st)
        | RpHSize (p0, leaf, old) ->
          (match m with
           | TrSize n ->
             ((tr_r_phase st (RpHash (p0, leaf, old, n, r_init))), [])
           | _ -> tr_r_fail st)
        | RpHash (p0, leaf, old, ssize, r) ->
          (match m with
           | TrHash (step, h0) -> tr_r_hash hx st p0 leaf old ssize r step h0
           | TrHashOver -> tr_r_over st p0 leaf old ssize r
           | _ -> tr_r_fail st)
        | RpSize p0 ->
          (match m with
           | TrSize n -> tr_r_size c st p0 n
           | _ -> tr_r_fail st)
        | RpComp (p0, size) ->
          (match m with
           | TrComp b ->
             ((tr_r_phase st (RpData (p0, size, b, [],
                (tr_cur_sched st).sc_steps))), [])
           | _ -> tr_r_fail st)
        | RpData (p0, size, cp, acc, steps) ->
          (match m with
           | TrData f -> tr_r_frame zdecomp aparse c st p0 size cp acc steps f
           | TrKeepAlive -> tr_r_stay st
           | _ -> tr_r_fail st)
        | RpV1 (p0, size, w) ->
          (match m with
           | TrData pl -> tr_r_v1 unzl c st p0 size w pl
           | _ -> tr_r_fail st)
        | RpMd5 (p0, w) ->
          (match m with
           | TrMd5 d -> tr_r_md5 h deq aparse c dest st p0 w d
           | _ -> tr_r_fail st)
        | RpExit ->
          (match m with
           | TrExit _ -> ((tr_r_phase st RpDone), [])
           | _ -> tr_r_fail st)
        | _ -> tr_r_stay st)
     | TrData _ ->
       (match ph with
        | RpNum ->
          (match m with
           | TrNum n ->
             let (st', outs) =
               tr_r_next c (N.to_nat n) st.rs_st st.rs_names st.rs_sched
             in
             (st', ((TrSuccInt n) :: outs))
           | _ -> tr_r_fail st)
        | RpName ->
          (match m with
           | TrName p0 -> tr_r_name c dest st p0
           | _ -> tr_r_fail st)
        | RpHSize (p0, leaf, old) ->
          (match m with
           | TrSize n ->
             ((tr_r_phase st (RpHash (p0, leaf, old, n, r_init))), [])
           | _ -> tr_r_fail st)
        | RpHash (p0, leaf, old, ssize, r) ->
          (match m with
           | TrHash (step, h0) -> tr_r_hash hx st p0 leaf old ssize r step h0
           | TrHashOver -> tr_r_over st p0 leaf old ssize r
           | _ -> tr_r_fail st)
        | RpSize p0 ->
          (match m with
           | TrSize n -> tr_r_size c st p0 n
           | _ -> tr_r_fail st)
        | RpComp (p0, size) ->
          (match m with
           | TrComp b ->
             ((tr_r_phase st (RpData (p0, size, b, [],
                (tr_cur_sched st).sc_steps))), [])
           | _ -> tr_r_fail st)
        | RpData (p0, size, cp, acc, steps) ->
          (match m with
           | TrData f -> tr_r_frame zdecomp aparse c st p0 size cp acc steps f
           | TrKeepAlive -> tr_r_stay st
           | _ -> tr_r_fail st)
        | RpV1 (p0, size, w) ->
          (match m with
           | TrData pl -> tr_r_v1 unzl c st p0 size w pl
           | _ -> tr_r_fail st)
        | RpMd5 (p0, w) ->
          (match m with
           | TrMd5 d -> tr_r_md5 h deq aparse c dest st p0 w d
           | _ -> tr_r_fail st)
        | RpExit ->
          (match m with
           | TrExit _ -> ((tr_r_phase st RpDone), [])
           | _ -> tr_r_fail st)
        | _ -> tr_r_stay st)
     | TrMd5 _ ->
       (match ph with
        | RpNum ->
          (match m with
           | TrNum n ->
             let (st', outs) =
               tr_r_next c (N.to_nat n) st.rs_st st.rs_names st.rs_sched
             in
             (st', ((TrSuccInt n) :: outs))
           | _ -> tr_r_fail st)
        | RpName ->
          (match m with
           | TrName p0 -> tr_r_name c dest st p0
           | _ -> tr_r_fail st)
        | RpHSize (p0, leaf, old) ->
          (match m with
           | TrSize n ->
             ((tr_r_phase st (RpHash (p0, leaf, old, n, r_init))), [])
           | _ -> tr_r_fail st)
        | RpHash (p0, leaf, old, ssize, r) ->
          (match m with
           | TrHash (step, h0) -> tr_r_hash hx st p0 leaf old ssize r step h0
           | TrHashOver -> tr_r_over st p0 leaf old ssize r
           | _ -> tr_r_fail st)
        | RpSize p0 ->
          (match m with
           | TrSize n -> tr_r_size c st p0 n
           | _ -> tr_r_fail st)
        | RpComp (p0, size) ->
          (match m with
           | TrComp b ->
             ((tr_r_phase st (RpData (p0, size, b, [],
                (tr_cur_sched st).sc_steps))), [])
           | _ -> tr_r_fail st)
        | RpData (p0, size, cp, acc, steps) ->
          (match m with
           | TrData f -> tr_r_frame zdecomp aparse c st p0 size cp acc steps f
           | TrKeepAlive -> tr_r_stay st
           | _ -> tr_r_fail st)
        | RpV1 (p0, size, w) ->
          (match m with
           | TrData pl -> tr_r_v1 unzl c st p0 size w pl
           | _ -> tr_r_fail st)
        | RpMd5 (p0, w) ->
          (match m with
           | TrMd5 d -> tr_r_md5 h deq aparse c dest st p0 w d
           | _ -> tr_r_fail st)
        | RpExit ->
          (match m with
           | TrExit _ -> ((tr_r_phase st RpDone), [])
           | _ -> tr_r_fail st)
        | _ -> tr_r_stay st)
     | TrExit _ ->
       (match ph with
        | RpNum ->
          (match m with
           | TrNum n ->
             let (st', outs) =
               tr_r_next c (N.to_nat n) st.rs_st st.rs_names st.rs_sched
             in
             (st', ((TrSuccInt n) :: outs))
           | _ -> tr_r_fail st)
        | RpName ->
          (match m with
           | TrName p0 -> tr_r_name c dest st p0
           | _ -> tr_r_fail st)
        | RpHSize (p0, leaf, old) ->
          (match m with
           | TrSize n ->
             ((tr_r_phase st (RpHash (p0, leaf, old, n, r_init))), [])
           | _ -> tr_r_fail st)
        | RpHash (p0, leaf, old, ssize, r) ->
          (match m with
           | TrHash (step, h0) -> tr_r_hash hx st p0 leaf old ssize r step h0
           | TrHashOver -> tr_r_over st p0 leaf old ssize r
           | _ -> tr_r_fail st)
        | RpSize p0 ->
          (match m with
           | TrSize n -> tr_r_size c st p0 n
           | _ -> tr_r_fail st)
        | RpComp (p0, size) ->
          (match m with
           | TrComp b ->
             ((tr_r_phase st (RpData (p0, size, b, [],
                (tr_cur_sched st).sc_steps))), [])
           | _ -> tr_r_fail st)
        | RpData (p0, size, cp, acc, steps) ->
          (match m with
           | TrData f -> tr_r_frame zdecomp aparse c st p0 size cp acc steps f
           | TrKeepAlive -> tr_r_stay st
           | _ -> tr_r_fail st)
        | RpV1 (p0, size, w) ->
          (match m with
           | TrData pl -> tr_r_v1 unzl c st p0 size w pl
           | _ -> tr_r_fail st)
        | RpMd5 (p0, w) ->
          (match m with
           | TrMd5 d -> tr_r_md5 h deq aparse c dest st p0 w d
           | _ -> tr_r_fail st)
        | RpExit ->
          (match m with
           | TrExit _ -> ((tr_r_phase st RpDone), [])
           | _ -> tr_r_fail st)
        | _ -> tr_r_stay st)
     | TrHash (_, _) ->
       (match ph with
        | RpNum ->
          (match m with
           | TrNum n ->
             let (st', outs) =
               tr_r_next c (N.to_nat n) st.rs_st st.rs_names st.rs_sched
             in
             (st', ((TrSuccInt n) :: outs))
           | _ -> tr_r_fail st)
        | RpName ->
          (match m with
           | TrName p0 -> tr_r_name c dest st p0
           | _ -> tr_r_fail st)
        | RpHSize (p0, leaf, old) ->
          (match m with
           | TrSize n ->
             ((tr_r_phase st (RpHash (p0, leaf, old, n, r_init))), [])
           | _ -> tr_r_fail st)
        | RpHash (p0, leaf, old, ssize, r) ->
          (match m with
           | TrHash (step, h0) -> tr_r_hash hx st p0 leaf old ssize r step h0
           | TrHashOver -> tr_r_over st p0 leaf old ssize r
           | _ -> tr_r_fail st)
        | RpSize p0 ->
          (match m with
           | TrSize n -> tr_r_size c st p0 n
           | _ -> tr_r_fail st)
        | RpComp (p0, size) ->
          (match m with
           | TrComp b ->
             ((tr_r_phase st (RpData (p0, size, b, [],
                (tr_cur_sched st).sc_steps))), [])
           | _ -> tr_r_fail st)
        | RpData (p0, size, cp, acc, steps) ->
          (match m with
           | TrData f -> tr_r_frame zdecomp aparse c st p0 size cp acc steps f
           | TrKeepAlive -> tr_r_stay st
           | _ -> tr_r_fail st)
        | RpV1 (p0, size, w) ->
          (match m with
           | TrData pl -> tr_r_v1 unzl c st p0 size w pl
           | _ -> tr_r_fail st)
        | RpMd5 (p0, w) ->
          (match m with
           | TrMd5 d -> tr_r_md5 h deq aparse c dest st p0 w d
           | _ -> tr_r_fail st)
        | RpExit ->
          (match m with
           | TrExit _ -> ((tr_r_phase st RpDone), [])
           | _ -> tr_r_fail st)
        | _ -> tr_r_stay st)
     | TrHashOver ->
       (match ph with
        | RpNum ->
          (match m with
           | TrNum n ->
             let (st', outs) =
               tr_r_next c (N.to_nat n) st.rs_st st.rs_names st.rs_sched
             in
             (st', ((TrSuccInt n) :: outs))
           | _ -> tr_r_fail st)
        | RpName ->
          (match m with
           | TrName p0 -> tr_r_name c dest st p0
           | _ -> tr_r_fail st)
        | RpHSize (p0, leaf, old) ->
          (match m with
           | TrSize n ->
             ((tr_r_phase st (RpHash (p0, leaf, old, n, r_init))), [])
           | _ -> tr_r_fail st)
        | RpHash (p0, leaf, old, ssize, r) ->
          (match m with
           | TrHash (step, h0) -> tr_r_hash hx st p0 leaf old ssize r step h0
           | TrHashOver -> tr_r_over st p0 leaf old ssize r
           | _ -> tr_r_fail st)
        | RpSize p0 ->
          (match m with
           | TrSize n -> tr_r_size c st p0 n
           | _ -> tr_r_fail st)
        | RpComp (p0, size) ->
          (match m with
           | TrComp b ->
             ((tr_r_phase st (RpData (p0, size, b, [],
                (tr_cur_sched st).sc_steps))), [])
           | _ -> tr_r_fail st)
        | RpData (p0, size, cp, acc, steps) ->
          (match m with
           | TrData f -> tr_r_frame zdecomp aparse c st p0 size cp acc steps f
           | TrKeepAlive -> tr_r_stay st
           | _ -> tr_r_fail st)
        | RpV1 (p0, size, w) ->
          (match m with
           | TrData pl -> tr_r_v1 unzl c st p0 size w pl
           | _ -> tr_r_fail st)
        | RpMd5 (p0, w) ->
          (match m with
           | TrMd5 d -> tr_r_md5 h deq aparse c dest st p0 w d
           | _ -> tr_r_fail st)
        | RpExit ->
          (match m with
           | TrExit _ -> ((tr_r_phase st RpDone), [])
           | _ -> tr_r_fail st)
        | _ -> tr_r_stay st)
     | TrSuccInt _ ->
       (match ph with
        | RpNum ->
          (match m with
           | TrNum n ->
             let (st', outs) =
               tr_r_next c (N.to_nat n) st.rs_st st.rs_names st.rs_sched
             in
             (st', ((TrSuccInt n) :: outs))
           | _ -> tr_r_fail st)
        | RpName ->
          (match m with
           | TrName p0 -> tr_r_name c dest st p0
           | _ -> tr_r_fail st)
        | RpHSize (p0, leaf, old) ->
          (match m with
           | TrSize n ->
             ((tr_r_phase st (RpHash (p0, leaf, old, n, r_init))), [])
           | _ -> tr_r_fail st)
        | RpHash (p0, leaf, old, ssize, r) ->
          (match m with
           | TrHash (step, h0) -> tr_r_hash hx st p0 leaf old ssize r step h0
           | TrHashOver -> tr_r_over st p0 leaf old ssize r
           | _ -> tr_r_fail st)
        | RpSize p0 ->
          (match m with
           | TrSize n -> tr_r_size c st p0 n
           | _ -> tr_r_fail st)
        | RpComp (p0, size) ->
          (match m with
           | TrComp b ->
             ((tr_r_phase st (RpData (p0, size, b, [],
                (tr_cur_sched st).sc_steps))), [])
           | _ -> tr_r_fail st)
        | RpData (p0, size, cp, acc, steps) ->
          (match m with
           | TrData f -> tr_r_frame zdecomp aparse c st p0 size cp acc steps f
           | TrKeepAlive -> tr_r_stay st
           | _ -> tr_r_fail st)
        | RpV1 (p0, size, w) ->
          (match m with
           | TrData pl -> tr_r_v1 unzl c st p0 size w pl
           | _ -> tr_r_fail st)
        | RpMd5 (p0, w) ->
          (match m with
           | TrMd5 d -> tr_r_md5 h deq aparse c dest st p0 w d
           | _ -> tr_r_fail st)
        | RpExit ->
          (match m with
           | TrExit _ -> ((tr_r_phase st RpDone), [])
           | _ -> tr_r_fail st)
        | _ -> tr_r_stay st)
     | TrSuccName _ ->
       (match ph with
        | RpNum ->
          (match m with
           | TrNum n ->
             let (st', outs) =
               tr_r_next c (N.to_nat n) st.rs_st st.rs_names st.rs_sched
             in
             (st', ((TrSuccInt n) :: outs))
           | _ -> tr_r_fail st)
        | RpName ->
          (match m with
           | TrName p0 -> tr_r_name c dest st p0
           | _ -> tr_r_fail st)
        | RpHSize (p0, leaf, old) ->
          (match m with
           | TrSize n ->
             ((tr_r_phase st (RpHash (p0, leaf, old, n, r_init))), [])
           | _ -> tr_r_fail st)
        | RpHash (p0, leaf, old, ssize, r) ->
          (match m with
           | TrHash (step, h0) -> tr_r_hash hx st p0 leaf old ssize r step h0
           | TrHashOver -> tr_r_over st p0 leaf old ssize r
           | _ -> tr_r_fail st)
        | RpSize p0 ->
          (match m with
           | TrSize n -> tr_r_size c st p0 n
           | _ -> tr_r_fail st)
        | RpComp (p0, size) ->
          (match m with
           | TrComp b ->
             ((tr_r_phase st (RpData (p0, size, b, [],
                (tr_cur_sched st).sc_steps))), [])
           | _ -> tr_r_fail st)
        | RpData (p0, size, cp, acc, steps) ->
          (match m with
           | TrData f -> tr_r_frame zdecomp aparse c st p0 size cp acc steps f
           | TrKeepAlive -> tr_r_stay st
           | _ -> tr_r_fail st)
        | RpV1 (p0, size, w) ->
          (match m with
           | TrData pl -> tr_r_v1 unzl c st p0 size w pl
           | _ -> tr_r_fail st)
        | RpMd5 (p0, w) ->
          (match m with
           | TrMd5 d -> tr_r_md5 h deq aparse c dest st p0 w d
           | _ -> tr_r_fail st)
        | RpExit ->
          (match m with
           | TrExit _ -> ((tr_r_phase st RpDone), [])
           | _ -> tr_r_fail st)
        | _ -> tr_r_stay st)
     | TrSuccTarget (_, _) ->
       (match ph with
        | RpNum ->
          (match m with
           | TrNum n ->
             let (st', outs) =
               tr_r_next c (N.to_nat n) st.rs_st st.rs_names st.rs_sched
             in
             (st', ((TrSuccInt n) :: outs))
           | _ -> tr_r_fail st)
        | RpName ->
          (match m with
           | TrName p0 -> tr_r_name c dest st p0
           | _ -> tr_r_fail st)
        | RpHSize (p0, leaf, old) ->
          (match m with
           | TrSize n ->
             ((tr_r_phase st (RpHash (p0, leaf, old, n, r_init))), [])
           | _ -> tr_r_fail st)
        | RpHash (p0, leaf, old, ssize, r) ->
          (match m with
           | TrHash (step, h0) -> tr_r_hash hx st p0 leaf old ssize r step h0
           | TrHashOver -> tr_r_over st p0 leaf old ssize r
           | _ -> tr_r_fail st)
        | RpSize p0 ->
          (match m with
           | TrSize n -> tr_r_size c st p0 n
           | _ -> tr_r_fail st)
        | RpComp (p0, size) ->
          (match m with
           | TrComp b ->
             ((tr_r_phase st (RpData (p0, size, b, [],
                (tr_cur_sched st).sc_steps))), [])
           | _ -> tr_r_fail st)
        | RpData (p0, size, cp, acc, steps) ->
          (match m with
           | TrData f -> tr_r_frame zdecomp aparse c st p0 size cp acc steps f
           | TrKeepAlive -> tr_r_stay st
           | _ -> tr_r_fail st)
        | RpV1 (p0, size, w) ->
          (match m with
           | TrData pl -> tr_r_v1 unzl c st p0 size w pl
           | _ -> tr_r_fail st)
        | RpMd5 (p0, w) ->
          (match m with
           | TrMd5 d -> tr_r_md5 h deq aparse c dest st p0 w d
           | _ -> tr_r_fail st)
        | RpExit ->
          (match m with
           | TrExit _ -> ((tr_r_phase st RpDone), [])
           | _ -> tr_r_fail st)
        | _ -> tr_r_stay st)
     | TrSuccAck (_, _) ->
       (match ph with
        | RpNum ->
          (match m with
           | TrNum n ->
             let (st', outs) =
               tr_r_next c (N.to_nat n) st.rs_st st.rs_names st.rs_sched
             in
             (st', ((TrSuccInt n) :: outs))
           | _ -> tr_r_fail st)
        | RpName ->
          (match m with
           | TrName p0 -> tr_r_name c dest st p0
           | _ -> tr_r_fail st)
        | RpHSize (p0, leaf, old) ->
          (match m with
           | TrSize n ->
             ((tr_r_phase st (RpHash (p0, leaf, old, n, r_init))), [])
           | _ -> tr_r_fail st)
        | RpHash (p0, leaf, old, ssize, r) ->
          (match m with
           | TrHash (step, h0) -> tr_r_hash hx st p0 leaf old ssize r step h0
           | TrHashOver -> tr_r_over st p0 leaf old ssize r
           | _ -> tr_r_fail st)
        | RpSize p0 ->
          (match m with
           | TrSize n -> tr_r_size c st p0 n
           | _ -> tr_r_fail st)
        | RpComp (p0, size) ->
          (match m with
           | TrComp b ->
             ((tr_r_phase st (RpData (p0, size, b, [],
                (tr_cur_sched st).sc_steps))), [])
           | _ -> tr_r_fail st)
        | RpData (p0, size, cp, acc, steps) ->
          (match m with
           | TrData f ->
             tr_r_frame zdecomp aparse c st p0 size cp acc steps f
           | TrKeepAlive -> tr_r_stay st
           | _ -> tr_r_fail st)
        | RpV1 (p0, size, w) ->
          (match m with
           | TrData pl -> tr_r_v1 unzl c st p0 size w pl
           | _ -> tr_r_fail st)
        | RpMd5 (p0, w) ->
          (match m with
           | TrMd5 d -> tr_r_md5 h deq aparse c dest st p0 w d
           | _ -> tr_r_fail st)
        | RpExit ->
          (match m with
           | TrExit _ -> ((tr_r_phase st RpDone), [])
           | _ -> tr_r_fail st)
        | _ -> tr_r_stay st)
     | TrSuccDigest _ ->
       (match ph with
        | RpNum ->
          (match m with
           | TrNum n ->
             let (st', outs) =
               tr_r_next c (N.to_nat n) st.rs_st st.rs_names st.rs_sched
             in
             (st', ((TrSuccInt n) :: outs))
           | _ -> tr_r_fail st)
        | RpName ->
          (match m with
           | TrName p0 -> tr_r_name c dest st p0
           | _ -> tr_r_fail st)
        | RpHSize (p0, leaf, old) ->
          (match m with
           | TrSize n ->
             ((tr_r_phase st (RpHash (p0, leaf, old, n, r_init))), [])
           | _ -> tr_r_fail st)
        | RpHash (p0, leaf, old, ssize, r) ->
          (match m with
           | TrHash (step, h0) -> tr_r_hash hx st p0 leaf old ssize r step h0
           | TrHashOver -> tr_r_over st p0 leaf old ssize r
           | _ -> tr_r_fail st)
        | RpSize p0 ->
          (match m with
           | TrSize n -> tr_r_size c st p0 n
           | _ -> tr_r_fail st)
        | RpComp (p0, size) ->
          (match m with
           | TrComp b ->
             ((tr_r_phase st (RpData (p0, size, b, [],
                (tr_cur_sched st).sc_steps))), [])
           | _ -> tr_r_fail st)
        | RpData (p0, size, cp, acc, steps) ->
          (match m with
           | TrData f ->
             tr_r_frame zdecomp aparse c st p0 size cp acc steps f
           | TrKeepAlive -> tr_r_stay st
           | _ -> tr_r_fail st)
        | RpV1 (p0, size, w) ->
          (match m with
           | TrData pl -> tr_r_v1 unzl c st p0 size w pl
           | _ -> tr_r_fail st)
        | RpMd5 (p0, w) ->
          (match m with
           | TrMd5 d -> tr_r_md5 h deq aparse c dest st p0 w d
           | _ -> tr_r_fail st)
        | RpExit ->
          (match m with
           | TrExit _ -> ((tr_r_phase st RpDone), [])
           | _ -> tr_r_fail st)
        | _ -> tr_r_stay st)
     | TrSuccHack (_, _) ->
       (match ph with
        | RpNum ->
          (match m with
           | TrNum n ->
             let (st', outs) =
               tr_r_next c (N.to_nat n) st.rs_st st.rs_names st.rs_sched
             in
             (st', ((TrSuccInt n) :: outs))
           | _ -> tr_r_fail st)
        | RpName ->
          (match m with
           | TrName p0 -> tr_r_name c dest st p0
           | _ -> tr_r_fail st)
        | RpHSize (p0, leaf, old) ->
          (match m with
           | TrSize n ->
             ((tr_r_phase st (RpHash (p0, leaf, old, n, r_init))), [])
           | _ -> tr_r_fail st)
        | RpHash (p0, leaf, old, ssize, r) ->
          (match m with
           | TrHash (step, h0) -> tr_r_hash hx st p0 leaf old ssize r step h0
           | TrHashOver -> tr_r_over st p0 leaf old ssize r
           | _ -> tr_r_fail st)
        | RpSize p0 ->
          (match m with
           | TrSize n -> tr_r_size c st p0 n
           | _ -> tr_r_fail st)
        | RpComp (p0, size) ->
          (match m with
           | TrComp b ->
             ((tr_r_phase st (RpData (p0, size, b, [],
                (tr_cur_sched st).sc_steps))), [])
           | _ -> tr_r_fail st)
        | RpData (p0, size, cp, acc, steps) ->
          (match m with
           | TrData f ->
             tr_r_frame zdecomp aparse c st p0 size cp acc steps f
           | TrKeepAlive -> tr_r_stay st
           | _ -> tr_r_fail st)
        | RpV1 (p0, size, w) ->
          (match m with
           | TrData pl -> tr_r_v1 unzl c st p0 size w pl
           | _ -> tr_r_fail st)
        | RpMd5 (p0, w) ->
          (match m with
           | TrMd5 d -> tr_r_md5 h deq aparse c dest st p0 w d
           | _ -> tr_r_fail st)
        | RpExit ->
          (match m with
           | TrExit _ -> ((tr_r_phase st RpDone), [])
           | _ -> tr_r_fail st)
        | _ -> tr_r_stay st)
     | TrKeepAlive ->
       (match ph with
        | RpNum ->
          (match m with
           | TrNum n ->
             let (st', outs) =
               tr_r_next c (N.to_nat n) st.rs_st st.rs_names st.rs_sched
             in
             (st', ((TrSuccInt n) :: outs))
           | _ -> tr_r_fail st)
        | RpName ->
          (match m with
           | TrName p0 -> tr_r_name c dest st p0
           | _ -> tr_r_fail st)
        | RpHSize (p0, leaf, old) ->
          (match m with
           | TrSize n ->
             ((tr_r_phase st (RpHash (p0, leaf, old, n, r_init))), [])
           | _ -> tr_r_fail st)
        | RpHash (p0, leaf, old, ssize, r) ->
          (match m with
           | TrHash (step, h0) -> tr_r_hash hx st p0 leaf old ssize r step h0
           | TrHashOver -> tr_r_over st p0 leaf old ssize r
           | _ -> tr_r_fail st)
        | RpSize p0 ->
          (match m with
           | TrSize n -> tr_r_size c st p0 n
           | _ -> tr_r_fail st)
        | RpComp (p0, size) ->
          (match m with
           | TrComp b ->
             ((tr_r_phase st (RpData (p0, size, b, [],
                (tr_cur_sched st).sc_steps))), [])
           | _ -> tr_r_fail st)
        | RpData (p0, size, cp, acc, steps) ->
          (match m with
           | TrData f ->
             tr_r_frame zdecomp aparse c st p0 size cp acc steps f
           | TrKeepAlive -> tr_r_stay st
           | _ -> tr_r_fail st)
        | RpV1 (p0, size, w) ->
          (match m with
           | TrData pl -> tr_r_v1 unzl c st p0 size w pl
           | _ -> tr_r_fail st)
        | RpMd5 (p0, w) ->
          (match m with
           | TrMd5 d -> tr_r_md5 h deq aparse c dest st p0 w d
           | _ -> tr_r_fail st)
        | RpExit ->
          (match m with
           | TrExit _ -> ((tr_r_phase st RpDone), [])
           | _ -> tr_r_fail st)
        | _ -> tr_r_stay st)
     | TrFail -> ((tr_r_phase st RpFail), []))
  | RpComp (p, size) ->
    let ph = RpComp (p, size) in
    (match m with
     | TrNum _ ->
       (match ph with
        | RpNum ->
          (match m with
           | TrNum n ->
             let (st', outs) =
               tr_r_next c (N.to_nat n) st.rs_st st.rs_names st.rs_sched
             in
             (st', ((TrSuccInt n) :: outs))
           | _ -> tr_r_fail st)
        | RpName ->
          (match m with
           | TrName p0 -> tr_r_name c dest st p0
           | _ -> tr_r_fail st)
        | RpHSize (p0, leaf, old) ->
          (match m with
           | TrSize n ->
             ((tr_r_phase st (RpHash (p0, leaf, old, n, r_init))), [])
           | _ -> tr_r_fail st)
        | RpHash (p0, leaf, old, ssize, r) ->
          (match m with
           | TrHash (step, h0) -> tr_r_hash hx st p0 leaf old ssize r step h0
           | TrHashOver -> tr_r_over st p0 leaf old ssize r
           | _ -> tr_r_fail st)
        | RpSize p0 ->
          (match m with
           | TrSize n -> tr_r_size c st p0 n
           | _ -> tr_r_fail st)
        | RpComp (p0, size0) ->
          (match m with
           | TrComp b ->
             ((tr_r_phase st (RpData (p0, size0, b, [],
                (tr_cur_sched st).sc_steps))), [])
           | _ -> tr_r_fail st)
        | RpData (p0, size0, cp, acc, steps) ->
          (match m with
           | TrData f ->
             tr_r_frame zdecomp aparse c st p0 size0 cp acc steps f
           | TrKeepAlive -> tr_r_stay st
           | _ -> tr_r_fail st)
        | RpV1 (p0, size0, w) ->
          (match m with
           | TrData pl -> tr_r_v1 unzl c st p0 size0 w pl
           | _ -> tr_r_fail st)
        | RpMd5 (p0, w) ->
          (match m with
           | TrMd5 d -> tr_r_md5 h deq aparse c dest st p0 w d
           | _ -> tr_r_fail st)
        | RpExit ->
          (match m with
           | TrExit _ -> ((tr_r_phase st RpDone), [])
           | _ -> tr_r_fail st)
        | _ -> tr_r_stay st)
     | TrName _ ->
       (match ph with
        | RpNum ->
          (match m with
           | TrNum n ->
             let (st', outs) =
               tr_r_next c (N.to_nat n) st.rs_st st.rs_names st.rs_sched
             in
             (st', ((TrSuccInt n) :: outs))
           | _ -> tr_r_fail st)
        | RpName ->
          (match m with
           | TrName p0 -> tr_r_name c dest st p0
           | _ -> tr_r_fail st)
        | RpHSize (p0, leaf, old) ->
          (match m with
           | TrSize n ->
             ((tr_r_phase st (RpHash (p0, leaf, old, n, r_init))), [])
           | _ -> tr_r_fail st)
        | RpHash (p0, leaf, old, ssize, r) ->
          (match m with
           | TrHash (step, h0) -> tr_r_hash hx st p0 leaf old ssize r step h0
           | TrHashOver -> tr_r_over st p0 leaf old ssize r
           | _ -> tr_r_fail st)
        | RpSize p0 ->
          (match m with
           | TrSize n -> tr_r_size c st p0 n
           | _ -> tr_r_fail st)
        | RpComp (p0, size0) ->
          (match m with
           | TrComp b ->
             ((tr_r_phase st (RpData (p0, size0, b, [],
                (tr_cur_sched st).sc_steps))), [])
           | _ -> tr_r_fail st)
        | RpData (p0, size0, cp, acc, steps) ->
          (match m with
           | TrData f ->
             tr_r_frame zdecomp aparse c st p0 size0 cp acc steps f
           | TrKeepAlive -> tr_r_stay st
           | _ -> tr_r_fail st)
        | RpV1 (p0, size0, w) ->
          (match m with
           | TrData pl -> tr_r_v1 unzl c st p0 size0 w pl
           | _ -> tr_r_fail st)
        | RpMd5 (p0, w) ->
          (match m with
           | TrMd5 d -> tr_r_md5 h deq aparse c dest st p0 w d
           | _ -> tr_r_fail st)
        | RpExit ->
          (match m with
           | TrExit _ -> ((tr_r_phase st RpDone), [])
           | _ -> tr_r_fail st)
        | _ -> tr_r_stay st)
     | TrSize _ ->
       (match ph with
        | RpNum ->
          (match m with
           | TrNum n ->
             let (st', outs) =
               tr_r_next c (N.to_nat n) st.rs_st st.rs_names st.rs_sched
             in
             (st', ((TrSuccInt n) :: outs))
           | _ -> tr_r_fail st)
        | RpName ->
          (match m with
           | TrName p0 -> tr_r_name c dest st p0
           | _ -> tr_r_fail st)
        | RpHSize (p0, leaf, old) ->
          (match m with
           | TrSize n ->
             ((tr_r_phase st (RpHash (p0, leaf, old, n, r_init))), [])
           | _ -> tr_r_fail st)
        | RpHash (p0, leaf, old, ssize, r) ->
          (match m with
           | TrHash (step, h0) -> tr_r_hash hx st p0 leaf old ssize r step h0
           | TrHashOver -> tr_r_over st p0 leaf old ssize r
           | _ -> tr_r_fail st)
        | RpSize p0 ->
          (match m with
           | TrSize n -> tr_r_size c st p0 n
           | _ -> tr_r_fail st)
        | RpComp (p0, size0) ->
          (match m with
           | TrComp b ->
             ((tr_r_phase st (RpData (p0, size0, b, [],
                (tr_cur_sched st).sc_steps))), [])
           | _ -> tr_r_fail st)
        | RpData (p0, size0, cp, acc, steps) ->
          (match m with
           | TrData f ->
             tr_r_frame zdecomp aparse c st p0 size0 cp acc steps f
           | TrKeepAlive -> tr_r_stay st
           | _ -> tr_r_fail st)
        | RpV1 (p0, size0, w) ->
          (match m with
           | TrData pl -> tr_r_v1 unzl c st p0 size0 w pl
           | _ -> tr_r_fail st)
        | RpMd5 (p0, w) ->
          (match m with
           | TrMd5 d -> tr_r_md5 h deq aparse c dest st p0 w d
           | _ -> tr_r_fail st)
        | RpExit ->
          (match m with
           | TrExit _ -> ((tr_r_phase st RpDone), [])
           | _ -> tr_r_fail st)
        | _ -> tr_r_stay st)
     | TrComp _ ->
       (match ph with
        | RpNum ->
          (match m with
           | TrNum n ->
             let (st', outs) =
               tr_r_next c (N.to_nat n) st.rs_st st.rs_names st.rs_sched
             in
             (st', ((TrSuccInt n) :: outs))
           | _ -> tr_r_fail st)
        | RpName ->
          (match m with
           | TrName p0 -> tr_r_name c dest st p0
           | _ -> tr_r_fail st)
        | RpHSize (p0, leaf, old) ->
          (match m with
           | TrSize n ->
             ((tr_r_phase st (RpHash (p0, leaf, old, n, r_init))), [])
           | _ -> tr_r_fail st)
        | RpHash (p0, leaf, old, ssize, r) ->
          (match m with
           | TrHash (step, h0) -> tr_r_hash hx st p0 leaf old ssize r step h0
           | TrHashOver -> tr_r_over st p0 leaf old ssize r
           | _ -> tr_r_fail st)
        | RpSize p0 ->
          (match m with
           | TrSize n -> tr_r_size c st p0 n
           | _ -> tr_r_fail st)
        | RpComp (p0, size0) ->
          (match m with
           | TrComp b ->
             ((tr_r_phase st (RpData (p0, size0, b, [],
                (tr_cur_sched st).sc_steps))), [])
           | _ -> tr_r_fail st)
        | RpData (p0, size0, cp, acc, steps) ->
          (match m with
           | TrData f ->
             tr_r_frame zdecomp aparse c st p0 size0 cp acc steps f
           | TrKeepAlive -> tr_r_stay st
           | _ -> tr_r_fail st)
        | RpV1 (p0, size0, w) ->
          (match m with
           | TrData pl -> tr_r_v1 unzl c st p0 size0 w pl
           | _ -> tr_r_fail st)
        | RpMd5 (p0, w) ->
          (match m with
           | TrMd5 d -> tr_r_md5 h deq aparse c dest st p0 w d
           | _ -> tr_r_fail st)
        | RpExit ->
          (match m with
           | TrExit _ -> ((tr_r_phase st RpDone), [])
           | _ -> tr_r_fail st)
        | _ -> tr_r_stay st)
     | TrData _ ->
       (match ph with
        | RpNum ->
          (match m with
           | TrNum n ->
             let (st', outs) =
               tr_r_next c (N.to_nat n) st.rs_st st.rs_names st.rs_sched
             in
             (st', ((TrSuccInt n) :: outs))
           | _ -> tr_r_fail st)
        | RpName ->
          (match m with
           | TrName p0 -> tr_r_name c dest st p0
           | _ -> tr_r_fail st)
        | RpHSize (p0, leaf, old) ->
          (match m with
           | TrSize n ->
             ((tr_r_phase st (RpHash (p0, leaf, old, n, r_init))), [])
           | _ -> tr_r_fail st)
        | RpHash (p0, leaf, old, ssize, r) ->
          (match m with
           | TrHash (step, h0) -> tr_r_hash hx st p0 leaf old ssize r step h0
           | TrHashOver -> tr_r_over st p0 leaf old ssize r
           | _ -> tr_r_fail st)
        | RpSize p0 ->
          (match m with
           | TrSize n -> tr_r_size c st p0 n
           | _ -> tr_r_fail st)
        | RpComp (p0, size0) ->
          (match m with
           | TrComp b ->
             ((tr_r_phase st (RpData (p0, size0, b, [],
                (tr_cur_sched st).sc_steps))), [])
           | _ -> tr_r_fail st)
        | RpData (p0, size0, cp, acc, steps) ->
          (match m with
           | TrData f ->
             tr_r_frame zdecomp aparse c st p0 size0 cp acc steps f
           | TrKeepAlive -> tr_r_stay st
           | _ -> tr_r_fail st)
        | RpV1 (p0, size0, w) ->
          (match m with
           | TrData pl -> tr_r_v1 unzl c st p0 size0 w pl
           | _ -> tr_r_fail st)
        | RpMd5 (p0, w) ->
          (match m with
           | TrMd5 d -> tr_r_md5 h deq aparse c dest st p0 w d
           | _ -> tr_r_fail st)
        | RpExit ->
          (match m with
           | TrExit _ -> ((tr_r_phase st RpDone), [])
           | _ -> tr_r_fail st)
        | _ -> tr_r_stay st)
     | TrMd5 _ ->
       (match ph with
        | RpNum ->
          (match m with
           | TrNum n ->
             let (st', outs) =
               tr_r_next c (N.to_nat n) st.rs_st st.rs_names st.rs_sched
             in
             (st', ((TrSuccInt n) :: outs))
           | _ -> tr_r_fail st)
        | RpName ->
          (match m with
           | TrName p0 -> tr_r_name c dest st p0
           | _ -> tr_r_fail st)
        | RpHSize (p0, leaf, old) ->
          (match m with
           | TrSize n ->
             ((tr_r_phase st (RpHash (p0, leaf, old, n, r_init))), [])
           | _ -> tr_r_fail st)
        | RpHash (p0, leaf, old, ssize, r) ->
          (match m with
           | TrHash (step, h0) -> tr_r_hash hx st p0 leaf old ssize r step h0
           | TrHashOver -> tr_r_over st p0 leaf old ssize r
           | _ -> tr_r_fail st)
        | RpSize p0 ->
          (match m with
           | TrSize n -> tr_r_size c st p0 n
           | _ -> tr_r_fail st)
        | RpComp (p0, size0) ->
          (match m with
           | TrComp b ->
             ((tr_r_phase st (RpData (p0, size0, b, [],
                (tr_cur_sched st).sc_steps))), [])
           | _ -> tr_r_fail st)
        | RpData (p0, size0, cp, acc, steps) ->
          (match m with
           | TrData f ->
             tr_r_frame zdecomp aparse c st p0 size0 cp acc steps f
           | TrKeepAlive -> tr_r_stay st
           | _ -> tr_r_fail st)
        | RpV1 (p0, size0, w) ->
          (match m with
           | TrData pl -> tr_r_v1 unzl c st p0 size0 w pl
           | _ -> tr_r_fail st)
        | RpMd5 (p0, w) ->
          (match m with
           | TrMd5 d -> tr_r_md5 h deq aparse c dest st p0 w d
           | _ -> tr_r_fail st)
        | RpExit ->
          (match m with
           | TrExit _ -> ((tr_r_phase st RpDone), [])
           | _ -> tr_r_fail st)
        | _ -> tr_r_stay st)
     | TrExit _ ->
       (match ph with
        | RpNum ->
          (match m with
           | TrNum n ->
             let (st', outs) =
               tr_r_next c (N.to_nat n) st.rs_st st.rs_names st.rs_sched
             in
             (st', ((TrSuccInt n) :: outs))
           | _ -> tr_r_fail st)
        | RpName ->
          (match m with
           | TrName p0 -> tr_r_name c dest st p0
           | _ -> tr_r_fail st)
        | RpHSize (p0, leaf, old) ->
          (match m with
           | TrSize n ->
             ((tr_r_phase st (RpHash (p0, leaf, old, n, r_init))), [])
           | _ -> tr_r_fail st)
        | RpHash (p0, leaf, old, ssize, r) ->
          (match m with
           | TrHash (step, h0) -> tr_r_hash hx st p0 leaf old ssize r step h0
           | TrHashOver -> tr_r_over st p0 leaf old ssize r
           | _ -> tr_r_fail st)
        | RpSize p0 ->
          (match m with
           | TrSize n -> tr_r_size c st p0 n
           | _ -> tr_r_fail st)
        | RpComp (p0, size0) ->
          (match m with
           | TrComp b ->
             ((tr_r_phase st (RpData (p0, size0, b, [],
                (tr_cur_sched st).sc_steps))), [])
           | _ -> tr_r_fail st)
        | RpData (p0, size0, cp, acc, steps) ->
          (match m with
           | TrData f ->
             tr_r_frame zdecomp aparse c st p0 size0 cp acc steps f
           | TrKeepAlive -> tr_r_stay st
           | _ -> tr_r_fail st)
        | RpV1 (p0, size0, w) ->
          (match m with
           | TrData pl -> tr_r_v1 unzl c st p0 size0 w pl
           | _ -> tr_r_fail st)
        | RpMd5 (p0, w) ->
          (match m with
           | TrMd5 d -> tr_r_md5 h deq aparse c dest st p0 w d
           | _ -> tr_r_fail st)
        | RpExit ->
          (match m with
           | TrExit _ -> ((tr_r_phase st RpDone), [])
           | _ -> tr_r_fail st)
        | _ -> tr_r_stay st)
     | TrHash (_, _) ->
       (match ph with
        | RpNum ->
          (match m with
           | TrNum n ->
             let (st', outs) =
               tr_r_next c (N.to_nat n) st.rs_st st.rs_names st.rs_sched
             in
             (st', ((TrSuccInt n) :: outs))
           | _ -> tr_r_fail st)
        | RpName ->
          (match m with
           | TrName p0 -> tr_r_name c dest st p0
           | _ -> tr_r_fail st)
        | RpHSize (p0, leaf, old) ->
          (match m with
           | TrSize n ->
             ((tr_r_phase st (RpHash (p0, leaf, old, n, r_init))), [])
           | _ -> tr_r_fail st)
        | RpHash (p0, leaf, old, ssize, r) ->
          (match m with
           | TrHash (step, h0) -> tr_r_hash hx st p0 leaf old ssize r step h0
           | TrHashOver -> tr_r_over st p0 leaf old ssize r
           | _ -> tr_r_fail st)
        | RpSize p0 ->
          (match m with
           | TrSize n -> tr_r_size c st p0 n
           | _ -> tr_r_fail st)
        | RpComp (p0, size0) ->
          (match m with
           | TrComp b ->
             ((tr_r_phase st (RpData (p0, size0, b, [],
                (tr_cur_sched st).sc_steps))), [])
           | _ -> tr_r_fail st)
        | RpData (p0, size0, cp, acc, steps) ->
          (match m with
           | TrData f ->
             tr_r_frame zdecomp aparse c st p0 size0 cp acc steps f
           | TrKeepAlive -> tr_r_stay st
           | _ -> tr_r_fail st)
        | RpV1 (p0, size0, w) ->
          (match m with
           | TrData pl -> tr_r_v1 unzl c st p0 size0 w pl
           | _ -> tr_r_fail st)
        | RpMd5 (p0, w) ->
          (match m with
           | TrMd5 d -> tr_r_md5 h deq aparse c dest st p0 w d
           | _ -> tr_r_fail st)
        | RpExit ->
          (match m with
           | TrExit _ -> ((tr_r_phase st RpDone), [])
           | _ -> tr_r_fail st)
        | _ -> tr_r_stay st)
     | TrHashOver ->
       (match ph with
        | RpNum ->
          (match m with
           | TrNum n ->
             let (st', outs) =
               tr_r_next c (N.to_nat n) st.rs_st st.rs_names st.rs_sched
             in
             (st', ((TrSuccInt n) :: outs))
           | _ -> tr_r_fail st)
        | RpName ->
          (match m with
           | TrName p0 -> tr_r_name c dest st p0
           | _ -> tr_r_fail st)
        | RpHSize (p0, leaf, old) ->
          (match m with
           | TrSize n ->
             ((tr_r_phase st (RpHash (p0, leaf, old, n, r_init))), [])
           | _ -> tr_r_fail st)
        | RpHash (p0, leaf, old, ssize, r) ->
          (match m with
           | TrHash (step, h0) -> tr_r_hash hx st p0 leaf old ssize r step h0
           | TrHashOver -> tr_r_over st p0 leaf old ssize r
           | _ -> tr_r_fail st)
        | RpSize p0 ->
          (match m with
           | TrSize n -> tr_r_size c st p0 n
           | _ -> tr_r_fail st)
        | RpComp (p0, size0) ->
          (match m with
           | TrComp b ->
             ((tr_r_phase st (RpData (p0, size0, b, [],
                (tr_cur_sched st).sc_steps))), [])
           | _ -> tr_r_fail st)
        | RpData (p0, size0, cp, acc, steps) ->
          (match m with
           | TrData f ->
             tr_r_frame zdecomp aparse c st p0 size0 cp acc steps f
           | TrKeepAlive -> tr_r_stay st
           | _ -> tr_r_fail st)
        | RpV1 (p0, size0, w) ->
          (match m with
           | TrData pl -> tr_r_v1 unzl c st p0 size0 w pl
           | _ -> tr_r_fail st)
        | RpMd5 (p0, w) ->
          (match m with
           | TrMd5 d -> tr_r_md5 h deq aparse c dest st p0 w d
           | _ -> tr_r_fail st)
        | RpExit ->
          (match m with
           | TrExit _ -> ((tr_r_phase st RpDone), [])
           | _ -> tr_r_fail st)
        | _ -> tr_r_stay st)
     | TrSuccInt _ ->
       (match ph with
        | RpNum ->
          (match m with
           | TrNum n ->
             let (st', outs) =
               tr_r_next c (N.to_nat n) st.rs_st st.rs_names st.rs_sched
             in
             (st', ((TrSuccInt n) :: outs))
           | _ -> tr_r_fail st)
        | RpName ->
          (match m with
           | TrName p0 -> tr_r_name c dest st p0
           | _ -> tr_r_fail st)
        | RpHSize (p0, leaf, old) ->
          (match m with
           | TrSize n ->
             ((tr_r_phase st (RpHash (p0, leaf, old, n, r_init))), [])
           | _ -> tr_r_fail st)
        | RpHash (p0, leaf, old, ssize, r) ->
          (match m with
           | TrHash (step, h0) -> tr_r_hash hx st p0 leaf old ssize r step h0
           | TrHashOver -> tr_r_over st p0 leaf old ssize r
           | _ -> tr_r_fail st)
        | RpSize p0 ->
          (match m with
           | TrSize n -> tr_r_size c st p0 n
           | _ -> tr_r_fail st)
        | RpComp (p0, size0) ->
          (match m with
           | TrComp b ->
             ((tr_r_phase st (RpData (p0, size0, b, [],
                (tr_cur_sched st).sc_steps))), [])
           | _ -> tr_r_fail st)
        | RpData (p0, size0, cp, acc, steps) ->
          (match m with
           | TrData f ->
             tr_r_frame zdecomp aparse c st p0 size0 cp acc steps f
           | TrKeepAlive -> tr_r_stay st
           | _ -> tr_r_fail st)
        | RpV1 (p0, size0, w) ->
          (match m with
           | TrData pl -> tr_r_v1 unzl c st p0 size0 w pl
           | _ -> tr_r_fail st)
        | RpMd5 (p0, w) ->
          (match m with
           | TrMd5 d -> tr_r_md5 h deq aparse c dest st p0 w d
           | _ -> tr_r_fail st)
        | RpExit ->
          (match m with
           | TrExit _ -> ((tr_r_phase st RpDone), [])
           | _ -> tr_r_fail st)
        | _ -> tr_r_stay st)
     | TrSuccName _ ->
       (match ph with
        | RpNum ->
          (match m with
           | TrNum n ->
             let (st', outs) =
               tr_r_next c (N.to_nat n) st.rs_st st.rs_names st.rs_sched
             in
             (st', ((TrSuccInt n) :: outs))
           | _ -> tr_r_fail st)
        | RpName ->
          (match m with
           | TrName p0 -> tr_r_name c dest st p0
           | _ -> tr_r_fail st)
        | RpHSize (p0, leaf, old) ->
          (match m with
           | TrSize n ->
             ((tr_r_phase st (RpHash (p0, leaf, old, n, r_init))), [])
           | _ -> tr_r_fail st)
        | RpHash (p0, leaf, old, ssize, r) ->
          (match m with
           | TrHash (step, h0) -> tr_r_hash hx st p0 leaf old ssize r step h0
           | TrHashOver -> tr_r_over st p0 leaf old ssize r
           | _ -> tr_r_fail st)
        | RpSize p0 ->
          (match m with
           | TrSize n -> tr_r_size c st p0 n
           | _ -> tr_r_fail st)
        | RpComp (p0, size0) ->
          (match m with
           | TrComp b ->
             ((tr_r_phase st (RpData (p0, size0, b, [],
                (tr_cur_sched st).sc_steps))), [])
           | _ -> tr_r_fail st)
        | RpData (p0, size0, cp, acc, steps) ->
          (match m with
           | TrData f ->
             tr_r_frame zdecomp aparse c st p0 size0 cp acc steps f
           | TrKeepAlive -> tr_r_stay st
           | _ -> tr_r_fail st)
        | RpV1 (p0, size0, w) ->
          (match m with
           | TrData pl -> tr_r_v1 unzl c st p0 size0 w pl
           | _ -> tr_r_fail st)
        | RpMd5 (p0, w) ->
          (match m with
           | TrMd5 d -> tr_r_md5 h deq aparse c dest st p0 w d
           | _ -> tr_r_fail st)
        | RpExit ->
          (match m with
           | TrExit _ -> ((tr_r_phase st RpDone), [])
           | _ -> tr_r_fail st)
        | _ -> tr_r_stay st)
     | TrSuccTarget (_, _) ->
       (match ph with
        | RpNum ->
          (match m with
           | TrNum n ->
             let (st', outs) =
               tr_r_next c (N.to_nat n) st.rs_st st.rs_names st.rs_sched
             in
             (st', ((TrSuccInt n) :: outs))
           | _ -> tr_r_fail st)
        | RpName ->
          (match m with
           | TrName p0 -> tr_r_name c dest st p0
           | _ -> tr_r_fail st)
        | RpHSize (p0, leaf, old) ->
          (match m with
           | TrSize n ->
             ((tr_r_phase st (RpHash (p0, leaf, old, n, r_init))), [])
           | _ -> tr_r_fail st)
        | RpHash (p0, leaf, old, ssize, r) ->
          (match m with
           | TrHash (step, h0) -> tr_r_hash hx st p0 leaf old ssize r step h0
           | TrHashOver -> tr_r_over st p0 leaf old ssize r
           | _ -> tr_r_fail st)
        | RpSize p0 ->
          (match m with
           | TrSize n -> tr_r_size c st p0 n
           | _ -> tr_r_fail st)
        | RpComp (p0, size0) ->
          (match m with
           | TrComp b ->
             ((tr_r_phase st (RpData (p0, size0, b, [],
                (tr_cur_sched st).sc_steps))), [])
           | _ -> tr_r_fail st)
        | RpData (p0, size0, cp, acc, steps) ->
          (match m with
           | TrData f ->
             tr_r_frame zdecomp aparse c st p0 size0 cp acc steps f
           | TrKeepAlive -> tr_r_stay st
           | _ -> tr_r_fail st)
        | RpV1 (p0, size0, w) ->
          (match m with
           | TrData pl -> tr_r_v1 unzl c st p0 size0 w pl
           | _ -> tr_r_fail st)
        | RpMd5 (p0, w) ->
          (match m with
           | TrMd5 d -> tr_r_md5 h deq aparse c dest st p0 w d
           | _ -> tr_r_fail st)
        | RpExit ->
          (match m with
           | TrExit _ -> ((tr_r_phase st RpDone), [])
           | _ -> tr_r_fail st)
        | _ -> tr_r_stay st)
     | TrSuccAck (_, _) ->
       (match ph with
        | RpNum ->
          (match m with
           | TrNum n ->
             let (st', outs) =
               tr_r_next c (N.to_nat n) st.rs_st st.rs_names st.rs_sched
             in
             (st', ((TrSuccInt n) :: outs))
           | _ -> tr_r_fail st)
        | RpName ->
          (match m with
           | TrName p0 -> tr_r_name c dest st p0
           | _ -> tr_r_fail st)
        | RpHSize (p0, leaf, old) ->
          (match m with
           | TrSize n ->
             ((tr_r_phase st (RpHash (p0, leaf, old, n, r_init))), [])
           | _ -> tr_r_fail st)
        | RpHash (p0, leaf, old, ssize, r) ->
          (match m with
           | TrHash (step, h0) -> tr_r_hash hx st p0 leaf old ssize r step h0
           | TrHashOver -> tr_r_over st p0 leaf old ssize r
           | _ -> tr_r_fail st)
        | RpSize p0 ->
          (match m with
           | TrSize n -> tr_r_size c st p0 n
           | _ -> tr_r_fail st)
        | RpComp (p0, size0) ->
          (match m with
           | TrComp b ->
             ((tr_r_phase st (RpData (p0, size0, b, [],
                (tr_cur_sched st).sc_steps))), [])
           | _ -> tr_r_fail st)
        | RpData (p0, size0, cp, acc, steps) ->
          (match m with
           | TrData f ->
             tr_r_frame zdecomp aparse c st p0 size0 cp acc steps f
           | TrKeepAlive -> tr_r_stay st
           | _ -> tr_r_fail st)
        | RpV1 (p0, size0, w) ->
          (match m with
           | TrData pl -> tr_r_v1 unzl c st p0 size0 w pl
           | _ -> tr_r_fail st)
        | RpMd5 (p0, w) ->
          (match m with
           | TrMd5 d -> tr_r_md5 h deq aparse c dest st p0 w d
           | _ -> tr_r_fail st)
        | RpExit ->
          (match m with
           | TrExit _ -> ((tr_r_phase st RpDone), [])
           | _ -> tr_r_fail st)
        | _ -> tr_r_stay st)
     | TrSuccDigest _ ->
       (match ph with
        | RpNum ->
          (match m with
           | TrNum n ->
             let (st', outs) =
               tr_r_next c (N.to_nat n) st.rs_st st.rs_names st.rs_sched
             in
             (st', ((TrSuccInt n) :: outs))
           | _ -> tr_r_fail st)
        | RpName ->
          (match m with
           | TrName p0 -> tr_r_name c dest st p0
           | _ -> tr_r_fail st)
        | RpHSize (p0, leaf, old) ->
          (match m with
           | TrSize n ->
             ((tr_r_phase st (RpHash (p0, leaf, old, n, r_init))), [])
           | _ -> tr_r_fail st)
        | RpHash (p0, leaf, old, ssize, r) ->
          (match m with
           | TrHash (step, h0) -> tr_r_hash hx st p0 leaf old ssize r step h0
           | TrHashOver -> tr_r_over st p0 leaf old ssize r
           | _ -> tr_r_fail st)
        | RpSize p0 ->
          (match m with
           | TrSize n -> tr_r_size c st p0 n
           | _ -> tr_r_fail st)
        | RpComp (p0, size0) ->
          (match m with
           | TrComp b ->
             ((tr_r_phase st (RpData (p0, size0, b, [],
                (tr_cur_sched st).sc_steps))), [])
           | _ -> tr_r_fail st)
        | RpData (p0, size0, cp, acc, steps) ->
          (match m with
           | TrData f ->
             tr_r_frame zdecomp aparse c st p0 size0 cp acc steps f
           | TrKeepAlive -> tr_r_stay st
           | _ -> tr_r_fail st)
        | RpV1 (p0, size0, w) ->
          (match m with
           | TrData pl -> tr_r_v1 unzl c st p0 size0 w pl
           | _ -> tr_r_fail st)
        | RpMd5 (p0, w) ->
          (match m with
           | TrMd5 d -> tr_r_md5 h deq aparse c dest st p0 w d
           | _ -> tr_r_fail st)
        | RpExit ->
          (match m with
           | TrExit _ -> ((tr_r_phase st RpDone), [])
           | _ -> tr_r_fail st)
        | _ -> tr_r_stay st)
     | TrSuccHack (_, _) ->
       (match ph with
        | RpNum ->
          (match m with
           | TrNum n ->
             let (st', outs) =
               tr_r_next c (N.to_nat n) st.rs_st st.rs_names st.rs_sched
             in
             (st', ((TrSuccInt n) :: outs))
           | _ -> tr_r_fail st)
        | RpName ->
          (match m with
           | TrName p0 -> tr_r_name c dest st p0
           | _ -> tr_r_fail st)
        | RpHSize (p0, leaf, old) ->
          (match m with
           | TrSize n ->
             ((tr_r_phase st (RpHash (p0, leaf, old, n, r_init))), [])
           | _ -> tr_r_fail st)
        | RpHash (p0, leaf, old, ssize, r) ->
          (match m with
           | TrHash (step, h0) -> tr_r_hash hx st p0 leaf old ssize r step h0
           | TrHashOver -> tr_r_over st p0 leaf old ssize r
           | _ -> tr_r_fail st)
        | RpSize p0 ->
          (match m with
           | TrSize n -> tr_r_size c st p0 n
           | _ -> tr_r_fail st)
        | RpComp (p0, size0) ->
          (match m with
           | TrComp b ->
             ((tr_r_phase st (RpData (p0, size0, b, [],
                (tr_cur_sched st).sc_steps))), [])
           | _ -> tr_r_fail st)
        | RpData (p0, size0, cp, acc, steps) ->
          (match m with
           | TrData f ->
             tr_r_frame zdecomp aparse c st p0 size0 cp acc steps f
           | TrKeepAlive -> tr_r_stay st
           | _ -> tr_r_fail st)
        | RpV1 (p0, size0, w) ->
          (match m with
           | TrData pl -> tr_r_v1 unzl c st p0 size0 w pl
           | _ -> tr_r_fail st)
        | RpMd5 (p0, w) ->
          (match m with
           | TrMd5 d -> tr_r_md5 h deq aparse c dest st p0 w d
           | _ -> tr_r_fail st)
        | RpExit ->
          (match m with
           | TrExit _ -> ((tr_r_phase st RpDone), [])
           | _ -> tr_r_fail st)
        | _ -> tr_r_stay st)
     | TrKeepAlive ->
       (match ph with
        | RpNum ->
          (match m with
           | TrNum n ->
             let (st', outs) =
               tr_r_next c (N.to_nat n) st.rs_st st.rs_names st.rs_sched
             in
             (st', ((TrSuccInt n) :: outs))
           | _ -> tr_r_fail st)
        | RpName ->
          (match m with
           | TrName p0 -> tr_r_name c dest st p0
           | _ -> tr_r_fail st)
        | RpHSize (p0, leaf, old) ->
          (match m with
           | TrSize n ->
             ((tr_r_phase st (RpHash (p0, leaf, old, n, r_init))), [])
           | _ -> tr_r_fail st)
        | RpHash (p0, leaf, old, ssize, r) ->
          (match m with
           | TrHash (step, h0) -> tr_r_hash hx st p0 leaf old ssize r step h0
           | TrHashOver -> tr_r_over st p0 leaf old ssize r
           | _ -> tr_r_fail st)
        | RpSize p0 ->
          (match m with
           | TrSize n -> tr_r_size c st p0 n
           | _ -> tr_r_fail st)
        | RpComp (p0, size0) ->
          (match m with
           | TrComp b ->
             ((tr_r_phase st (RpData (p0, size0, b, [],
                (tr_cur_sched st).sc_steps))), [])
           | _ -> tr_r_fail st)
        | RpData (p0, size0, cp, acc, steps) ->
          (match m with
           | TrData f ->
             tr_r_frame zdecomp aparse c st p0 size0 cp acc steps f
           | TrKeepAlive -> tr_r_stay st
           | _ -> tr_r_fail st)
        | RpV1 (p0, size0, w) ->
          (match m with
           | TrData pl -> tr_r_v1 unzl c st p0 size0 w pl
           | _ -> tr_r_fail st)
        | RpMd5 (p0, w) ->
          (match m with
           | TrMd5 d -> tr_r_md5 h deq aparse c dest st p0 w d
           | _ -> tr_r_fail st)
        | RpExit ->
          (match m with
           | TrExit _ -> ((tr_r_phase st RpDone), [])
           | _ -> tr_r_fail st)
        | _ -> tr_r_stay st)
     | TrFail -> ((tr_r_phase st RpFail), []))
  | RpData (p, size, compress, acc, steps) ->
    let ph = RpData (p, size, compress, acc, steps) in
    (match m with
     | TrNum _ ->
       (match ph with
        | RpNum ->
          (match m with
           | TrNum n ->
             let (st', outs) =
               tr_r_next c (N.to_nat n) st.rs_st st.rs_names st.rs_sched
             in
             (st', ((TrSuccInt n) :: outs))
           | _ -> tr_r_fail st)
        | RpName ->
          (match m with
           | TrName p0 -> tr_r_name c dest st p0
           | _ -> tr_r_fail st)
        | RpHSize (p0, leaf, old) ->
          (match m with
           | TrSize n ->
             ((tr_r_phase st (RpHash (p0, leaf, old, n, r_init))), [])
           | _ -> tr_r_fail st)
        | RpHash (p0, leaf, old, ssize, r) ->
          (match m with
           | TrHash (step, h0) -> tr_r_hash hx st p0 leaf old ssize r step h0
           | TrHashOver -> tr_r_over st p0 leaf old ssize r
           | _ -> tr_r_fail st)
        | RpSize p0 ->
          (match m with
           | TrSize n -> tr_r_size c st p0 n
           | _ -> tr_r_fail st)
        | RpComp (p0, size0) ->
          (match m with
           | TrComp b ->
             ((tr_r_phase st (RpData (p0, size0, b, [],
                (tr_cur_sched st).sc_steps))), [])
           | _ -> tr_r_fail st)
        | RpData (p0, size0, cp, acc0, steps0) ->
          (match m with
           | TrData f ->
             tr_r_frame zdecomp aparse c st p0 size0 cp acc0 steps0 f
           | TrKeepAlive -> tr_r_stay st
           | _ -> tr_r_fail st)
        | RpV1 (p0, size0, w) ->
          (match m with
           | TrData pl -> tr_r_v1 unzl c st p0 size0 w pl
           | _ -> tr_r_fail st)
        | RpMd5 (p0, w) ->
          (match m with
           | TrMd5 d -> tr_r_md5 h deq aparse c dest st p0 w d
           | _ -> tr_r_fail st)
        | RpExit ->
          (match m with
           | TrExit _ -> ((tr_r_phase st RpDone), [])
           | _ -> tr_r_fail st)
        | _ -> tr_r_stay st)
     | TrName _ ->
       (match ph with
        | RpNum ->
          (match m with
           | TrNum n ->
             let (st', outs) =
               tr_r_next c (N.to_nat n) st.rs_st st.rs_names st.rs_sched
             in
             (st', ((TrSuccInt n) :: outs))
           | _ -> tr_r_fail st)
        | RpName ->
          (match m with
           | TrName p0 -> tr_r_name c dest st p0
           | _ -> tr_r_fail st)
        | RpHSize (p0, leaf, old) ->
          (match m with
           | TrSize n ->
             ((tr_r_phase st (RpHash (p0, leaf, old, n, r_init))), [])
           | _ -> tr_r_fail st)
        | RpHash (p0, leaf, old, ssize, r) ->
          (match m with
           | TrHash (step, h0) -> tr_r_hash hx st p0 leaf old ssize r step h0
           | TrHashOver -> tr_r_over st p0 leaf old ssize r
           | _ -> tr_r_fail st)
        | RpSize p0 ->
          (match m with
           | TrSize n -> tr_r_size c st p0 n
           | _ -> tr_r_fail st)
        | RpComp (p0, size0) ->
          (match m with
           | TrComp b ->
             ((tr_r_phase st (RpData (p0, size0, b, [],
                (tr_cur_sched st).sc_steps))), [])
           | _ -> tr_r_fail st)
        | RpData (p0, size0, cp, acc0, steps0) ->
          (match m with
           | TrData f ->
             tr_r_frame zdecomp aparse c st p0 size0 cp acc0 steps0 f
           | TrKeepAlive -> tr_r_stay st
           | _ -> tr_r_fail st)
        | RpV1 (p0, size0, w) ->
          (match m with
           | TrData pl -> tr_r_v1 unzl c st p0 size0 w pl
           | _ -> tr_r_fail st)
        | RpMd5 (p0, w) ->
          (match m with
           | TrMd5 d -> tr_r_md5 h deq aparse c dest st p0 w d
           | _ -> tr_r_fail st)
        | RpExit ->
          (match m with
           | TrExit _ -> ((tr_r_phase st RpDone), [])
           | _ -> tr_r_fail st)
        | _ -> tr_r_stay st)
     | TrSize _ ->
       (match ph with
        | RpNum ->
          (match m with
           | TrNum n ->
             let (st', outs) =
               tr_r_next c (N.to_nat n) st.rs_st st.rs_names st.rs_sched
             in
             (st', ((TrSuccInt n) :: outs))
           | _ -> tr_r_fail st)
        | RpName ->
          (match m with
           | TrName p0 -> tr_r_name c dest st p0
           | _ -> tr_r_fail st)
        | RpHSize (p0, leaf, old) ->
          (match m with
           | TrSize n ->
             ((tr_r_phase st (RpHash (p0, leaf, old, n, r_init))), [])
           | _ -> tr_r_fail st)
        | RpHash (p0, leaf, old, ssize, r) ->
          (match m with
           | TrHash (step, h0) -> tr_r_hash hx st p0 leaf old ssize r step h0
           | TrHashOver -> tr_r_over st p0 leaf old ssize r
           | _ -> tr_r_fail st)
        | RpSize p0 ->
          (match m with
           | TrSize n -> tr_r_size c st p0 n
           | _ -> tr_r_fail st)
        | RpComp (p0, size0) ->
          (match m with
           | TrComp b ->
             ((tr_r_phase st (RpData (p0, size0, b, [],
                (tr_cur_sched st).sc_steps))), [])
           | _ -> tr_r_fail st)
        | RpData (p0, size0, cp, acc0, steps0) ->
          (match m with
           | TrData f ->
             tr_r_frame zdecomp aparse c st p0 size0 cp acc0 steps0 f
           | TrKeepAlive -> tr_r_stay st
           | _ -> tr_r_fail st)
        | RpV1 (p0, size0, w) ->
          (match m with
           | TrData pl -> tr_r_v1 unzl c st p0 size0 w pl
           | _ -> tr_r_fail st)
        | RpMd5 (p0, w) ->
          (match m with
           | TrMd5 d -> tr_r_md5 h deq aparse c dest st p0 w d
           | _ -> tr_r_fail st)
        | RpExit ->
          (match m with
           | TrExit _ -> ((tr_r_phase st RpDone), [])
           | _ -> tr_r_fail st)
        | _ -> tr_r_stay st)
     | TrComp _ ->
       (match ph with
        | RpNum ->
          (match m with
           | TrNum n ->
             let (st', outs) =
               tr_r_next c (N.to_nat n) st.rs_st st.rs_names st.rs_sched
             in
             (st', ((TrSuccInt n) :: outs))
           | _ -> tr_r_fail st)
        | RpName ->
          (match m with
           | TrName p0 -> tr_r_name c dest st p0
           | _ -> tr_r_fail st)
        | RpHSize (p0, leaf, old) ->
          (match m with
           | TrSize n ->
             ((tr_r_phase st (RpHash (p0, leaf, old, n, r_init))), [])
           | _ -> tr_r_fail st)
        | RpHash (p0, leaf, old, ssize, r) ->
          (match m with
           | TrHash (step, h0) -> tr_r_hash hx st p0 leaf old ssize r step h0
           | TrHashOver -> tr_r_over st p0 leaf old ssize r
           | _ -> tr_r_fail st)
        | RpSize p0 ->
          (match m with
           | TrSize n -> tr_r_size c st p0 n
           | _ -> tr_r_fail st)
        | RpComp (p0, size0) ->
          (match m with
           | TrComp b ->
             ((tr_r_phase st (RpData (p0, size0, b, [],
                (tr_cur_sched st).sc_steps))), [])
           | _ -> tr_r_fail st)
        | RpData (p0, size0, cp, acc0, steps0) ->
          (match m with
           | TrData f ->
             tr_r_frame zdecomp aparse c st p0 size0 cp acc0 steps0 f
           | TrKeepAlive -> tr_r_stay st
           | _ -> tr_r_fail st)
        | RpV1 (p0, size0, w) ->
          (match m with
           | TrData pl -> tr_r_v1 unzl c st p0 size0 w pl
           | _ -> tr_r_fail st)
        | RpMd5 (p0, w) ->
          (match m with
           | TrMd5 d -> tr_r_md5 h deq aparse c dest st p0 w d
           | _ -> tr_r_fail st)
        | RpExit ->
          (match m with
           | TrExit _ -> ((tr_r_phase st RpDone), [])
           | _ -> tr_r_fail st)
        | _ -> tr_r_stay st)
     | TrData _ ->
       (match ph with
        | RpNum ->
          (match m with
           | TrNum n ->
             let (st', outs) =
               tr_r_next c (N.to_nat n) st.rs_st st.rs_names st.rs_sched
             in
             (st', ((TrSuccInt n) :: outs))
           | _ -> tr_r_fail st)
        | RpName ->
          (match m with
           | TrName p0 -> tr_r_name c dest st p0
           | _ -> tr_r_fail st)
        | RpHSize (p0, leaf, old) ->
          (match m with
           | TrSize n ->
             ((tr_r_phase st (RpHash (p0, leaf, old, n, r_init))), [])
           | _ -> tr_r_fail st)
        | RpHash (p0, leaf, old, ssize, r) ->
          (match m with
           | TrHash (step, h0) -> tr_r_hash hx st p0 leaf old ssize r step h0
           | TrHashOver -> tr_r_over st p0 leaf old ssize r
           | _ -> tr_r_fail st)
        | RpSize p0 ->
          (match m with
           | TrSize n -> tr_r_size c st p0 n
           | _ -> tr_r_fail st)
        | RpComp (p0, size0) ->
          (match m with
           | TrComp b ->
             ((tr_r_phase st (RpData (p0, size0, b, [],
                (tr_cur_sched st).sc_steps))), [])
           | _ -> tr_r_fail st)
        | RpData (p0, size0, cp, acc0, steps0) ->
          (match m with
           | TrData f ->
             tr_r_frame zdecomp aparse c st p0 size0 cp acc0 steps0 f
           | TrKeepAlive -> tr_r_stay st
           | _ -> tr_r_fail st)
        | RpV1 (p0, size0, w) ->
          (match m with
           | TrData pl -> tr_r_v1 unzl c st p0 size0 w pl
           | _ -> tr_r_fail st)
        | RpMd5 (p0, w) ->
          (match m with
           | TrMd5 d -> tr_r_md5 h deq aparse c dest st p0 w d
           | _ -> tr_r_fail st)
        | RpExit ->
          (match m with
           | TrExit _ -> ((tr_r_phase st RpDone), [])
           | _ -> tr_r_fail st)
        | _ -> tr_r_stay st)
     | TrMd5 _ ->
       (match ph with
        | RpNum ->
          (match m with
           | TrNum n ->
             let (st', outs) =
               tr_r_next c (N.to_nat n) st.rs_st st.rs_names st.rs_sched
             in
             (st', ((TrSuccInt n) :: outs))
           | _ -> tr_r_fail st)
        | RpName ->
          (match m with
           | TrName p0 -> tr_r_name c dest st p0
           | _ -> tr_r_fail st)
        | RpHSize (p0, leaf, old) ->
          (match m with
           | TrSize n ->
             ((tr_r_phase st (RpHash (p0, leaf, old, n, r_init))), [])
           | _ -> tr_r_fail st)
        | RpHash (p0, leaf, old, ssize, r) ->
          (match m with
           | TrHash (step, h0) -> tr_r_hash hx st p0 leaf old ssize r step h0
           | TrHashOver -> tr_r_over st p0 leaf old ssize r
           | _ -> tr_r_fail st)
        | RpSize p0 ->
          (match m with
           | TrSize n -> tr_r_size c st p0 n
           | _ -> tr_r_fail st)
        | RpComp (p0, size0) ->
          (match m with
           | TrComp b ->
             ((tr_r_phase st (RpData (p0, size0, b, [],
                (tr_cur_sched st).sc_steps))), [])
           | _ -> tr_r_fail st)
        | RpData (p0, size0, cp, acc0, steps0) ->
          (match m with
           | TrData f ->
             tr_r_frame zdecomp aparse c st p0 size0 cp acc0 steps0 f
           | TrKeepAlive -> tr_r_stay st
           | _ -> tr_r_fail st)
        | RpV1 (p0, size0, w) ->
          (match m with
           | TrData pl -> tr_r_v1 unzl c st p0 size0 w pl
           | _ -> tr_r_fail st)
        | RpMd5 (p0, w) ->
          (match m with
           | TrMd5 d -> tr_r_md5 h deq aparse c dest st p0 w d
           | _ -> tr_r_fail st)
        | RpExit ->
          (match m with
           | TrExit _ -> ((tr_r_phase st RpDone), [])
           | _ -> tr_r_fail st)
        | _ -> tr_r_stay st)
     | TrExit _ ->
       (match ph with
        | RpNum ->
          (match m with
           | TrNum n ->
             let (st', outs) =
               tr_r_next c (N.to_nat n) st.rs_st st.rs_names st.rs_sched
             in
             (st', ((TrSuccInt n) :: outs))
           | _ -> tr_r_fail st)
        | RpName ->
          (match m with
           | TrName p0 -> tr_r_name c dest st p0
           | _ -> tr_r_fail st)
        | RpHSize (p0, leaf, old) ->
          (match m with
           | TrSize n ->
             ((tr_r_phase st (RpHash (p0, leaf, old, n, r_init))), [])
           | _ -> tr_r_fail st)
        | RpHash (p0, leaf, old, ssize, r) ->
          (match m with
           | TrHash (step, h0) -> tr_r_hash hx st p0 leaf old ssize r step h0
           | TrHashOver -> tr_r_over st p0 leaf old ssize r
           | _ -> tr_r_fail st)
        | RpSize p0 ->
          (match m with
           | TrSize n -> tr_r_size c st p0 n
           | _ -> tr_r_fail st)
        | RpComp (p0, size0) ->
          (match m with
           | TrComp b ->
             ((tr_r_phase st (RpData (p0, size0, b, [],
                (tr_cur_sched st).sc_steps))), [])
           | _ -> tr_r_fail st)
        | RpData (p0, size0, cp, acc0, steps0) ->
          (match m with
           | TrData f ->
             tr_r_frame zdecomp aparse c st p0 size0 cp acc0 steps0 f
           | TrKeepAlive -> tr_r_stay st
           | _ -> tr_r_fail st)
        | RpV1 (p0, size0, w) ->
          (match m with
           | TrData pl -> tr_r_v1 unzl c st p0 size0 w pl
           | _ -> tr_r_fail st)
        | RpMd5 (p0, w) ->
          (match m with
           | TrMd5 d -> tr_r_md5 h deq aparse c dest st p0 w d
           | _ -> tr_r_fail st)
        | RpExit ->
          (match m with
           | TrExit _ -> ((tr_r_phase st RpDone), [])
           | _ -> tr_r_fail st)
        | _ -> tr_r_stay st)
     | TrHash (_, _) ->
       (match ph with
        | RpNum ->
          (match m with
           | TrNum n ->
             let (st', outs) =
               tr_r_next c (N.to_nat n) st.rs_st st.rs_names st.rs_sched
             in
             (st', ((TrSuccInt n) :: outs))
           | _ -> tr_r_fail st)
        | RpName ->
          (match m with
           | TrName p0 -> tr_r_name c dest st p0
           | _ -> tr_r_fail st)
        | RpHSize (p0, leaf, old) ->
          (match m with
           | TrSize n ->
             ((tr_r_phase st (RpHash (p0, leaf, old, n, r_init))), [])
           | _ -> tr_r_fail st)
        | RpHash (p0, leaf, old, ssize, r) ->
          (match m with
           | TrHash (step, h0) -> tr_r_hash hx st p0 leaf old ssize r step h0
           | TrHashOver -> tr_r_over st p0 leaf old ssize r
           | _ -> tr_r_fail st)
        | RpSize p0 ->
          (match m with
           | TrSize n -> tr_r_size c st p0 n
           | _ -> tr_r_fail st)
        | RpComp (p0, size0) ->
          (match m with
           | TrComp b ->
             ((tr_r_phase st (RpData (p0, size0, b, [],
                (tr_cur_sched st).sc_steps))), [])
           | _ -> tr_r_fail st)
        | RpData (p0, size0, cp, acc0, steps0) ->
          (match m with
           | TrData f ->
             tr_r_frame zdecomp aparse c st p0 size0 cp acc0 steps0 f
           | TrKeepAlive -> tr_r_stay st
           | _ -> tr_r_fail st)
        | RpV1 (p0, size0, w) ->
          (match m with
           | TrData pl -> tr_r_v1 unzl c st p0 size0 w pl
           | _ -> tr_r_fail st)
        | RpMd5 (p0, w) ->
          (match m with
           | TrMd5 d -> tr_r_md5 h deq aparse c dest st p0 w d
           | _ -> tr_r_fail st)
        | RpExit ->
          (match m with
           | TrExit _ -> ((tr_r_phase st RpDone), [])
           | _ -> tr_r_fail st)
        | _ -> tr_r_stay st)
     | TrHashOver ->
       (match ph with
        | RpNum ->
          (match m with
           | TrNum n ->
             let (st', outs) =
               tr_r_next c (N.to_nat n) st.rs_st st.rs_names st.rs_sched
             in
             (st', ((TrSuccInt n) :: outs))
           | _ -> tr_r_fail st)
        | RpName ->
          (match m with
           | TrName p0 -> tr_r_name c dest st p0
           | _ -> tr_r_fail st)
        | RpHSize (p0, leaf, old) ->
          (match m with
           | TrSize n ->
             ((tr_r_phase st (RpHash (p0, leaf, old, n, r_init))), [])
           | _ -> tr_r_fail st)
        | RpHash (p0, leaf, old, ssize, r) ->
          (match m with
           | TrHash (step, h0) -> tr_r_hash hx st p0 leaf old ssize r step h0
           | TrHashOver -> tr_r_over st p0 leaf old ssize r
           | _ -> tr_r_fail st)
        | RpSize p0 ->
          (match m with
           | TrSize n -> tr_r_size c st p0 n
           | _ -> tr_r_fail st)
        | RpComp (p0, size0) ->
          (match m with
           | TrComp b ->
             ((tr_r_phase st (RpData (p0, size0, b, [],
                (tr_cur_sched st).sc_steps))), [])
           | _ -> tr_r_fail st)
        | RpData (p0, size0, cp, acc0, steps0) ->
          (match m with
           | TrData f ->
             tr_r_frame zdecomp aparse c st p0 size0 cp acc0 steps0 f
           | TrKeepAlive -> tr_r_stay st
           | _ -> tr_r_fail st)
        | RpV1 (p0, size0, w) ->
          (match m with
           | TrData pl -> tr_r_v1 unzl c st p0 size0 w pl
           | _ -> tr_r_fail st)
        | RpMd5 (p0, w) ->
          (match m with
           | TrMd5 d -> tr_r_md5 h deq aparse c dest st p0 w d
           | _ -> tr_r_fail st)
        | RpExit ->
          (match m with
           | TrExit _ -> ((tr_r_phase st RpDone), [])
           | _ -> tr_r_fail st)
        | _ -> tr_r_stay st)
     | TrSuccInt _ ->
       (match ph with
        | RpNum ->
          (match m with
           | TrNum n ->
             let (st', outs) =
               tr_r_next c (N.to_nat n) st.rs_st st.rs_names st.rs_sched
             in
             (st', ((TrSuccInt n) :: outs))
           | _ -> tr_r_fail st)
        | RpName ->
          (match m with
           | TrName p0 -> tr_r_name c dest st p0
           | _ -> tr_r_fail st)
        | RpHSize (p0, leaf, old) ->
          (match m with
           | TrSize n ->
             ((tr_r_phase st (RpHash (p0, leaf, old, n, r_init))), [])
           | _ -> tr_r_fail st)
        | RpHash (p0, leaf, old, ssize, r) ->
          (match m with
           | TrHash (step, h0) -> tr_r_hash hx st p0 leaf old ssize r step h0
           | TrHashOver -> tr_r_over st p0 leaf old ssize r
           | _ -> tr_r_fail st)
        | RpSize p0 ->
          (match m with
           | TrSize n -> tr_r_size c st p0 n
           | _ -> tr_r_fail st)
        | RpComp (p0, size0) ->
          (match m with
           | TrComp b ->
             ((tr_r_phase st (RpData (p0, size0, b, [],
                (tr_cur_sched st).sc_steps))), [])
           | _ -> tr_r_fail st)
        | RpData (p0, size0, cp, acc0, steps0) ->
          (match m with
           | TrData f ->
             tr_r_frame zdecomp aparse c st p0 size0 cp acc0 steps0 f
           | TrKeepAlive -> tr_r_stay st
           | _ -> tr_r_fail st)
        | RpV1 (p0, size0, w) ->
          (match m with
           | TrData pl -> tr_r_v1 unzl c st p0 size0 w pl
           | _ -> tr_r_fail st)
        | RpMd5 (p0, w) ->
          (match m with
           | TrMd5 d -> tr_r_md5 h deq aparse c dest st p0 w d
           | _ -> tr_r_fail st)
        | RpExit ->
          (match m with
           | TrExit _ -> ((tr_r_phase st RpDone), [])
           | _ -> tr_r_fail st)
        | _ -> tr_r_stay st)
     | TrSuccName _ ->
       (match ph with
        | RpNum ->
          (match m with
           | TrNum n ->
             let (st', outs) =
               tr_r_next c (N.to_nat n) st.rs_st st.rs_names st.rs_sched
             in
             (st', ((TrSuccInt n) :: outs))
           | _ -> tr_r_fail st)
        | RpName ->
          (match m with
           | TrName p0 -> tr_r_name c dest st p0
           | _ -> tr_r_fail st)
        | RpHSize (p0, leaf, old) ->
          (match m with
           | TrSize n ->
             ((tr_r_phase st (RpHash (p0, leaf, old, n, r_init))), [])
           | _ -> tr_r_fail st)
        | RpHash (p0, leaf, old, ssize, r) ->
          (match m with
           | TrHash (step, h0) -> tr_r_hash hx st p0 leaf old ssize r step h0
           | TrHashOver -> tr_r_over st p0 leaf old ssize r
           | _ -> tr_r_fail st)
        | RpSize p0 ->
          (match m with
           | TrSize n -> tr_r_size c st p0 n
           | _ -> tr_r_fail st)
        | RpComp (p0, size0) ->
          (match m with
           | TrComp b ->
             ((tr_r_phase st (RpData (p0, size0, b, [],
                (tr_cur_sched st).sc_steps))), [])
           | _ -> tr_r_fail st)
        | RpData (p0, size0, cp, acc0, steps0) ->
          (match m with
           | TrData f ->
             tr_r_frame zdecomp aparse c st p0 size0 cp acc0 steps0 f
           | TrKeepAlive -> tr_r_stay st
           | _ -> tr_r_fail st)
        | RpV1 (p0, size0, w) ->
          (match m with
           | TrData pl -> tr_r_v1 unzl c st p0 size0 w pl
           | _ -> tr_r_fail st)
        | RpMd5 (p0, w) ->
          (match m with
           | TrMd5 d -> tr_r_md5 h deq aparse c dest st p0 w d
           | _ -> tr_r_fail st)
        | RpExit ->
          (match m with
           | TrExit _ -> ((tr_r_phase st RpDone), [])
           | _ -> tr_r_fail st)
        | _ -> tr_r_stay st)
     | TrSuccTarget (_, _) ->
       (match ph with
        | RpNum ->
          (match m with
           | TrNum n ->
             let (st', outs) =
               tr_r_next c (N.to_nat n) st.rs_st st.rs_names st.rs_sched
             in
             (st', ((TrSuccInt n) :: outs))
           | _ -> tr_r_fail st)
        | RpName ->
          (match m with
           | TrName p0 -> tr_r_name c dest st p0
           | _ -> tr_r_fail st)
        | RpHSize (p0, leaf, old) ->
          (match m with
           | TrSize n ->
             ((tr_r_phase st (RpHash (p0, leaf, old, n, r_init))), [])
           | _ -> tr_r_fail st)
        | RpHash (p0, leaf, old, ssize, r) ->
          (match m with
           | TrHash (step, h0) -> tr_r_hash hx st p0 leaf old ssize r step h0
           | TrHashOver -> tr_r_over st p0 leaf old ssize r
           | _ -> tr_r_fail st)
        | RpSize p0 ->
          (match m with
           | TrSize n -> tr_r_size c st p0 n
           | _ -> tr_r_fail st)
        | RpComp (p0, size0) ->
          (match m with
           | TrComp b ->
             ((tr_r_phase st (RpData (p0, size0, b, [],
                (tr_cur_sched st).sc_steps))), [])
           | _ -> tr_r_fail st)
        | RpData (p0, size0, cp, acc0, steps0) ->
          (match m with
           | TrData f ->
             tr_r_frame zdecomp aparse c st p0 size0 cp acc0 steps0 f
           | TrKeepAlive -> tr_r_stay st
           | _ -> tr_r_fail st)
        | RpV1 (p0, size0, w) ->
          (match m with
           | TrData pl -> tr_r_v1 unzl c st p0 size0 w pl
           | _ -> tr_r_fail st)
        | RpMd5 (p0, w) ->
          (match m with
           | TrMd5 d -> tr_r_md5 h deq aparse c dest st p0 w d
           | _ -> tr_r_fail st)
        | RpExit ->
          (match m with
           | TrExit _ -> ((tr_r_phase st RpDone), [])
           | _ -> tr_r_fail st)
        | _ -> tr_r_stay st)
     | TrSuccAck (_, _) ->
       (match ph with
        | RpNum ->
          (match m with
           | TrNum n ->
             let (st', outs) =
               tr_r_next c (N.to_nat n) st.rs_st st.rs_names st.rs_sched
             in
             (st', ((TrSuccInt n) :: outs))
           | _ -> tr_r_fail st)
        | RpName ->
          (match m with
           | TrName p0 -> tr_r_name c dest st p0
           | _ -> tr_r_fail st)
        | RpHSize (p0, leaf, old) ->
          (match m with
           | TrSize n ->
             ((tr_r_phase st (RpHash (p0, leaf, old, n, r_init))), [])
           | _ -> tr_r_fail st)
        | RpHash (p0, leaf, old, ssize, r) ->
          (match m with
           | TrHash (step, h0) -> tr_r_hash hx st p0 leaf old ssize r step h0
           | TrHashOver -> tr_r_over st p0 leaf old ssize r
           | _ -> tr_r_fail st)
        | RpSize p0 ->
          (match m with
           | TrSize n -> tr_r_size c st p0 n
           | _ -> tr_r_fail st)
        | RpComp (p0, size0) ->
          (match m with
           | TrComp b ->
             ((tr_r_phase st (RpData (p0, size0, b, [],
                (tr_cur_sched st).sc_steps))), [])
           | _ -> tr_r_fail st)
        | RpData (p0, size0, cp, acc0, steps0) ->
          (match m with
           | TrData f ->
             tr_r_frame zdecomp aparse c st p0 size0 cp acc0 steps0 f
           | TrKeepAlive -> tr_r_stay st
           | _ -> tr_r_fail st)
        | RpV1 (p0, size0, w) ->
          (match m with
           | TrData pl -> tr_r_v1 unzl c st p0 size0 w pl
           | _ -> tr_r_fail st)
        | RpMd5 (p0, w) ->
          (match m with
           | TrMd5 d -> tr_r_md5 h deq aparse c dest st p0 w d
           | _ -> tr_r_fail st)
        | RpExit ->
          (match m with
           | TrExit _ -> ((tr_r_phase st RpDone), [])
           | _ -> tr_r_fail st)
        | _ -> tr_r_stay st)
     | TrSuccDigest _ ->
       (match ph with
        | RpNum ->
          (match m with
           | TrNum n ->
             let (st', outs) =
               tr_r_next c (N.to_nat n) st.rs_st st.rs_names st.rs_sched
             in
             (st', ((TrSuccInt n) :: outs))
           | _ -> tr_r_fail st)
        | RpName ->
          (match m with
           | TrName p0 -> tr_r_name c dest st p0
           | _ -> tr_r_fail st)
        | RpHSize (p0, leaf, old) ->
          (match m with
           | TrSize n ->
             ((tr_r_phase st (RpHash (p0, leaf, old, n, r_init))), [])
           | _ -> tr_r_fail st)
        | RpHash (p0, leaf, old, ssize, r) ->
          (match m with
           | TrHash (step, h0) -> tr_r_hash hx st p0 leaf old ssize r step h0
           | TrHashOver -> tr_r_over st p0 leaf old ssize r
           | _ -> tr_r_fail st)
        | RpSize p0 ->
          (match m with
           | TrSize n -> tr_r_size c st p0 n
           | _ -> tr_r_fail st)
        | RpComp (p0, size0) ->
          (match m with
           | TrComp b ->
             ((tr_r_phase st (RpData (p0, size0, b, [],
                (tr_cur_sched st).sc_steps))), [])
           | _ -> tr_r_fail st)
        | RpData (p0, size0, cp, acc0, steps0) ->
          (match m with
           | TrData f ->
             tr_r_frame zdecomp aparse c st p0 size0 cp acc0 steps0 f
           | TrKeepAlive -> tr_r_stay st
           | _ -> tr_r_fail st)
        | RpV1 (p0, size0, w) ->
          (match m with
           | TrData pl -> tr_r_v1 unzl c st p0 size0 w pl
           | _ -> tr_r_fail st)
        | RpMd5 (p0, w) ->
          (match m with
           | TrMd5 d -> tr_r_md5 h deq aparse c dest st p0 w d
           | _ -> tr_r_fail st)
        | RpExit ->
          (match m with
           | TrExit _ -> ((tr_r_phase st RpDone), [])
           | _ -> tr_r_fail st)
        | _ -> tr_r_stay st)
     | TrSuccHack (_, _) ->
       (match ph with
        | RpNum ->
          (match m with
           | TrNum n ->
             let (st', outs) =
               tr_r_next c (N.to_nat n) st.rs_st st.rs_names st.rs_sched
             in
             (st', ((TrSuccInt n) :: outs))
           | _ -> tr_r_fail st)
        | RpName ->
          (match m with
           | TrName p0 -> tr_r_name c dest st p0
           | _ -> tr_r_fail st)
        | RpHSize (p0, leaf, old) ->
          (match m with
           | TrSize n ->
             ((tr_r_phase st (RpHash (p0, leaf, old, n, r_init))), [])
           | _ -> tr_r_fail st)
        | RpHash (p0, leaf, old, ssize, r) ->
          (match m with
           | TrHash (step, h0) -> tr_r_hash hx st p0 leaf old ssize r step h0
           | TrHashOver -> tr_r_over st p0 leaf old ssize r
           | _ -> tr_r_fail st)
        | RpSize p0 ->
          (match m with
           | TrSize n -> tr_r_size c st p0 n
           | _ -> tr_r_fail st)
        | RpComp (p0, size0) ->
          (match m with
           | TrComp b ->
             ((tr_r_phase st (RpData (p0, size0, b, [],
                (tr_cur_sched st).sc_steps))), [])
           | _ -> tr_r_fail st)
        | RpData (p0, size0, cp, acc0, steps0) ->
          (match m with
           | TrData f ->
             tr_r_frame zdecomp aparse c st p0 size0 cp acc0 steps0 f
           | TrKeepAlive -> tr_r_stay st
           | _ -> tr_r_fail st)
        | RpV1 (p0, size0, w) ->
          (match m with
           | TrData pl -> tr_r_v1 unzl c st p0 size0 w pl
           | _ -> tr_r_fail st)
        | RpMd5 (p0, w) ->
          (match m with
           | TrMd5 d -> tr_r_md5 h deq aparse c dest st p0 w d
           | _ -> tr_r_fail st)
        | RpExit ->
          (match m with
           | TrExit _ -> ((tr_r_phase st RpDone), [])
           | _ -> tr_r_fail st)
        | _ -> tr_r_stay st)
     | TrKeepAlive ->
       (match ph with
        | RpNum ->
          (match m with
           | TrNum n ->
             let (st', outs) =
               tr_r_next c (N.to_nat n) st.rs_st st.rs_names st.rs_sched
             in
             (st', ((TrSuccInt n) :: outs))
           | _ -> tr_r_fail st)
        | RpName ->
          (match m with
           | TrName p0 -> tr_r_name c dest st p0
           | _ -> tr_r_fail st)
        | RpHSize (p0, leaf, old) ->
          (match m with
           | TrSize n ->
             ((tr_r_phase st (RpHash (p0, leaf, old, n, r_init))), [])
           | _ -> tr_r_fail st)
        | RpHash (p0, leaf, old, ssize, r) ->
          (match m with
           | TrHash (step, h0) -> tr_r_hash hx st p0 leaf old ssize r step h0
           | TrHashOver -> tr_r_over st p0 leaf old ssize r
           | _ -> tr_r_fail st)
        | RpSize p0 ->
          (match m with
           | TrSize n -> tr_r_size c st p0 n
           | _ -> tr_r_fail st)
        | RpComp (p0, size0) ->
          (match m with
           | TrComp b ->
             ((tr_r_phase st (RpData (p0, size0, b, [],
                (tr_cur_sched st).sc_steps))), [])
           | _ -> tr_r_fail st)
        | RpData (p0, size0, cp, acc0, steps0) ->
          (match m with
           | TrData f ->
             tr_r_frame zdecomp aparse c st p0 size0 cp acc0 steps0 f
           | TrKeepAlive -> tr_r_stay st
           | _ -> tr_r_fail st)
        | RpV1 (p0, size0, w) ->
          (match m with
           | TrData pl -> tr_r_v1 unzl c st p0 size0 w pl
           | _ -> tr_r_fail st)
        | RpMd5 (p0, w) ->
          (match m with
           | TrMd5 d -> tr_r_md5 h deq aparse c dest st p0 w d
           | _ -> tr_r_fail st)
        | RpExit ->
          (match m with
           | TrExit _ -> ((tr_r_phase st RpDone), [])
           | _ -> tr_r_fail st)
        | _ -> tr_r_stay st)
     | TrFail -> ((tr_r_phase st RpFail), []))
  | RpV1 (p, size, w) ->
    let ph = RpV1 (p, size, w) in
    (match m with
     | TrNum _ ->
       (match ph with
        | RpNum ->
          (match m with
           | TrNum n ->
             let (st', outs) =
               tr_r_next c (N.to_nat n) st.rs_st st.rs_names st.rs_sched
             in
             (st', ((TrSuccInt n) :: outs))
           | _ -> tr_r_fail st)
        | RpName ->
          (match m with
           | TrName p0 -> tr_r_name c dest st p0
           | _ -> tr_r_fail st)
        | RpHSize (p0, leaf, old) ->
          (match m with
           | TrSize n ->
             ((tr_r_phase st (RpHash (p0, leaf, old, n, r_init))), [])
           | _ -> tr_r_fail st)
        | RpHash (p0, leaf, old, ssize, r) ->
          (match m with
           | TrHash (step, h0) -> tr_r_hash hx st p0 leaf old ssize r step h0
           | TrHashOver -> tr_r_over st p0 leaf old ssize r
           | _ -> tr_r_fail st)
        | RpSize p0 ->
          (match m with
           | TrSize n -> tr_r_size c st p0 n
           | _ -> tr_r_fail st)
        | RpComp (p0, size0) ->
          (match m with
           | TrComp b ->
             ((tr_r_phase st (RpData (p0, size0, b, [],
                (tr_cur_sched st).sc_steps))), [])
           | _ -> tr_r_fail st)
        | RpData (p0, size0, cp, acc, steps) ->
          (match m with
           | TrData f ->
             tr_r_frame zdecomp aparse c st p0 size0 cp acc steps f
           | TrKeepAlive -> tr_r_stay st
           | _ -> tr_r_fail st)
        | RpV1 (p0, size0, w0) ->
          (match m with
           | TrData pl -> tr_r_v1 unzl c st p0 size0 w0 pl
           | _ -> tr_r_fail st)
        | RpMd5 (p0, w0) ->
          (match m with
           | TrMd5 d -> tr_r_md5 h deq aparse c dest st p0 w0 d
           | _ -> tr_r_fail st)
        | RpExit ->
          (match m with
           | TrExit _ -> ((tr_r_phase st RpDone), [])
           | _ -> tr_r_fail st)
        | _ -> tr_r_stay st)
     | TrName _ ->
       (match ph with
        | RpNum ->
          (match m with
           | TrNum n ->
             let (st', outs) =
               tr_r_next c (N.to_nat n) st.rs_st st.rs_names st.rs_sched
             in
             (st', ((TrSuccInt n) :: outs))
           | _ -> tr_r_fail st)
        | RpName ->
          (match m with
           | TrName p0 -> tr_r_name c dest st p0
           | _ -> tr_r_fail st)
        | RpHSize (p0, leaf, old) ->
          (match m with
           | TrSize n ->
             ((tr_r_phase st (RpHash (p0, leaf, old, n, r_init))), [])
           | _ -> tr_r_fail st)
        | RpHash (p0, leaf, old, ssize, r) ->
          (match m with
           | TrHash (step, h0) -> tr_r_hash hx st p0 leaf old ssize r step h0
           | TrHashOver -> tr_r_over st p0 leaf old ssize r
           | _ -> tr_r_fail st)
        | RpSize p0 ->
          (match m with
           | TrSize n -> tr_r_size c st p0 n
           | _ -> tr_r_fail st)
        | RpComp (p0, size0) ->
          (match m with
           | TrComp b ->
             ((tr_r_phase st (RpData (p0, size0, b, [],
                (tr_cur_sched st).sc_steps))), [])
           | _ -> tr_r_fail st)
        | RpData (p0, size0, cp, acc, steps) ->
          (match m with
           | TrData f ->
             tr_r_frame zdecomp aparse c st p0 size0 cp acc steps f
           | TrKeepAlive -> tr_r_stay st
           | _ -> tr_r_fail st)
        | RpV1 (p0, size0, w0) ->
          (match m with
           | TrData pl -> tr_r_v1 unzl c st p0 size0 w0 pl
           | _ -> tr_r_fail st)
        | RpMd5 (p0, w0) ->
          (match m with
           | TrMd5 d -> tr_r_md5 h deq aparse c dest st p0 w0 d
           | _ -> tr_r_fail st)
        | RpExit ->
          (match m with
           | TrExit _ -> ((tr_r_phase st RpDone), [])
           | _ -> tr_r_fail st)
        | _ -> tr_r_stay st)
     | TrSize _ ->
       (match ph with
        | RpNum ->
          (match m with
           | TrNum n ->
             let (st', outs) =
               tr_r_next c (N.to_nat n) st.rs_st st.rs_names st.rs_sched
             in
             (st', ((TrSuccInt n) :: outs))
           | _ -> tr_r_fail st)
        | RpName ->
          (match m with
           | TrName p0 -> tr_r_name c dest st p0
           | _ -> tr_r_fail st)
        | RpHSize (p0, leaf, old) ->
          (match m with
           | TrSize n ->
             ((tr_r_phase st (RpHash (p0, leaf, old, n, r_init))), [])
           | _ -> tr_r_fail st)
        | RpHash (p0, leaf, old, ssize, r) ->
          (match m with
           | TrHash (step, h0) -> tr_r_hash hx st p0 leaf old ssize r step h0
           | TrHashOver -> tr_r_over st p0 leaf old ssize r
           | _ -> tr_r_fail st)
        | RpSize p0 ->
          (match m with
           | TrSize n -> tr_r_size c st p0 n
           | _ -> tr_r_fail st)
        | RpComp (p0, size0) ->
          (match m with
           | TrComp b ->
             ((tr_r_phase st (RpData (p0, size0, b, [],
                (tr_cur_sched st).sc_steps))), [])
           | _ -> tr_r_fail st)
        | RpData (p0, size0, cp, acc, steps) ->
          (match m with
           | TrData f ->
             tr_r_frame zdecomp aparse c st p0 size0 cp acc steps f
           | TrKeepAlive -> tr_r_stay st
           | _ -> tr_r_fail st)
        | RpV1 (p0, size0, w0) ->
          (match m with
           | TrData pl -> tr_r_v1 unzl c st p0 size0 w0 pl
           | _ -> tr_r_fail st)
        | RpMd5 (p0, w0) ->
          (match m with
           | TrMd5 d -> tr_r_md5 h deq aparse c dest st p0 w0 d
           | _ -> tr_r_fail st)
        | RpExit ->
          (match m with
           | TrExit _ -> ((tr_r_phase st RpDone), [])
           | _ -> tr_r_fail st)
        | _ -> tr_r_stay st)
     | TrComp _ ->
       (match ph with
        | RpNum ->
          (match m with
           | TrNum n ->
             let (st', outs) =
               tr_r_next c (N.to_nat n) st.rs_st st.rs_names st.rs_sched
             in
             (st', ((TrSuccInt n) :: outs))
           | _ -> tr_r_fail st)
        | RpName ->
          (match m with
           | TrName p0 -> tr_r_name c dest st p0
           | _ -> tr_r_fail st)
        | RpHSize (p0, leaf, old) ->
          (match m with
           | TrSize n ->
             ((tr_r_phase st (RpHash (p0, leaf, old, n, r_init))), [])
           | _ -> tr_r_fail st)
        | RpHash (p0, leaf, old, ssize, r) ->
          (match m with
           | TrHash (step, h0) -> tr_r_hash hx st p0 leaf old ssize r step h0
           | TrHashOver -> tr_r_over st p0 leaf old ssize r
           | _ -> tr_r_fail st)
        | RpSize p0 ->
          (match m with
           | TrSize n -> tr_r_size c st p0 n
           | _ -> tr_r_fail st)
        | RpComp (p0, size0) ->
          (match m with
           | TrComp b ->
             ((tr_r_phase st (RpData (p0, size0, b, [],
                (tr_cur_sched st).sc_steps))), [])
           | _ -> tr_r_fail st)
        | RpData (p0, size0, cp, acc, steps) ->
          (match m with
           | TrData f ->
             tr_r_frame zdecomp aparse c st p0 size0 cp acc steps f
           | TrKeepAlive -> tr_r_stay st
           | _ -> tr_r_fail st)
        | RpV1 (p0, size0, w0) ->
          (match m with
           | TrData pl -> tr_r_v1 unzl c st p0 size0 w0 pl
           | _ -> tr_r_fail st)
        | RpMd5 (p0, w0) ->
          (match m with
           | TrMd5 d -> tr_r_md5 h deq aparse c dest st p0 w0 d
           | _ -> tr_r_fail st)
        | RpExit ->
          (match m with
           | TrExit _ -> ((tr_r_phase st RpDone), [])
           | _ -> tr_r_fail st)
        | _ -> tr_r_stay st)
     | TrData _ ->
       (match ph with
        | RpNum ->
          (match m with
           | TrNum n ->
             let (st', outs) =
               tr_r_next c (N.to_nat n) st.rs_st st.rs_names st.rs_sched
             in
             (st', ((TrSuccInt n) :: outs))
           | _ -> tr_r_fail st)
        | RpName ->
          (match m with
           | TrName p0 -> tr_r_name c dest st p0
           | _ -> tr_r_fail st)
        | RpHSize (p0, leaf, old) ->
          (match m with
           | TrSize n ->
             ((tr_r_phase st (RpHash (p0, leaf, old, n, r_init))), [])
           | _ -> tr_r_fail st)
        | RpHash (p0, leaf, old, ssize, r) ->
          (match m with
           | TrHash (step, h0) -> tr_r_hash hx st p0 leaf old ssize r step h0
           | TrHashOver -> tr_r_over st p0 leaf old ssize r
           | _ -> tr_r_fail st)
        | RpSize p0 ->
          (match m with
           | TrSize n -> tr_r_size c st p0 n
           | _ -> tr_r_fail st)
        | RpComp (p0, size0) ->
          (match m with
           | TrComp b ->
             ((tr_r_phase st (RpData (p0, size0, b, [],
                (tr_cur_sched st).sc_steps))), [])
           | _ -> tr_r_fail st)
        | RpData (p0, size0, cp, acc, steps) ->
          (match m with
           | TrData f ->
             tr_r_frame zdecomp aparse c st p0 size0 cp acc steps f
           | TrKeepAlive -> tr_r_stay st
           | _ -> tr_r_fail st)
        | RpV1 (p0, size0, w0) ->
          (match m with
           | TrData pl -> tr_r_v1 unzl c st p0 size0 w0 pl
           | _ -> tr_r_fail st)
        | RpMd5 (p0, w0) ->
          (match m with
           | TrMd5 d -> tr_r_md5 h deq aparse c dest st p0 w0 d
           | _ -> tr_r_fail st)
        | RpExit ->
          (match m with
           | TrExit _ -> ((tr_r_phase st RpDone), [])
           | _ -> tr_r_fail st)
        | _ -> tr_r_stay st)
     | TrMd5 _ ->
       (match ph with
        | RpNum ->
          (match m with
           | TrNum n ->
             let (st', outs) =
               tr_r_next c (N.to_nat n) st.rs_st st.rs_names st.rs_sched
             in
             (st', ((TrSuccInt n) :: outs))
           | _ -> tr_r_fail st)
        | RpName ->
          (match m with
           | TrName p0 -> tr_r_name c dest st p0
           | _ -> tr_r_fail st)
        | RpHSize (p0, leaf, old) ->
          (match m with
           | TrSize n ->
             ((tr_r_phase st (RpHash (p0, leaf, old, n, r_init))), [])
           | _ -> tr_r_fail st)
        | RpHash (p0, leaf, old, ssize, r) ->
          (match m with
           | TrHash (step, h0) -> tr_r_hash hx st p0 leaf old ssize r step h0
           | TrHashOver -> tr_r_over st p0 leaf old ssize r
           | _ -> tr_r_fail st)
        | RpSize p0 ->
          (match m with
           | TrSize n -> tr_r_size c st p0 n
           | _ -> tr_r_fail st)
        | RpComp (p0, size0) ->
          (match m with
           | TrComp b ->
             ((tr_r_phase st (RpData (p0, size0, b, [],
                (tr_cur_sched st).sc_steps))), [])
           | _ -> tr_r_fail st)
        | RpData (p0, size0, cp, acc, steps) ->
          (match m with
           | TrData f ->
             tr_r_frame zdecomp aparse c st p0 size0 cp acc steps f
           | TrKeepAlive -> tr_r_stay st
           | _ -> tr_r_fail st)
        | RpV1 (p0, size0, w0) ->
          (match m with
           | TrData pl -> tr_r_v1 unzl c st p0 size0 w0 pl
           | _ -> tr_r_fail st)
        | RpMd5 (p0, w0) ->
          (match m with
           | TrMd5 d -> tr_r_md5 h deq aparse c dest st p0 w0 d
           | _ -> tr_r_fail st)
        | RpExit ->
          (match m with
           | TrExit _ -> ((tr_r_phase st RpDone), [])
           | _ -> tr_r_fail st)
        | _ -> tr_r_stay st)
     | TrExit _ ->
       (match ph with
        | RpNum ->
          (match m with
           | TrNum n ->
             let (st', outs) =
               tr_r_next c (N.to_nat n) st.rs_st st.rs_names st.rs_sched
             in
             (st', ((TrSuccInt n) :: outs))
           | _ -> tr_r_fail st)
        | RpName ->
          (match m with
           | TrName p0 -> tr_r_name c dest st p0
           | _ -> tr_r_fail st)
        | RpHSize (p0, leaf, old) ->
          (match m with
           | TrSize n ->
             ((tr_r_phase st (RpHash (p0, leaf, old, n, r_init))), [])
           | _ -> tr_r_fail st)
        | RpHash (p0, leaf, old, ssize, r) ->
          (match m with
           | TrHash (step, h0) -> tr_r_hash hx st p0 leaf old ssize r step h0
           | TrHashOver -> tr_r_over st p0 leaf old ssize r
           | _ -> tr_r_fail st)
        | RpSize p0 ->
          (match m with
           | TrSize n -> tr_r_size c st p0 n
           | _ -> tr_r_fail st)
        | RpComp (p0, size0) ->
          (match m with
           | TrComp b ->
             ((tr_r_phase st (RpData (p0, size0, b, [],
                (tr_cur_sched st).sc_steps))), [])
           | _ -> tr_r_fail st)
        | RpData (p0, size0, cp, acc, steps) ->
          (match m with
           | TrData f ->
             tr_r_frame zdecomp aparse c st p0 size0 cp acc steps f
           | TrKeepAlive -> tr_r_stay st
           | _ -> tr_r_fail st)
        | RpV1 (p0, size0, w0) ->
          (match m with
           | TrData pl -> tr_r_v1 unzl c st p0 size0 w0 pl
           | _ -> tr_r_fail st)
        | RpMd5 (p0, w0) ->
          (match m with
           | TrMd5 d -> tr_r_md5 h deq aparse c dest st p0 w0 d
           | _ -> tr_r_fail st)
        | RpExit ->
          (match m with
           | TrExit _ -> ((tr_r_phase st RpDone), [])
           | _ -> tr_r_fail st)
        | _ -> tr_r_stay st)
     | TrHash (_, _) ->
       (match ph with
        | RpNum ->
          (match m with
           | TrNum n ->
             let (st', outs) =
               tr_r_next c (N.to_nat n) st.rs_st st.rs_names st.rs_sched
             in
             (st', ((TrSuccInt n) :: outs))
           | _ -> tr_r_fail st)
        | RpName ->
          (match m with
           | TrName p0 -> tr_r_name c dest st p0
           | _ -> tr_r_fail st)
        | RpHSize (p0, leaf, old) ->
          (match m with
           | TrSize n ->
             ((tr_r_phase st (RpHash (p0, leaf, old, n, r_init))), [])
           | _ -> tr_r_fail st)
        | RpHash (p0, leaf, old, ssize, r) ->
          (match m with
           | TrHash (step, h0) -> tr_r_hash hx st p0 leaf old ssize r step h0
           | TrHashOver -> tr_r_over st p0 leaf old ssize r
           | _ -> tr_r_fail st)
        | RpSize p0 ->
          (match m with
           | TrSize n -> tr_r_size c st p0 n
           | _ -> tr_r_fail st)
        | RpComp (p0, size0) ->
          (match m with
           | TrComp b ->
             ((tr_r_phase st (RpData (p0, size0, b, [],
                (tr_cur_sched st).sc_steps))), [])
           | _ -> tr_r_fail st)
        | RpData (p0, size0, cp, acc, steps) ->
          (match m with
           | TrData f ->
             tr_r_frame zdecomp aparse c st p0 size0 cp acc steps f
           | TrKeepAlive -> tr_r_stay st
           | _ -> tr_r_fail st)
        | RpV1 (p0, size0, w0) ->
          (match m with
           | TrData pl -> tr_r_v1 unzl c st p0 size0 w0 pl
           | _ -> tr_r_fail st)
        | RpMd5 (p0, w0) ->
          (match m with
           | TrMd5 d -> tr_r_md5 h deq aparse c dest st p0 w0 d
           | _ -> tr_r_fail st)
        | RpExit ->
          (match m with
           | TrExit _ -> ((tr_r_phase st RpDone), [])
           | _ -> tr_r_fail st)
        | _ -> tr_r_stay st)
     | TrHashOver ->
       (match ph with
        | RpNum ->
          (match m with
           | TrNum n ->
             let (st', outs) =
               tr_r_next c (N.to_nat n) st.rs_st st.rs_names st.rs_sched
             in
             (st', ((TrSuccInt n) :: outs))
           | _ -> tr_r_fail st)
        | RpName ->
          (match m with
           | TrName p0 -> tr_r_name c dest st p0
           | _ -> tr_r_fail st)
        | RpHSize (p0, leaf, old) ->
          (match m with
           | TrSize n ->
             ((tr_r_phase st (RpHash (p0, leaf, old, n, r_init))), [])
           | _ -> tr_r_fail st)
        | RpHash (p0, leaf, old, ssize, r) ->
          (match m with
           | TrHash (step, h0) -> tr_r_hash hx st p0 leaf old ssize r step h0
           | TrHashOver -> tr_r_over st p0 leaf old ssize r
           | _ -> tr_r_fail st)
        | RpSize p0 ->
          (match m with
           | TrSize n -> tr_r_size c st p0 n
           | _ -> tr_r_fail st)
        | RpComp (p0, size0) ->
          (match m with
           | TrComp b ->
             ((tr_r_phase st (RpData (p0, size0, b, [],
                (tr_cur_sched st).sc_steps))), [])
           | _ -> tr_r_fail st)
        | RpData (p0, size0, cp, acc, steps) ->
          (match m with
           | TrData f ->
             tr_r_frame zdecomp aparse c st p0 size0 cp acc steps f
           | TrKeepAlive -> tr_r_stay st
           | _ -> tr_r_fail st)
        | RpV1 (p0, size0, w0) ->
          (match m with
           | TrData pl -> tr_r_v1 unzl c st p0 size0 w0 pl
           | _ -> tr_r_fail st)
        | RpMd5 (p0, w0) ->
          (match m with
           | TrMd5 d -> tr_r_md5 h deq aparse c dest st p0 w0 d
           | _ -> tr_r_fail st)
        | RpExit ->
          (match m with
           | TrExit _ -> ((tr_r_phase st RpDone), [])
           | _ -> tr_r_fail st)
        | _ -> tr_r_stay st)
     | TrSuccInt _ ->
       (match ph with
        | RpNum ->
          (match m with
           | TrNum n ->
             let (st', outs) =
               tr_r_next c (N.to_nat n) st.rs_st st.rs_names st.rs_sched
             in
             (st', ((TrSuccInt n) :: outs))
           | _ -> tr_r_fail st)
        | RpName ->
          (match m with
           | TrName p0 -> tr_r_name c dest st p0
           | _ -> tr_r_fail st)
        | RpHSize (p0, leaf, old) ->
          (match m with
           | TrSize n ->
             ((tr_r_phase st (RpHash (p0, leaf, old, n, r_init))), [])
           | _ -> tr_r_fail st)
        | RpHash (p0, leaf, old, ssize, r) ->
          (match m with
           | TrHash (step, h0) -> tr_r_hash hx st p0 leaf old ssize r step h0
           | TrHashOver -> tr_r_over st p0 leaf old ssize r
           | _ -> tr_r_fail st)
        | RpSize p0 ->
          (match m with
           | TrSize n -> tr_r_size c st p0 n
           | _ -> tr_r_fail st)
        | RpComp (p0, size0) ->
          (match m with
           | TrComp b ->
             ((tr_r_phase st (RpData (p0, size0, b, [],
                (tr_cur_sched st).sc_steps))), [])
           | _ -> tr_r_fail st)
        | RpData (p0, size0, cp, acc, steps) ->
          (match m with
           | TrData f ->
             tr_r_frame zdecomp aparse c st p0 size0 cp acc steps f
           | TrKeepAlive -> tr_r_stay st
           | _ -> tr_r_fail st)
        | RpV1 (p0, size0, w0) ->
          (match m with
           | TrData pl -> tr_r_v1 unzl c st p0 size0 w0 pl
           | _ -> tr_r_fail st)
        | RpMd5 (p0, w0) ->
          (match m with
           | TrMd5 d -> tr_r_md5 h deq aparse c dest st p0 w0 d
           | _ -> tr_r_fail st)
        | RpExit ->
          (match m with
           | TrExit _ -> ((tr_r_phase st RpDone), [])
           | _ -> tr_r_fail st)
        | _ -> tr_r_stay st)
     | TrSuccName _ ->
       (match ph with
        | RpNum ->
          (match m with
           | TrNum n ->
             let (st', outs) =
               tr_r_next c (N.to_nat n) st.rs_st st.rs_names st.rs_sched
             in
             (st', ((TrSuccInt n) :: outs))
           | _ -> tr_r_fail st)
        | RpName ->
          (match m with
           | TrName p0 -> tr_r_name c dest st p0
           | _ -> tr_r_fail st)
        | RpHSize (p0, leaf, old) ->
          (match m with
           | TrSize n ->
             ((tr_r_phase st (RpHash (p0, leaf, old, n, r_init))), [])
           | _ -> tr_r_fail st)
        | RpHash (p0, leaf, old, ssize, r) ->
          (match m with
           | TrHash (step, h0) -> tr_r_hash hx st p0 leaf old ssize r step h0
           | TrHashOver -> tr_r_over st p0 leaf old ssize r
           | _ -> tr_r_fail st)
        | RpSize p0 ->
          (match m with
           | TrSize n -> tr_r_size c st p0 n
           | _ -> tr_r_fail st)
        | RpComp (p0, size0) ->
          (match m with
           | TrComp b ->
             ((tr_r_phase st (RpData (p0, size0, b, [],
                (tr_cur_sched st).sc_steps))), [])
           | _ -> tr_r_fail st)
        | RpData (p0, size0, cp, acc, steps) ->
          (match m with
           | TrData f ->
             tr_r_frame zdecomp aparse c st p0 size0 cp acc steps f
           | TrKeepAlive -> tr_r_stay st
           | _ -> tr_r_fail st)
        | RpV1 (p0, size0, w0) ->
          (match m with
           | TrData pl -> tr_r_v1 unzl c st p0 size0 w0 pl
           | _ -> tr_r_fail st)
        | RpMd5 (p0, w0) ->
          (match m with
           | TrMd5 d -> tr_r_md5 h deq aparse c dest st p0 w0 d
           | _ -> tr_r_fail st)
        | RpExit ->
          (match m with
           | TrExit _ -> ((tr_r_phase st RpDone), [])
           | _ -> tr_r_fail st)
        | _ -> tr_r_stay st)
     | TrSuccTarget (_, _) ->
       (match ph with
        | RpNum ->
          (match m with
           | TrNum n ->
             let (st', outs) =
               tr_r_next c (N.to_nat n) st.rs_st st.rs_names st.rs_sched
             in
             (st', ((TrSuccInt n) :: outs))
           | _ -> tr_r_fail st)
        | RpName ->
          (match m with
           | TrName p0 -> tr_r_name c dest st p0
           | _ -> tr_r_fail st)
        | RpHSize (p0, leaf, old) ->
          (match m with
           | TrSize n ->
             ((tr_r_phase st (RpHash (p0, leaf, old, n, r_init))), [])
           | _ -> tr_r_fail st)
        | RpHash (p0, leaf, old, ssize, r) ->
          (match m with
           | TrHash (step, h0) -> tr_r_hash hx st p0 leaf old ssize r step h0
           | TrHashOver -> tr_r_over st p0 leaf old ssize r
           | _ -> tr_r_fail st)
        | RpSize p0 ->
          (match m with
           | TrSize n -> tr_r_size c st p0 n
           | _ -> tr_r_fail st)
        | RpComp (p0, size0) ->
          (match m with
           | TrComp b ->
             ((tr_r_phase st (RpData (p0, size0, b, [],
                (tr_cur_sched st).sc_steps))), [])
           | _ -> tr_r_fail st)
        | RpData (p0, size0, cp, acc, steps) ->
          (match m with
           | TrData f ->
             tr_r_frame zdecomp aparse c st p0 size0 cp acc steps f
           | TrKeepAlive -> tr_r_stay st
           | _ -> tr_r_fail st)
        | RpV1 (p0, size0, w0) ->
          (match m with
           | TrData pl -> tr_r_v1 unzl c st p0 size0 w0 pl
           | _ -> tr_r_fail st)
        | RpMd5 (p0, w0) ->
          (match m with
           | TrMd5 d -> tr_r_md5 h deq aparse c dest st p0 w0 d
           | _ -> tr_r_fail st)
        | RpExit ->
          (match m with
           | TrExit _ -> ((tr_r_phase st RpDone), [])
           | _ -> tr_r_fail st)
        | _ -> tr_r_stay st)
     | TrSuccAck (_, _) ->
       (match ph with
        | RpNum ->
          (match m with
           | TrNum n ->
             let (st', outs) =
               tr_r_next c (N.to_nat n) st.rs_st st.rs_names st.rs_sched
             in
             (st', ((TrSuccInt n) :: outs))
           | _ -> tr_r_fail st)
        | RpName ->
          (match m with
           | TrName p0 -> tr_r_name c dest st p0
           | _ -> tr_r_fail st)
        | RpHSize (p0, leaf, old) ->
          (match m with
           | TrSize n ->
             ((tr_r_phase st (RpHash (p0, leaf, old, n, r_init))), [])
           | _ -> tr_r_fail st)
        | RpHash (p0, leaf, old, ssize, r) ->
          (match m with
           | TrHash (step, h0) -> tr_r_hash hx st p0 leaf old ssize r step h0
           | TrHashOver -> tr_r_over st p0 leaf old ssize r
           | _ -> tr_r_fail st)
        | RpSize p0 ->
          (match m with
           | TrSize n -> tr_r_size c st p0 n
           | _ -> tr_r_fail st)
        | RpComp (p0, size0) ->
          (match m with
           | TrComp b ->
             ((tr_r_phase st (RpData (p0, size0, b, [],
                (tr_cur_sched st).sc_steps))), [])
           | _ -> tr_r_fail st)
        | RpData (p0, size0, cp, acc, steps) ->
          (match m with
           | TrData f ->
             tr_r_frame zdecomp aparse c st p0 size0 cp acc steps f
           | TrKeepAlive -> tr_r_stay st
           | _ -> tr_r_fail st)
        | RpV1 (p0, size0, w0) ->
          (match m with
           | TrData pl -> tr_r_v1 unzl c st p0 size0 w0 pl
           | _ -> tr_r_fail st)
        | RpMd5 (p0, w0) ->
          (match m with
           | TrMd5 d -> tr_r_md5 h deq aparse c dest st p0 w0 d
           | _ -> tr_r_fail st)
        | RpExit ->
          (match m with
           | TrExit _ -> ((tr_r_phase st RpDone), [])
           | _ -> tr_r_fail st)
        | _ -> tr_r_stay st)
     | TrSuccDigest _ ->
       (match ph with
        | RpNum ->
          (match m with
           | TrNum n ->
             let (st', outs) =
               tr_r_next c (N.to_nat n) st.rs_st st.rs_names st.rs_sched
             in
             (st', ((TrSuccInt n) :: outs))
           | _ -> tr_r_fail st)
        | RpName ->
          (match m with
           | TrName p0 -> tr_r_name c dest st p0
           | _ -> tr_r_fail st)
        | RpHSize (p0, leaf, old) ->
          (match m with
           | TrSize n ->
             ((tr_r_phase st (RpHash (p0, leaf, old, n, r_init))), [])
           | _ -> tr_r_fail st)
        | RpHash (p0, leaf, old, ssize, r) ->
          (match m with
           | TrHash (step, h0) -> tr_r_hash hx st p0 leaf old ssize r step h0
           | TrHashOver -> tr_r_over st p0 leaf old ssize r
           | _ -> tr_r_fail st)
        | RpSize p0 ->
          (match m with
           | TrSize n -> tr_r_size c st p0 n
           | _ -> tr_r_fail st)
        | RpComp (p0, size0) ->
          (match m with
           | TrComp b ->
             ((tr_r_phase st (RpData (p0, size0, b, [],
                (tr_cur_sched st).sc_steps))), [])
           | _ -> tr_r_fail st)
        | RpData (p0, size0, cp, acc, steps) ->
          (match m with
           | TrData f ->
             tr_r_frame zdecomp aparse c st p0 size0 cp acc steps f
           | TrKeepAlive -> tr_r_stay st
           | _ -> tr_r_fail st)
        | RpV1 (p0, size0, w0) ->
          (match m with
           | TrData pl -> tr_r_v1 unzl c st p0 size0 w0 pl
           | _ -> tr_r_fail st)
        | RpMd5 (p0, w0) ->
          (match m with
           | TrMd5 d -> tr_r_md5 h deq aparse c dest st p0 w0 d
           | _ -> tr_r_fail st)
        | RpExit ->
          (match m with
           | TrExit _ -> ((tr_r_phase st RpDone), [])
           | _ -> tr_r_fail st)
        | _ -> tr_r_stay st)
     | TrSuccHack (_, _) ->
       (match ph with
        | RpNum ->
          (match m with
           | TrNum n ->
             let (st', outs) =
               tr_r_next c (N.to_nat n) st.rs_st st.rs_names st.rs_sched
             in
             (st', ((TrSuccInt n) :: outs))
           | _ -> tr_r_fail st)
        | RpName ->
          (match m with
           | TrName p0 -> tr_r_name c dest st p0
           | _ -> tr_r_fail st)
        | RpHSize (p0, leaf, old) ->
          (match m with
           | TrSize n ->
             ((tr_r_phase st (RpHash (p0, leaf, old, n, r_init))), [])
           | _ -> tr_r_fail st)
        | RpHash (p0, leaf, old, ssize, r) ->
          (match m with
           | TrHash (step, h0) -> tr_r_hash hx st p0 leaf old ssize r step h0
           | TrHashOver -> tr_r_over st p0 leaf old ssize r
           | _ -> tr_r_fail st)
        | RpSize p0 ->
          (match m with
           | TrSize n -> tr_r_size c st p0 n
           | _ -> tr_r_fail st)
        | RpComp (p0, size0) ->
          (match m with
           | TrComp b ->
             ((tr_r_phase st (RpData (p0, size0, b, [],
                (tr_cur_sched st).sc_steps))), [])
           | _ -> tr_r_fail st)
        | RpData (p0, size0, cp, acc, steps) ->
          (match m with
           | TrData f ->
             tr_r_frame zdecomp aparse c st p0 size0 cp acc steps f
           | TrKeepAlive -> tr_r_stay st
           | _ -> tr_r_fail st)
        | RpV1 (p0, size0, w0) ->
          (match m with
           | TrData pl -> tr_r_v1 unzl c st p0 size0 w0 pl
           | _ -> tr_r_fail st)
        | RpMd5 (p0, w0) ->
          (match m with
           | TrMd5 d -> tr_r_md5 h deq aparse c dest st p0 w0 d
           | _ -> tr_r_fail st)
        | RpExit ->
          (match m with
           | TrExit _ -> ((tr_r_phase st RpDone), [])
           | _ -> tr_r_fail st)
        | _ -> tr_r_stay st)
     | TrKeepAlive ->
       (match ph with
        | RpNum ->
          (match m with
           | TrNum n ->
             let (st', outs) =
               tr_r_next c (N.to_nat n) st.rs_st st.rs_names st.rs_sched
             in
             (st', ((TrSuccInt n) :: outs))
           | _ -> tr_r_fail st)
        | RpName ->
          (match m with
           | TrName p0 -> tr_r_name c dest st p0
           | _ -> tr_r_fail st)
        | RpHSize (p0, leaf, old) ->
          (match m with
           | TrSize n ->
             ((tr_r_phase st (RpHash (p0, leaf, old, n, r_init))), [])
           | _ -> tr_r_fail st)
        | RpHash (p0, leaf, old, ssize, r) ->
          (match m with
           | TrHash (step, h0) -> tr_r_hash hx st p0 leaf old ssize r step h0
           | TrHashOver -> tr_r_over st p0 leaf old ssize r
           | _ -> tr_r_fail st)
        | RpSize p0 ->
          (match m with
           | TrSize n -> tr_r_size c st p0 n
           | _ -> tr_r_fail st)
        | RpComp (p0, size0) ->
          (match m with
           | TrComp b ->
             ((tr_r_phase st (RpData (p0, size0, b, [],
                (tr_cur_sched st).sc_steps))), [])
           | _ -> tr_r_fail st)
        | RpData (p0, size0, cp, acc, steps) ->
          (match m with
           | TrData f ->
             tr_r_frame zdecomp aparse c st p0 size0 cp acc steps f
           | TrKeepAlive -> tr_r_stay st
           | _ -> tr_r_fail st)
        | RpV1 (p0, size0, w0) ->
          (match m with
           | TrData pl -> tr_r_v1 unzl c st p0 size0 w0 pl
           | _ -> tr_r_fail st)
        | RpMd5 (p0, w0) ->
          (match m with
           | TrMd5 d -> tr_r_md5 h deq aparse c dest st p0 w0 d
           | _ -> tr_r_fail st)
        | RpExit ->
          (match m with
           | TrExit _ -> ((tr_r_phase st RpDone), [])
           | _ -> tr_r_fail st)
        | _ -> tr_r_stay st)
     | TrFail -> ((tr_r_phase st RpFail), []))
  | RpMd5 (p, w) ->
    let ph = RpMd5 (p, w) in
    (match m with
     | TrNum _ ->
       (match ph with
        | RpNum ->
          (match m with
           | TrNum n ->
             let (st', outs) =
               tr_r_next c (N.to_nat n) st.rs_st st.rs_names st.rs_sched
             in
             (st', ((TrSuccInt n) :: outs))
           | _ -> tr_r_fail st)
        | RpName ->
          (match m with
           | TrName p0 -> tr_r_name c dest st p0
           | _ -> tr_r_fail st)
        | RpHSize (p0, leaf, old) ->
          (match m with
           | TrSize n ->
             ((tr_r_phase st (RpHash (p0, leaf, old, n, r_init))), [])
           | _ -> tr_r_fail st)
        | RpHash (p0, leaf, old, ssize, r) ->
          (match m with
           | TrHash (step, h0) -> tr_r_hash hx st p0 leaf old ssize r step h0
           | TrHashOver -> tr_r_over st p0 leaf old ssize r
           | _ -> tr_r_fail st)
        | RpSize p0 ->
          (match m with
           | TrSize n -> tr_r_size c st p0 n
           | _ -> tr_r_fail st)
        | RpComp (p0, size) ->
          (match m with
           | TrComp b ->
             ((tr_r_phase st (RpData (p0, size, b, [],
                (tr_cur_sched st).sc_steps))), [])
           | _ -> tr_r_fail st)
        | RpData (p0, size, cp, acc, steps) ->
          (match m with
           | TrData f ->
             tr_r_frame zdecomp aparse c st p0 size cp acc steps f
           | TrKeepAlive -> tr_r_stay st
           | _ -> tr_r_fail st)
        | RpV1 (p0, size, w0) ->
          (match m with
           | TrData pl -> tr_r_v1 unzl c st p0 size w0 pl
           | _ -> tr_r_fail st)
        | RpMd5 (p0, w0) ->
          (match m with
           | TrMd5 d -> tr_r_md5 h deq aparse c dest st p0 w0 d
           | _ -> tr_r_fail st)
        | RpExit ->
          (match m with
           | TrExit _ -> ((tr_r_phase st RpDone), [])
           | _ -> tr_r_fail st)
        | _ -> tr_r_stay st)
     | TrName _ ->
       (match ph with
        | RpNum ->
          (match m with
           | TrNum n ->
             let (st', outs) =
               tr_r_next c (N.to_nat n) st.rs_st st.rs_names st.rs_sched
             in
             (st', ((TrSuccInt n) :: outs))
           | _ -> tr_r_fail st)
        | RpName ->
          (match m with
           | TrName p0 -> tr_r_name c dest st p0
           | _ -> tr_r_fail st)
        | RpHSize (p0, leaf, old) ->
          (match m with
           | TrSize n ->
             ((tr_r_phase st (RpHash (p0, leaf, old, n, r_init))), [])
           | _ -> tr_r_fail st)
        | RpHash (p0, leaf, old, ssize, r) ->
          (match m with
           | TrHash (step, h0) -> tr_r_hash hx st p0 leaf old ssize r step h0
           | TrHashOver -> tr_r_over st p0 leaf old ssize r
           | _ -> tr_r_fail st)
        | RpSize p0 ->
          (match m with
           | TrSize n -> tr_r_size c st p0 n
           | _ -> tr_r_fail st)
        | RpComp (p0, size) ->
          (match m with
           | TrComp b ->
             ((tr_r_phase st (RpData (p0, size, b, [],
                (tr_cur_sched st).sc_steps))), [])
           | _ -> tr_r_fail st)
        | RpData (p0, size, cp, acc, steps) ->
          (match m with
           | TrData f ->
             tr_r_frame zdecomp aparse c st p0 size cp acc steps f
           | TrKeepAlive -> tr_r_stay st
           | _ -> tr_r_fail st)
        | RpV1 (p0, size, w0) ->
          (match m with
           | TrData pl -> tr_r_v1 unzl c st p0 size w0 pl
           | _ -> tr_r_fail st)
        | RpMd5 (p0, w0) ->
          (match m with
           | TrMd5 d -> tr_r_md5 h deq aparse c dest st p0 w0 d
           | _ -> tr_r_fail st)
        | RpExit ->
          (match m with
           | TrExit _ -> ((tr_r_phase st RpDone), [])
           | _ -> tr_r_fail st)
        | _ -> tr_r_stay st)
     | TrSize _ ->
       (match ph with
        | RpNum ->
          (match m with
           | TrNum n ->
             let (st', outs) =
               tr_r_next c (N.to_nat n) st.rs_st st.rs_names st.rs_sched
             in
             (st', ((TrSuccInt n) :: outs))
           | _ -> tr_r_fail st)
        | RpName ->
          (match m with
           | TrName p0 -> tr_r_name c dest st p0
           | _ -> tr_r_fail st)
        | RpHSize (p0, leaf, old) ->
          (match m with
           | TrSize n ->
             ((tr_r_phase st (RpHash (p0, leaf, old, n, r_init))), [])
           | _ -> tr_r_fail st)
        | RpHash (p0, leaf, old, ssize, r) ->
          (match m with
           | TrHash (step, h0) -> tr_r_hash hx st p0 leaf old ssize r step h0
           | TrHashOver -> tr_r_over st p0 leaf old ssize r
           | _ -> tr_r_fail st)
        | RpSize p0 ->
          (match m with
           | TrSize n -> tr_r_size c st p0 n
           | _ -> tr_r_fail st)
        | RpComp (p0, size) ->
          (match m with
           | TrComp b ->
             ((tr_r_phase st (RpData (p0, size, b, [],
                (tr_cur_sched st).sc_steps))), [])
           | _ -> tr_r_fail st)
        | RpData (p0, size, cp, acc, steps) ->
          (match m with
           | TrData f ->
             tr_r_frame zdecomp aparse c st p0 size cp acc steps f
           | TrKeepAlive -> tr_r_stay st
           | _ -> tr_r_fail st)
        | RpV1 (p0, size, w0) ->
          (match m with
           | TrData pl -> tr_r_v1 unzl c st p0 size w0 pl
           | _ -> tr_r_fail st)
        | RpMd5 (p0, w0) ->
          (match m with
           | TrMd5 d -> tr_r_md5 h deq aparse c dest st p0 w0 d
           | _ -> tr_r_fail st)
        | RpExit ->
          (match m with
           | TrExit _ -> ((tr_r_phase st RpDone), [])
           | _ -> tr_r_fail st)
        | _ -> tr_r_stay st)
     | TrComp _ ->
       (match ph with
        | RpNum ->
          (match m with
           | TrNum n ->
             let (st', outs) =
               tr_r_next c (N.to_nat n) st.rs_st st.rs_names st.rs_sched
             in
             (st', ((TrSuccInt n) :: outs))
           | _ -> tr_r_fail st)
        | RpName ->
          (match m with
           | TrName p0 -> tr_r_name c dest st p0
           | _ -> tr_r_fail st)
        | RpHSize (p0, leaf, old) ->
          (match m with
           | TrSize n ->
             ((tr_r_phase st (RpHash (p0, leaf, old, n, r_init))), [])
           | _ -> tr_r_fail st)
        | RpHash (p0, leaf, old, ssize, r) ->
          (match m with
           | TrHash (step, h0) -> tr_r_hash hx st p0 leaf old ssize r step h0
           | TrHashOver -> tr_r_over st p0 leaf old ssize r
           | _ -> tr_r_fail st)
        | RpSize p0 ->
          (match m with
           | TrSize n -> tr_r_size c st p0 n
           | _ -> tr_r_fail st)
        | RpComp (p0, size) ->
          (match m with
           | TrComp b ->
             ((tr_r_phase st (RpData (p0, size, b, [],
                (tr_cur_sched st).sc_steps))), [])
           | _ -> tr_r_fail st)
        | RpData (p0, size, cp, acc, steps) ->
          (match m with
           | TrData f ->
             tr_r_frame zdecomp aparse c st p0 size cp acc steps f
           | TrKeepAlive -> tr_r_stay st
           | _ -> tr_r_fail st)
        | RpV1 (p0, size, w0) ->
          (match m with
           | TrData pl -> tr_r_v1 unzl c st p0 size w0 pl
           | _ -> tr_r_fail st)
        | RpMd5 (p0, w0) ->
          (match m with
           | TrMd5 d -> tr_r_md5 h deq aparse c dest st p0 w0 d
           | _ -> tr_r_fail st)
        | RpExit ->
          (match m with
           | TrExit _ -> ((tr_r_phase st RpDone), [])
           | _ -> tr_r_fail st)
        | _ -> tr_r_stay st)
     | TrData _ ->
       (match ph with
        | RpNum ->
          (match m with
           | TrNum n ->
             let (st', outs) =
               tr_r_next c (N.to_nat n) st.rs_st st.rs_names st.rs_sched
             in
             (st', ((TrSuccInt n) :: outs))
           | _ -> tr_r_fail st)
        | RpName ->
          (match m with
           | TrName p0 -> tr_r_name c dest st p0
           | _ -> tr_r_fail st)
        | RpHSize (p0, leaf, old) ->
          (match m with
           | TrSize n ->
             ((tr_r_phase st (RpHash (p0, leaf, old, n, r_init))), [])
           | _ -> tr_r_fail st)
        | RpHash (p0, leaf, old, ssize, r) ->
          (match m with
           | TrHash (step, h0) -> tr_r_hash hx st p0 leaf old ssize r step h0
           | TrHashOver -> tr_r_over st p0 leaf old ssize r
           | _ -> tr_r_fail st)
        | RpSize p0 ->
          (match m with
           | TrSize n -> tr_r_size c st p0 n
           | _ -> tr_r_fail st)
        | RpComp (p0, size) ->
          (match m with
           | TrComp b ->
             ((tr_r_phase st (RpData (p0, size, b, [],
                (tr_cur_sched st).sc_steps))), [])
           | _ -> tr_r_fail st)
        | RpData (p0, size, cp, acc, steps) ->
          (match m with
           | TrData f ->
             tr_r_frame zdecomp aparse c st p0 size cp acc steps f
           | TrKeepAlive -> tr_r_stay st
           | _ -> tr_r_fail st)
        | RpV1 (p0, size, w0) ->
          (match m with
           | TrData pl -> tr_r_v1 unzl c st p0 size w0 pl
           | _ -> tr_r_fail st)
        | RpMd5 (p0, w0) ->
          (match m with
           | TrMd5 d -> tr_r_md5 h deq aparse c dest st p0 w0 d
           | _ -> tr_r_fail st)
        | RpExit ->
          (match m with
           | TrExit _ -> ((tr_r_phase st RpDone), [])
           | _ -> tr_r_fail st)
        | _ -> tr_r_stay st)
     | TrMd5 _ ->
       (match ph with
        | RpNum ->
          (match m with
           | TrNum n ->
             let (st', outs) =
               tr_r_next c (N.to_nat n) st.rs_st st.rs_names st.rs_sched
             in
             (st', ((TrSuccInt n) :: outs))
           | _ -> tr_r_fail st)
        | RpName ->
          (match m with
           | TrName p0 -> tr_r_name c dest st p0
           | _ -> tr_r_fail st)
        | RpHSize (p0, leaf, old) ->
          (match m with
           | TrSize n ->
             ((tr_r_phase st (RpHash (p0, leaf, old, n, r_init))), [])
           | _ -> tr_r_fail st)
        | RpHash (p0, leaf, old, ssize, r) ->
          (match m with
           | TrHash (step, h0) -> tr_r_hash hx st p0 leaf old ssize r step h0
           | TrHashOver -> tr_r_over st p0 leaf old ssize r
           | _ -> tr_r_fail st)
        | RpSize p0 ->
          (match m with
           | TrSize n -> tr_r_size c st p0 n
           | _ -> tr_r_fail st)
        | RpComp (p0, size) ->
          (match m with
           | TrComp b ->
             ((tr_r_phase st (RpData (p0, size, b, [],
                (tr_cur_sched st).sc_steps))), [])
           | _ -> tr_r_fail st)
        | RpData (p0, size, cp, acc, steps) ->
          (match m with
           | TrData f ->
             tr_r_frame zdecomp aparse c st p0 size cp acc steps f
           | TrKeepAlive -> tr_r_stay st
           | _ -> tr_r_fail st)
        | RpV1 (p0, size, w0) ->
          (match m with
           | TrData pl -> tr_r_v1 unzl c st p0 size w0 pl
           | _ -> tr_r_fail st)
        | RpMd5 (p0, w0) ->
          (match m with
           | TrMd5 d -> tr_r_md5 h deq aparse c dest st p0 w0 d
           | _ -> tr_r_fail st)
        | RpExit ->
          (match m with
           | TrExit _ -> ((tr_r_phase st RpDone), [])
           | _ -> tr_r_fail st)
        | _ -> tr_r_stay st)
     | TrExit _ ->
       (match ph with
        | RpNum ->
          (match m with
           | TrNum n ->
             let (st', outs) =
               tr_r_next c (N.to_nat n) st.rs_st st.rs_names st.rs_sched
             in
             (st', ((TrSuccInt n) :: outs))
           | _ -> tr_r_fail st)
        | RpName ->
          (match m with
           | TrName p0 -> tr_r_name c dest st p0
           | _ -> tr_r_fail st)
        | RpHSize (p0, leaf, old) ->
          (match m with
           | TrSize n ->
             ((tr_r_phase st (RpHash (p0, leaf, old, n, r_init))), [])
           | _ -> tr_r_fail st)
        | RpHash (p0, leaf, old, ssize, r) ->
          (match m with
           | TrHash (step, h0) -> tr_r_hash hx st p0 leaf old ssize r step h0
           | TrHashOver -> tr_r_over st p0 leaf old ssize r
           | _ -> tr_r_fail st)
        | RpSize p0 ->
          (match m with
           | TrSize n -> tr_r_size c st p0 n
           | _ -> tr_r_fail st)
        | RpComp (p0, size) ->
          (match m with
           | TrComp b ->
             ((tr_r_phase st (RpData (p0, size, b, [],
                (tr_cur_sched st).sc_steps))), [])
           | _ -> tr_r_fail st)
        | RpData (p0, size, cp, acc, steps) ->
          (match m with
           | TrData f ->
             tr_r_frame zdecomp aparse c st p0 size cp acc steps f
           | TrKeepAlive -> tr_r_stay st
           | _ -> tr_r_fail st)
        | RpV1 (p0, size, w0) ->
          (match m with
           | TrData pl -> tr_r_v1 unzl c st p0 size w0 pl
           | _ -> tr_r_fail st)
        | RpMd5 (p0, w0) ->
          (match m with
           | TrMd5 d -> tr_r_md5 h deq aparse c dest st p0 w0 d
           | _ -> tr_r_fail st)
        | RpExit ->
          (match m with
           | TrExit _ -> ((tr_r_phase st RpDone), [])
           | _ -> tr_r_fail st)
        | _ -> tr_r_stay st)
     | TrHash (_, _) ->
       (match ph with
        | RpNum ->
          (match m with
           | TrNum n ->
             let (st', outs) =
               tr_r_next c (N.to_nat n) st.rs_st st.rs_names st.rs_sched
             in
             (st', ((TrSuccInt n) :: outs))
           | _ -> tr_r_fail st)
        | RpName ->
          (match m with
           | TrName p0 -> tr_r_name c dest st p0
           | _ -> tr_r_fail st)
        | RpHSize (p0, leaf, old) ->
          (match m with
           | TrSize n ->
             ((tr_r_phase st (RpHash (p0, leaf, old, n, r_init))), [])
           | _ -> tr_r_fail st)
        | RpHash (p0, leaf, old, ssize, r) ->
          (match m with
           | TrHash (step, h0) -> tr_r_hash hx st p0 leaf old ssize r step h0
           | TrHashOver -> tr_r_over st p0 leaf old ssize r
           | _ -> tr_r_fail st)
        | RpSize p0 ->
          (match m with
           | TrSize n -> tr_r_size c st p0 n
           | _ -> tr_r_fail st)
        | RpComp (p0, size) ->
          (match m with
           | TrComp b ->
             ((tr_r_phase st (RpData (p0, size, b, [],
                (tr_cur_sched st).sc_steps))), [])
           | _ -> tr_r_fail st)
        | RpData (p0, size, cp, acc, steps) ->
          (match m with
           | TrData f ->
             tr_r_frame zdecomp aparse c st p0 size cp acc steps f
           | TrKeepAlive -> tr_r_stay st
           | _ -> tr_r_fail st)
        | RpV1 (p0, size, w0) ->
          (match m with
           | TrData pl -> tr_r_v1 unzl c st p0 size w0 pl
           | _ -> tr_r_fail st)
        | RpMd5 (p0, w0) ->
          (match m with
           | TrMd5 d -> tr_r_md5 h deq aparse c dest st p0 w0 d
           | _ -> tr_r_fail st)
        | RpExit ->
          (match m with
           | TrExit _ -> ((tr_r_phase st RpDone), [])
           | _ -> tr_r_fail st)
        | _ -> tr_r_stay st)
     | TrHashOver ->
       (match ph with
        | RpNum ->
          (match m with
           | TrNum n ->
             let (st', outs) =
               tr_r_next c (N.to_nat n) st.rs_st st.rs_names st.rs_sched
             in
             (st', ((TrSuccInt n) :: outs))
           | _ -> tr_r_fail st)
        | RpName ->
          (match m with
           | TrName p0 -> tr_r_name c dest st p0
           | _ -> tr_r_fail st)
        | RpHSize (p0, leaf, old) ->
          (match m with
           | TrSize n ->
             ((tr_r_phase st (RpHash (p0, leaf, old, n, r_init))), [])
           | _ -> tr_r_fail st)
        | RpHash (p0, leaf, old, ssize, r) ->
          (match m with
           | TrHash (step, h0) -> tr_r_hash hx st p0 leaf old ssize r step h0
           | TrHashOver -> tr_r_over st p0 leaf old ssize r
           | _ -> tr_r_fail st)
        | RpSize p0 ->
          (match m with
           | TrSize n -> tr_r_size c st p0 n
           | _ -> tr_r_fail st)
        | RpComp (p0, size) ->
          (match m with
           | TrComp b ->
             ((tr_r_phase st (RpData (p0, size, b, [],
                (tr_cur_sched st).sc_steps))), [])
           | _ -> tr_r_fail st)
        | RpData (p0, size, cp, acc, steps) ->
          (match m with
           | TrData f ->
             tr_r_frame zdecomp aparse c st p0 size cp acc steps f
           | TrKeepAlive -> tr_r_stay st
           | _ -> tr_r_fail st)
        | RpV1 (p0, size, w0) ->
          (match m with
           | TrData pl -> tr_r_v1 unzl c st p0 size w0 pl
           | _ -> tr_r_fail st)
        | RpMd5 (p0, w0) ->
          (match m with
           | TrMd5 d -> tr_r_md5 h deq aparse c dest st p0 w0 d
           | _ -> tr_r_fail st)
        | RpExit ->
          (match m with
           | TrExit _ -> ((tr_r_phase st RpDone), [])
           | _ -> tr_r_fail st)
        | _ -> tr_r_stay st)
     | TrSuccInt _ ->
       (match ph with
        | RpNum ->
          (match m with
           | TrNum n ->
             let (st', outs) =
               tr_r_next c (N.to_nat n) st.rs_st st.rs_names st.rs_sched
             in
             (st', ((TrSuccInt n) :: outs))
           | _ -> tr_r_fail st)
        | RpName ->
          (match m with
           | TrName p0 -> tr_r_name c dest st p0
           | _ -> tr_r_fail st)
        | RpHSize (p0, leaf, old) ->
          (match m with
           | TrSize n ->
             ((tr_r_phase st (RpHash (p0, leaf, old, n, r_init))), [])
           | _ -> tr_r_fail st)
        | RpHash (p0, leaf, old, ssize, r) ->
          (match m with
           | TrHash (step, h0) -> tr_r_hash hx st p0 leaf old ssize r step h0
           | TrHashOver -> tr_r_over st p0 leaf old ssize r
           | _ -> tr_r_fail st)
        | RpSize p0 ->
          (match m with
           | TrSize n -> tr_r_size c st p0 n
           | _ -> tr_r_fail st)
        | RpComp (p0, size) ->
          (match m with
           | TrComp b ->
             ((tr_r_phase st (RpData (p0, size, b, [],
                (tr_cur_sched st).sc_steps))), [])
           | _ -> tr_r_fail st)
        | RpData (p0, size, cp, acc, steps) ->
          (match m with
           | TrData f ->
             tr_r_frame zdecomp aparse c st p0 size cp acc steps f
           | TrKeepAlive -> tr_r_stay st
           | _ -> tr_r_fail st)
        | RpV1 (p0, size, w0) ->
          (match m with
           | TrData pl -> tr_r_v1 unzl c st p0 size w0 pl
           | _ -> tr_r_fail st)
        | RpMd5 (p0, w0) ->
          (match m with
           | TrMd5 d -> tr_r_md5 h deq aparse c dest st p0 w0 d
           | _ -> tr_r_fail st)
        | RpExit ->
          (match m with
           | TrExit _ -> ((tr_r_phase st RpDone), [])
           | _ -> tr_r_fail st)
        | _ -> tr_r_stay st)
     | TrSuccName _ ->
       (match ph with
        | RpNum ->
          (match m with
           | TrNum n ->
             let (st', outs) =
               tr_r_next c (N.to_nat n) st.rs_st st.rs_names st.rs_sched
             in
             (st', ((TrSuccInt n) :: outs))
           | _ -> tr_r_fail st)
        | RpName ->
          (match m with
           | TrName p0 -> tr_r_name c dest st p0
           | _ -> tr_r_fail st)
        | RpHSize (p0, leaf, old) ->
          (match m with
           | TrSize n ->
             ((tr_r_phase st (RpHash (p0, leaf, old, n, r_init))), [])
           | _ -> tr_r_fail st)
        | RpHash (p0, leaf, old, ssize, r) ->
          (match m with
           | TrHash (step, h0) -> tr_r_hash hx st p0 leaf old ssize r step h0
           | TrHashOver -> tr_r_over st p0 leaf old ssize r
           | _ -> tr_r_fail st)
        | RpSize p0 ->
          (match m with
           | TrSize n -> tr_r_size c st p0 n
           | _ -> tr_r_fail st)
        | RpComp (p0, size) ->
          (match m with
           | TrComp b ->
             ((tr_r_phase st (RpData (p0, size, b, [],
                (tr_cur_sched st).sc_steps))), [])
           | _ -> tr_r_fail st)
        | RpData (p0, size, cp, acc, steps) ->
          (match m with
           | TrData f ->
             tr_r_frame zdecomp aparse c st p0 size cp acc steps f
           | TrKeepAlive -> tr_r_stay st
           | _ -> tr_r_fail st)
        | RpV1 (p0, size, w0) ->
          (match m with
           | TrData pl -> tr_r_v1 unzl c st p0 size w0 pl
           | _ -> tr_r_fail st)
        | RpMd5 (p0, w0) ->
          (match m with
           | TrMd5 d -> tr_r_md5 h deq aparse c dest st p0 w0 d
           | _ -> tr_r_fail st)
        | RpExit ->
          (match m with
           | TrExit _ -> ((tr_r_phase st RpDone), [])
           | _ -> tr_r_fail st)
        | _ -> tr_r_stay st)
     | TrSuccTarget (_, _) ->
       (match ph with
        | RpNum ->
          (match m with
           | TrNum n ->
             let (st', outs) =
               tr_r_next c (N.to_nat n) st.rs_st st.rs_names st.rs_sched
             in
             (st', ((TrSuccInt n) :: outs))
           | _ -> tr_r_fail st)
        | RpName ->
          (match m with
           | TrName p0 -> tr_r_name c dest st p0
           | _ -> tr_r_fail st)
        | RpHSize (p0, leaf, old) ->
          (match m with
           | TrSize n ->
             ((tr_r_phase st (RpHash (p0, leaf, old, n, r_init))), [])
           | _ -> tr_r_fail st)
        | RpHash (p0, leaf, old, ssize, r) ->
          (match m with
           | TrHash (step, h0) -> tr_r_hash hx st p0 leaf old ssize r step h0
           | TrHashOver -> tr_r_over st p0 leaf old ssize r
           | _ -> tr_r_fail st)
        | RpSize p0 ->
          (match m with
           | TrSize n -> tr_r_size c st p0 n
           | _ -> tr_r_fail st)
        | RpComp (p0, size) ->
          (match m with
           | TrComp b ->
             ((tr_r_phase st (RpData (p0, size, b, [],
                (tr_cur_sched st).sc_steps))), [])
           | _ -> tr_r_fail st)
        | RpData (p0, size, cp, acc, steps) ->
          (match m with
           | TrData f ->
             tr_r_frame zdecomp aparse c st p0 size cp acc steps f
           | TrKeepAlive -> tr_r_stay st
           | _ -> tr_r_fail st)
        | RpV1 (p0, size, w0) ->
          (match m with
           | TrData pl -> tr_r_v1 unzl c st p0 size w0 pl
           | _ -> tr_r_fail st)
        | RpMd5 (p0, w0) ->
          (match m with
           | TrMd5 d -> tr_r_md5 h deq aparse c dest st p0 w0 d
           | _ -> tr_r_fail st)
        | RpExit ->
          (match m with
           | TrExit _ -> ((tr_r_phase st RpDone), [])
           | _ -> tr_r_fail st)
        | _ -> tr_r_stay st)
     | TrSuccAck (_, _) ->
       (match ph with
        | RpNum ->
          (match m with
           | TrNum n ->
             let (st', outs) =
               tr_r_next c (N.to_nat n) st.rs_st st.rs_names st.rs_sched
             in
             (st', ((TrSuccInt n) :: outs))
           | _ -> tr_r_fail st)
        | RpName ->
          (match m with
           | TrName p0 -> tr_r_name c dest st p0
           | _ -> tr_r_fail st)
        | RpHSize (p0, leaf, old) ->
          (match m with
           | TrSize n ->
             ((tr_r_phase st (RpHash (p0, leaf, old, n, r_init))), [])
           | _ -> tr_r_fail st)
        | RpHash (p0, leaf, old, ssize, r) ->
          (match m with
           | TrHash (step, h0) -> tr_r_hash hx st p0 leaf old ssize r step h0
           | TrHashOver -> tr_r_over st p0 leaf old ssize r
           | _ -> tr_r_fail st)
        | RpSize p0 ->
          (match m with
           | TrSize n -> tr_r_size c st p0 n
           | _ -> tr_r_fail st)
        | RpComp (p0, size) ->
          (match m with
           | TrComp b ->
             ((tr_r_phase st (RpData (p0, size, b, [],
                (tr_cur_sched st).sc_steps))), [])
           | _ -> tr_r_fail st)
        | RpData (p0, size, cp, acc, steps) ->
          (match m with
           | TrData f ->
             tr_r_frame zdecomp aparse c st p0 size cp acc steps f
           | TrKeepAlive -> tr_r_stay st
           | _ -> tr_r_fail st)
        | RpV1 (p0, size, w0) ->
          (match m with
           | TrData pl -> tr_r_v1 unzl c st p0 size w0 pl
           | _ -> tr_r_fail st)
        | RpMd5 (p0, w0) ->
          (match m with
           | TrMd5 d -> tr_r_md5 h deq aparse c dest st p0 w0 d
           | _ -> tr_r_fail st)
        | RpExit ->
          (match m with
           | TrExit _ -> ((tr_r_phase st RpDone), [])
           | _ -> tr_r_fail st)
        | _ -> tr_r_stay st)
     | TrSuccDigest _ ->
       (match ph with
        | RpNum ->
          (match m with
           | TrNum n ->
             let (st', outs) =
               tr_r_next c (N.to_nat n) st.rs_st st.rs_names st.rs_sched
             in
             (st', ((TrSuccInt n) :: outs))
           | _ -> tr_r_fail st)
        | RpName ->
          (match m with
           | TrName p0 -> tr_r_name c dest st p0
           | _ -> tr_r_fail st)
        | RpHSize (p0, leaf, old) ->
          (match m with
           | TrSize n ->
             ((tr_r_phase st (RpHash (p0, leaf, old, n, r_init))), [])
           | _ -> tr_r_fail st)
        | RpHash (p0, leaf, old, ssize, r) ->
          (match m with
           | TrHash (step, h0) -> tr_r_hash hx st p0 leaf old ssize r step h0
           | TrHashOver -> tr_r_over st p0 leaf old ssize r
           | _ -> tr_r_fail st)
        | RpSize p0 ->
          (match m with
           | TrSize n -> tr_r_size c st p0 n
           | _ -> tr_r_fail st)
        | RpComp (p0, size) ->
          (match m with
           | TrComp b ->
             ((tr_r_phase st (RpData (p0, size, b, [],
                (tr_cur_sched st).sc_steps))), [])
           | _ -> tr_r_fail st)
        | RpData (p0, size, cp, acc, steps) ->
          (match m with
           | TrData f ->
             tr_r_frame zdecomp aparse c st p0 size cp acc steps f
           | TrKeepAlive -> tr_r_stay st
           | _ -> tr_r_fail st)
        | RpV1 (p0, size, w0) ->
          (match m with
           | TrData pl -> tr_r_v1 unzl c st p0 size w0 pl
           | _ -> tr_r_fail st)
        | RpMd5 (p0, w0) ->
          (match m with
           | TrMd5 d -> tr_r_md5 h deq aparse c dest st p0 w0 d
           | _ -> tr_r_fail st)
        | RpExit ->
          (match m with
           | TrExit _ -> ((tr_r_phase st RpDone), [])
           | _ -> tr_r_fail st)
        | _ -> tr_r_stay st)
     | TrSuccHack (_, _) ->
       (match ph with
        | RpNum ->
          (match m with
           | TrNum n ->
             let (st', outs) =
               tr_r_next c (N.to_nat n) st.rs_st st.rs_names st.rs_sched
             in
             (st', ((TrSuccInt n) :: outs))
           | _ -> tr_r_fail st)
        | RpName ->
          (match m with
           | TrName p0 -> tr_r_name c dest st p0
           | _ -> tr_r_fail st)
        | RpHSize (p0, leaf, old) ->
          (match m with
           | TrSize n ->
             ((tr_r_phase st (RpHash (p0, leaf, old, n, r_init))), [])
           | _ -> tr_r_fail st)
        | RpHash (p0, leaf, old, ssize, r) ->
          (match m with
           | TrHash (step, h0) -> tr_r_hash hx st p0 leaf old ssize r step h0
           | TrHashOver -> tr_r_over st p0 leaf old ssize r
           | _ -> tr_r_fail st)
        | RpSize p0 ->
          (match m with
           | TrSize n -> tr_r_size c st p0 n
           | _ -> tr_r_fail st)
        | RpComp (p0, size) ->
          (match m with
           | TrComp b ->
             ((tr_r_phase st (RpData (p0, size, b, [],
                (tr_cur_sched st).sc_steps))), [])
           | _ -> tr_r_fail st)
        | RpData (p0, size, cp, acc, steps) ->
          (match m with
           | TrData f ->
             tr_r_frame zdecomp aparse c st p0 size cp acc steps f
           | TrKeepAlive -> tr_r_stay st
           | _ -> tr_r_fail st)
        | RpV1 (p0, size, w0) ->
          (match m with
           | TrData pl -> tr_r_v1 unzl c st p0 size w0 pl
           | _ -> tr_r_fail st)
        | RpMd5 (p0, w0) ->
          (match m with
           | TrMd5 d -> tr_r_md5 h deq aparse c dest st p0 w0 d
           | _ -> tr_r_fail st)
        | RpExit ->
          (match m with
           | TrExit _ -> ((tr_r_phase st RpDone), [])
           | _ -> tr_r_fail st)
        | _ -> tr_r_stay st)
     | TrKeepAlive ->
       (match ph with
        | RpNum ->
          (match m with
           | TrNum n ->
             let (st', outs) =
               tr_r_next c (N.to_nat n) st.rs_st st.rs_names st.rs_sched
             in
             (st', ((TrSuccInt n) :: outs))
           | _ -> tr_r_fail st)
        | RpName ->
          (match m with
           | TrName p0 -> tr_r_name c dest st p0
           | _ -> tr_r_fail st)
        | RpHSize (p0, leaf, old) ->
          (match m with
           | TrSize n ->
             ((tr_r_phase st (RpHash (p0, leaf, old, n, r_init))), [])
           | _ -> tr_r_fail st)
        | RpHash (p0, leaf, old, ssize, r) ->
          (match m with
           | TrHash (step, h0) -> tr_r_hash hx st p0 leaf old ssize r step h0
           | TrHashOver -> tr_r_over st p0 leaf old ssize r
           | _ -> tr_r_fail st)
        | RpSize p0 ->
          (match m with
           | TrSize n -> tr_r_size c st p0 n
           | _ -> tr_r_fail st)
        | RpComp (p0, size) ->
          (match m with
           | TrComp b ->
             ((tr_r_phase st (RpData (p0, size, b, [],
                (tr_cur_sched st).sc_steps))), [])
           | _ -> tr_r_fail st)
        | RpData (p0, size, cp, acc, steps) ->
          (match m with
           | TrData f ->
             tr_r_frame zdecomp aparse c st p0 size cp acc steps f
           | TrKeepAlive -> tr_r_stay st
           | _ -> tr_r_fail st)
        | RpV1 (p0, size, w0) ->
          (match m with
           | TrData pl -> tr_r_v1 unzl c st p0 size w0 pl
           | _ -> tr_r_fail st)
        | RpMd5 (p0, w0) ->
          (match m with
           | TrMd5 d -> tr_r_md5 h deq aparse c dest st p0 w0 d
           | _ -> tr_r_fail st)
        | RpExit ->
          (match m with
           | TrExit _ -> ((tr_r_phase st RpDone), [])
           | _ -> tr_r_fail st)
        | _ -> tr_r_stay st)
     | TrFail -> ((tr_r_phase st RpFail), []))
  | RpExit ->
    let ph = RpExit in
    (match m with
     | TrNum _ ->
       (match ph with
        | RpNum ->
          (match m with
           | TrNum n ->
             let (st', outs) =
               tr_r_next c (N.to_nat n) st.rs_st st.rs_names st.rs_sched
             in
             (st', ((TrSuccInt n) :: outs))
           | _ -> tr_r_fail st)
        | RpName ->
          (match m with
           | TrName p -> tr_r_name c dest st p
           | _ -> tr_r_fail st)
        | RpHSize (p, leaf, old) ->
          (match m with
           | TrSize n ->
             ((tr_r_phase st (RpHash (p, leaf, old, n, r_init))), [])
           | _ -> tr_r_fail st)
        | RpHash (p, leaf, old, ssize, r) ->
          (match m with
           | TrHash (step, h0) -> tr_r_hash hx st p leaf old ssize r step h0
           | TrHashOver -> tr_r_over st p leaf old ssize r
           | _ -> tr_r_fail st)
        | RpSize p ->
          (match m with
           | TrSize n -> tr_r_size c st p n
           | _ -> tr_r_fail st)
        | RpComp (p, size) ->
          (match m with
           | TrComp b ->
             ((tr_r_phase st (RpData (p, size, b, [],
                (tr_cur_sched st).sc_steps))), [])
           | _ -> tr_r_fail st)
        | RpData (p, size, cp, acc, steps) ->
          (match m with
           | TrData f -> tr_r_frame zdecomp aparse c st p size cp acc steps f
           | TrKeepAlive -> tr_r_stay st
           | _ -> tr_r_fail st)
        | RpV1 (p, size, w) ->
          (match m with
           | TrData pl -> tr_r_v1 unzl c st p size w pl
           | _ -> tr_r_fail st)
        | RpMd5 (p, w) ->
          (match m with
           | TrMd5 d -> tr_r_md5 h deq aparse c dest st p w d
           | _ -> tr_r_fail st)
        | RpExit ->
          (match m with
           | TrExit _ -> ((tr_r_phase st RpDone), [])
           | _ -> tr_r_fail st)
        | _ -> tr_r_stay st)
     | TrName _ ->
       (match ph with
        | RpNum ->
          (match m with
           | TrNum n ->
             let (st', outs) =
               tr_r_next c (N.to_nat n) st.rs_st st.rs_names st.rs_sched
             in
             (st', ((TrSuccInt n) :: outs))
           | _ -> tr_r_fail st)
        | RpName ->
          (match m with
           | TrName p -> tr_r_name c dest st p
           | _ -> tr_r_fail st)
        | RpHSize (p, leaf, old) ->
          (match m with
           | TrSize n ->
             ((tr_r_phase st (RpHash (p, leaf, old, n, r_init))), [])
           | _ -> tr_r_fail st)
        | RpHash (p, leaf, old, ssize, r) ->
          (match m with
           | TrHash (step, h0) -> tr_r_hash hx st p leaf old ssize r step h0
           | TrHashOver -> tr_r_over st p leaf old ssize r
           | _ -> tr_r_fail st)
        | RpSize p ->
          (match m with
           | TrSize n -> tr_r_size c st p n
           | _ -> tr_r_fail st)
        | RpComp (p, size) ->
          (match m with
           | TrComp b ->
             ((tr_r_phase st (RpData (p, size, b, [],
                (tr_cur_sched st).sc_steps))), [])
           | _ -> tr_r_fail st)
        | RpData (p, size, cp, acc, steps) ->
          (match m with
           | TrData f -> tr_r_frame zdecomp aparse c st p size cp acc steps f
           | TrKeepAlive -> tr_r_stay st
           | _ -> tr_r_fail st)
        | RpV1 (p, size, w) ->
          (match m with
           | TrData pl -> tr_r_v1 unzl c st p size w pl
           | _ -> tr_r_fail st)
        | RpMd5 (p, w) ->
          (match m with
           | TrMd5 d -> tr_r_md5 h deq aparse c dest st p w d
           | _ -> tr_r_fail st)
        | RpExit ->
          (match m with
           | TrExit _ -> ((tr_r_phase st RpDone), [])
           | _ -> tr_r_fail st)
        | _ -> tr_r_stay st)
     | TrSize _ ->
       (match ph with
        | RpNum ->
          (match m with
           | TrNum n ->
             let (st', outs) =
               tr_r_next c (N.to_nat n) st.rs_st st.rs_names st.rs_sched
             in
             (st', ((TrSuccInt n) :: outs))
           | _ -> tr_r_fail st)
        | RpName ->
          (match m with
           | TrName p -> tr_r_name c dest st p
           | _ -> tr_r_fail st)
        | RpHSize (p, leaf, old) ->
          (match m with
           | TrSize n ->
             ((tr_r_phase st (RpHash (p, leaf, old, n, r_init))), [])
           | _ -> tr_r_fail st)
        | RpHash (p, leaf, old, ssize, r) ->
          (match m with
           | TrHash (step, h0) -> tr_r_hash hx st p leaf old ssize r step h0
           | TrHashOver -> tr_r_over st p leaf old ssize r
           | _ -> tr_r_fail st)
        | RpSize p ->
          (match m with
           | TrSize n -> tr_r_size c st p n
           | _ -> tr_r_fail st)
        | RpComp (p, size) ->
          (match m with
           | TrComp b ->
             ((tr_r_phase st (RpData (p, size, b, [],
                (tr_cur_sched st).sc_steps))), [])
           | _ -> tr_r_fail st)
        | RpData (p, size, cp, acc, steps) ->
          (match m with
           | TrData f -> tr_r_frame zdecomp aparse c st p size cp acc steps f
           | TrKeepAlive -> tr_r_stay st
           | _ -> tr_r_fail st)
        | RpV1 (p, size, w) ->
          (match m with
           | TrData pl -> tr_r_v1 unzl c st p size w pl
           | _ -> tr_r_fail st)
        | RpMd5 (p, w) ->
          (match m with
           | TrMd5 d -> tr_r_md5 h deq aparse c dest st p w d
           | _ -> tr_r_fail st)
        | RpExit ->
          (match m with
           | TrExit _ -> ((tr_r_phase st RpDone), [])
           | _ -> tr_r_fail st)
        | _ -> tr_r_stay st)
     | TrComp _ ->
       (match ph with
        | RpNum ->
          (match m with
           | TrNum n ->
             let (st', outs) =
               tr_r_next c (N.to_nat n) st.rs_st st.rs_names st.rs_sched
             in
             (st', ((TrSuccInt n) :: outs))
           | _ -> tr_r_fail st)
        | RpName ->
          (match m with
           | TrName p -> tr_r_name c dest st p
           | _ -> tr_r_fail st)
        | RpHSize (p, leaf, old) ->
          (match m with
           | TrSize n ->
             ((tr_r_phase st (RpHash (p, leaf, old, n, r_init))), [])
           | _ -> tr_r_fail st)
        | RpHash (p, leaf, old, ssize, r) ->
          (match m with
           | TrHash (step, h0) -> tr_r_hash hx st p leaf old ssize r step h0
           | TrHashOver -> tr_r_over st p leaf old ssize r
           | _ -> tr_r_fail st)
        | RpSize p ->
          (match m with
           | TrSize n -> tr_r_size c st p n
           | _ -> tr_r_fail st)
        | RpComp (p, size) ->
          (match m with
           | TrComp b ->
             ((tr_r_phase st (RpData (p, size, b, [],
                (tr_cur_sched st).sc_steps))), [])
           | _ -> tr_r_fail st)
        | RpData (p, size, cp, acc, steps) ->
          (match m with
           | TrData f -> tr_r_frame zdecomp aparse c st p size cp acc steps f
           | TrKeepAlive -> tr_r_stay st
           | _ -> tr_r_fail st)
        | RpV1 (p, size, w) ->
          (match m with
           | TrData pl -> tr_r_v1 unzl c st p size w pl
           | _ -> tr_r_fail st)
        | RpMd5 (p, w) ->
          (match m with
           | TrMd5 d -> tr_r_md5 h deq aparse c dest st p w d
           | _ -> tr_r_fail st)
        | RpExit ->
          (match m with
           | TrExit _ -> ((tr_r_phase st RpDone), [])
           | _ -> tr_r_fail st)
        | _ -> tr_r_stay st)
     | TrData _ ->
       (match ph with
        | RpNum ->
          (match m with
           | TrNum n ->
             let (st', outs) =
               tr_r_next c (N.to_nat n) st.rs_st st.rs_names st.rs_sched
             in
             (st', ((TrSuccInt n) :: outs))
           | _ -> tr_r_fail st)
        | RpName ->
          (match m with
           | TrName p -> tr_r_name c dest st p
           | _ -> tr_r_fail st)
        | RpHSize (p, leaf, old) ->
          (match m with
           | TrSize n ->
             ((tr_r_phase st (RpHash (p, leaf, old, n, r_init))), [])
           | _ -> tr_r_fail st)
        | RpHash (p, leaf, old, ssize, r) ->
          (match m with
           | TrHash (step, h0) -> tr_r_hash hx st p leaf old ssize r step h0
           | TrHashOver -> tr_r_over st p leaf old ssize r
           | _ -> tr_r_fail st)
        | RpSize p ->
          (match m with
           | TrSize n -> tr_r_size c st p n
           | _ -> tr_r_fail st)
        | RpComp (p, size) ->
          (match m with
           | TrComp b ->
             ((tr_r_phase st (RpData (p, size, b, [],
                (tr_cur_sched st).sc_steps))), [])
           | _ -> tr_r_fail st)
        | RpData (p, size, cp, acc, steps) ->
          (match m with
           | TrData f -> tr_r_frame zdecomp aparse c st p size cp acc steps f
           | TrKeepAlive -> tr_r_stay st
           | _ -> tr_r_fail st)
        | RpV1 (p, size, w) ->
          (match m with
           | TrData pl -> tr_r_v1 unzl c st p size w pl
           | _ -> tr_r_fail st)
        | RpMd5 (p, w) ->
          (match m with
           | TrMd5 d -> tr_r_md5 h deq aparse c dest st p w d
           | _ -> tr_r_fail st)
        | RpExit ->
          (match m with
           | TrExit _ -> ((tr_r_phase st RpDone), [])
           | _ -> tr_r_fail st)
        | _ -> tr_r_stay st)
     | TrMd5 _ ->
       (match ph with
        | RpNum ->
          (match m with
           | TrNum n ->
             let (st', outs) =
               tr_r_next c (N.to_nat n) st.rs_st st.rs_names st.rs_sched
             in
             (st', ((TrSuccInt n) :: outs))
           | _ -> tr_r_fail st)
        | RpName ->
          (match m with
           | TrName p -> tr_r_name c dest st p
           | _ -> tr_r_fail st)
        | RpHSize (p, leaf, old) ->
          (match m with
           | TrSize n ->
             ((tr_r_phase st (RpHash (p, leaf, old, n, r_init))), [])
           | _ -> tr_r_fail st)
        | RpHash (p, leaf, old, ssize, r) ->
          (match m with
           | TrHash (step, h0) -> tr_r_hash hx st p leaf old ssize r step h0
           | TrHashOver -> tr_r_over st p leaf old ssize r
           | _ -> tr_r_fail st)
        | RpSize p ->
          (match m with
           | TrSize n -> tr_r_size c st p n
           | _ -> tr_r_fail st)
        | RpComp (p, size) ->
          (match m with
           | TrComp b ->
             ((tr_r_phase st (RpData (p, size, b, [],
                (tr_cur_sched st).sc_steps))), [])
           | _ -> tr_r_fail st)
        | RpData (p, size, cp, acc, steps) ->
          (match m with
           | TrData f -> tr_r_frame zdecomp aparse c st p size cp acc steps f
           | TrKeepAlive -> tr_r_stay st
           | _ -> tr_r_fail st)
        | RpV1 (p, size, w) ->
          (match m with
           | TrData pl -> tr_r_v1 unzl c st p size w pl
           | _ -> tr_r_fail st)
        | RpMd5 (p, w) ->
          (match m with
           | TrMd5 d -> tr_r_md5 h deq aparse c dest st p w d
           | _ -> tr_r_fail st)
        | RpExit ->
          (match m with
           | TrExit _ -> ((tr_r_phase st RpDone), [])
           | _ -> tr_r_fail st)
        | _ -> tr_r_stay st)
     | TrExit _ ->
       (match ph with
        | RpNum ->
          (match m with
           | TrNum n ->
             let (st', outs) =
               tr_r_next c (N.to_nat n) st.rs_st st.rs_names st.rs_sched
             in
             (st', ((TrSuccInt n) :: outs))
           | _ -> tr_r_fail st)
        | RpName ->
          (match m with
           | TrName p -> tr_r_name c dest st p
           | _ -> tr_r_fail st)
        | RpHSize (p, leaf, old) ->
          (match m with
           | TrSize n ->
             ((tr_r_phase st (RpHash (p, leaf, old, n, r_init))), [])
           | _ -> tr_r_fail st)
        | RpHash (p, leaf, old, ssize, r) ->
          (match m with
           | TrHash (step, h0) -> tr_r_hash hx st p leaf old ssize r step h0
           | TrHashOver -> tr_r_over st p leaf old ssize r
           | _ -> tr_r_fail st)
        | RpSize p ->
          (match m with
           | TrSize n -> tr_r_size c st p n
           | _ -> tr_r_fail st)
        | RpComp (p, size) ->
          (match m with
           | TrComp b ->
             ((tr_r_phase st (RpData (p, size, b, [],
                (tr_cur_sched st).sc_steps))), [])
           | _ -> tr_r_fail st)
        | RpData (p, size, cp, acc, steps) ->
          (match m with
           | TrData f -> tr_r_frame zdecomp aparse c st p size cp acc steps f
           | TrKeepAlive -> tr_r_stay st
           | _ -> tr_r_fail st)
        | RpV1 (p, size, w) ->
          (match m with
           | TrData pl -> tr_r_v1 unzl c st p size w pl
           | _ -> tr_r_fail st)
        | RpMd5 (p, w) ->
          (match m with
           | TrMd5 d -> tr_r_md5 h deq aparse c dest st p w d
           | _ -> tr_r_fail st)
        | RpExit ->
          (match m with
           | TrExit _ -> ((tr_r_phase st RpDone), [])
           | _ -> tr_r_fail st)
        | _ -> tr_r_stay st)
     | TrHash (_, _) ->
       (match ph with
        | RpNum ->
          (match m with
           | TrNum n ->
             let (st', outs) =
               tr_r_next c (N.to_nat n) st.rs_st st.rs_names st.rs_sched
             in
             (st', ((TrSuccInt n) :: outs))
           | _ -> tr_r_fail st)
        | RpName ->
          (match m with
           | TrName p -> tr_r_name c dest st p
           | _ -> tr_r_fail st)
        | RpHSize (p, leaf, old) ->
          (match m with
           | TrSize n ->
             ((tr_r_phase st (RpHash (p, leaf, old, n, r_init))), [])
           | _ -> tr_r_fail st)
        | RpHash (p, leaf, old, ssize, r) ->
          (match m with
           | TrHash (step, h0) -> tr_r_hash hx st p leaf old ssize r step h0
           | TrHashOver -> tr_r_over st p leaf old ssize r
           | _ -> tr_r_fail st)
        | RpSize p ->
          (match m with
           | TrSize n -> tr_r_size c st p n
           | _ -> tr_r_fail st)
        | RpComp (p, size) ->
          (match m with
           | TrComp b ->
             ((tr_r_phase st (RpData (p, size, b, [],
                (tr_cur_sched st).sc_steps))), [])
           | _ -> tr_r_fail st)
        | RpData (p, size, cp, acc, steps) ->
          (match m with
           | TrData f -> tr_r_frame zdecomp aparse c st p size cp acc steps f
           | TrKeepAlive -> tr_r_stay st
           | _ -> tr_r_fail st)
        | RpV1 (p, size, w) ->
          (match m with
           | TrData pl -> tr_r_v1 unzl c st p size w pl
           | _ -> tr_r_fail st)
        | RpMd5 (p, w) ->
          (match m with
           | TrMd5 d -> tr_r_md5 h deq aparse c dest st p w d
           | _ -> tr_r_fail st)
        | RpExit ->
          (match m with
           | TrExit _ -> ((tr_r_phase st RpDone), [])
           | _ -> tr_r_fail st)
        | _ -> tr_r_stay st)
     | TrHashOver ->
       (match ph with
        | RpNum ->
          (match m with
           | TrNum n ->
             let (st', outs) =
               tr_r_next c (N.to_nat n) st.rs_st st.rs_names st.rs_sched
             in
             (st', ((TrSuccInt n) :: outs))
           | _ -> tr_r_fail st)
        | RpName ->
          (match m with
           | TrName p -> tr_r_name c dest st p
           | _ -> tr_r_fail st)
        | RpHSize (p, leaf, old) ->
          (match m with
           | TrSize n ->
             ((tr_r_phase st (RpHash (p, leaf, old, n, r_init))), [])
           | _ -> tr_r_fail st)
        | RpHash (p, leaf, old, ssize, r) ->
          (match m with
           | TrHash (step, h0) -> tr_r_hash hx st p leaf old ssize r step h0
           | TrHashOver -> tr_r_over st p leaf old ssize r
           | _ -> tr_r_fail st)
        | RpSize p ->
          (match m with
           | TrSize n -> tr_r_size c st p n
           | _ -> tr_r_fail st)
        | RpComp (p, size) ->
          (match m with
           | TrComp b ->
             ((tr_r_phase st (RpData (p, size, b, [],
                (tr_cur_sched st).sc_steps))), [])
           | _ -> tr_r_fail st)
        | RpData (p, size, cp, acc, steps) ->
          (match m with
           | TrData f -> tr_r_frame zdecomp aparse c st p size cp acc steps f
           | TrKeepAlive -> tr_r_stay st
           | _ -> tr_r_fail st)
        | RpV1 (p, size, w) ->
          (match m with
           | TrData pl -> tr_r_v1 unzl c st p size w pl
           | _ -> tr_r_fail st)
        | RpMd5 (p, w) ->
          (match m with
           | TrMd5 d -> tr_r_md5 h deq aparse c dest st p w d
           | _ -> tr_r_fail st)
        | RpExit ->
          (match m with
           | TrExit _ -> ((tr_r_phase st RpDone), [])
           | _ -> tr_r_fail st)
        | _ -> tr_r_stay st)
     | TrSuccInt _ ->
       (match ph with
        | RpNum ->
          (match m with
           | TrNum n ->
             let (st', outs) =
               tr_r_next c (N.to_nat n) st.rs_st st.rs_names st.rs_sched
             in
             (st', ((TrSuccInt n) :: outs))
           | _ -> tr_r_fail st)
        | RpName ->
          (match m with
           | TrName p -> tr_r_name c dest st p
           | _ -> tr_r_fail st)
        | RpHSize (p, leaf, old) ->
          (match m with
           | TrSize n ->
             ((tr_r_phase st (RpHash (p, leaf, old, n, r_init))), [])
           | _ -> tr_r_fail st)
        | RpHash (p, leaf, old, ssize, r) ->
          (match m with
           | TrHash (step, h0) -> tr_r_hash hx st p leaf old ssize r step h0
           | TrHashOver -> tr_r_over st p leaf old ssize r
           | _ -> tr_r_fail st)
        | RpSize p ->
          (match m with
           | TrSize n -> tr_r_size c st p n
           | _ -> tr_r_fail st)
        | RpComp (p, size) ->
          (match m with
           | TrComp b ->
             ((tr_r_phase st (RpData (p, size, b, [],
                (tr_cur_sched st).sc_steps))), [])
           | _ -> tr_r_fail st)
        | RpData (p, size, cp, acc, steps) ->
          (match m with
           | TrData f -> tr_r_frame zdecomp aparse c st p size cp acc steps f
           | TrKeepAlive -> tr_r_stay st
           | _ -> tr_r_fail st)
        | RpV1 (p, size, w) ->
          (match m with
           | TrData pl -> tr_r_v1 unzl c st p size w pl
           | _ -> tr_r_fail st)
        | RpMd5 (p, w) ->
          (match m with
           | TrMd5 d -> tr_r_md5 h deq aparse c dest st p w d
           | _ -> tr_r_fail st)
        | RpExit ->
          (match m with
           | TrExit _ -> ((tr_r_phase st RpDone), [])
           | _ -> tr_r_fail st)
        | _ -> tr_r_stay st)
     | TrSuccName _ ->
       (match ph with
        | RpNum ->
          (match m with
           | TrNum n ->
             let (st', outs) =
               tr_r_next c (N.to_nat n) st.rs_st st.rs_names st.rs_sched
             in
             (st', ((TrSuccInt n) :: outs))
           | _ -> tr_r_fail st)
        | RpName ->
          (match m with
           | TrName p -> tr_r_name c dest st p
           | _ -> tr_r_fail st)
        | RpHSize (p, leaf, old) ->
          (match m with
           | TrSize n ->
             ((tr_r_phase st (RpHash (p, leaf, old, n, r_init))), [])
           | _ -> tr_r_fail st)
        | RpHash (p, leaf, old, ssize, r) ->
          (match m with
           | TrHash (step, h0) -> tr_r_hash hx st p leaf old ssize r step h0
           | TrHashOver -> tr_r_over st p leaf old ssize r
           | _ -> tr_r_fail st)
        | RpSize p ->
          (match m with
           | TrSize n -> tr_r_size c st p n
           | _ -> tr_r_fail st)
        | RpComp (p, size) ->
          (match m with
           | TrComp b ->
             ((tr_r_phase st (RpData (p, size, b, [],
                (tr_cur_sched st).sc_steps))), [])
           | _ -> tr_r_fail st)
        | RpData (p, size, cp, acc, steps) ->
          (match m with
           | TrData f -> tr_r_frame zdecomp aparse c st p size cp acc steps f
           | TrKeepAlive -> tr_r_stay st
           | _ -> tr_r_fail st)
        | RpV1 (p, size, w) ->
          (match m with
           | TrData pl -> tr_r_v1 unzl c st p size w pl
           | _ -> tr_r_fail st)
        | RpMd5 (p, w) ->
          (match m with
           | TrMd5 d -> tr_r_md5 h deq aparse c dest st p w d
           | _ -> tr_r_fail st)
        | RpExit ->
          (match m with
           | TrExit _ -> ((tr_r_phase st RpDone), [])
           | _ -> tr_r_fail st)
        | _ -> tr_r_stay st)
     | TrSuccTarget (_, _) ->
       (match ph with
        | RpNum ->
          (match m with
           | TrNum n ->
             let (st', outs) =
               tr_r_next c (N.to_nat n) st.rs_st st.rs_names st.rs_sched
             in
             (st', ((TrSuccInt n) :: outs))
           | _ -> tr_r_fail st)
        | RpName ->
          (match m with
           | TrName p -> tr_r_name c dest st p
           | _ -> tr_r_fail st)
        | RpHSize (p, leaf, old) ->
          (match m with
           | TrSize n ->
             ((tr_r_phase st (RpHash (p, leaf, old, n, r_init))), [])
           | _ -> tr_r_fail st)
        | RpHash (p, leaf, old, ssize, r) ->
          (match m with
           | TrHash (step, h0) -> tr_r_hash hx st p leaf old ssize r step h0
           | TrHashOver -> tr_r_over st p leaf old ssize r
           | _ -> tr_r_fail st)
        | RpSize p ->
          (match m with
           | TrSize n -> tr_r_size c st p n
           | _ -> tr_r_fail st)
        | RpComp (p, size) ->
          (match m with
           | TrComp b ->
             ((tr_r_phase st (RpData (p, size, b, [],
                (tr_cur_sched st).sc_steps))), [])
           | _ -> tr_r_fail st)
        | RpData (p, size, cp, acc, steps) ->
          (match m with
           | TrData f -> tr_r_frame zdecomp aparse c st p size cp acc steps f
           | TrKeepAlive -> tr_r_stay st
           | _ -> tr_r_fail st)
        | RpV1 (p, size, w) ->
          (match m with
           | TrData pl -> tr_r_v1 unzl c st p size w pl
           | _ -> tr_r_fail st)
        | RpMd5 (p, w) ->
          (match m with
           | TrMd5 d -> tr_r_md5 h deq aparse c dest st p w d
           | _ -> tr_r_fail st)
        | RpExit ->
          (match m with
           | TrExit _ -> ((tr_r_phase st RpDone), [])
           | _ -> tr_r_fail st)
        | _ -> tr_r_stay st)
     | TrSuccAck (_, _) ->
       (match ph with
        | RpNum ->
          (match m with
           | TrNum n ->
             let (st', outs) =
               tr_r_next c (N.to_nat n) st.rs_st st.rs_names st.rs_sched
             in
             (st', ((TrSuccInt n) :: outs))
           | _ -> tr_r_fail st)
        | RpName ->
          (match m with
           | TrName p -> tr_r_name c dest st p
           | _ -> tr_r_fail st)
        | RpHSize (p, leaf, old) ->
          (match m with
           | TrSize n ->
             ((tr_r_phase st (RpHash (p, leaf, old, n, r_init))), [])
           | _ -> tr_r_fail st)
        | RpHash (p, leaf, old, ssize, r) ->
          (match m with
           | TrHash (step, h0) -> tr_r_hash hx st p leaf old ssize r step h0
           | TrHashOver -> tr_r_over st p leaf old ssize r
           | _ -> tr_r_fail st)
        | RpSize p ->
          (match m with
           | TrSize n -> tr_r_size c st p n
           | _ -> tr_r_fail st)
        | RpComp (p, size) ->
          (match m with
           | TrComp b ->
             ((tr_r_phase st (RpData (p, size, b, [],
                (tr_cur_sched st).sc_steps))), [])
           | _ -> tr_r_fail st)
        | RpData (p, size, cp, acc, steps) ->
          (match m with
           | TrData f -> tr_r_frame zdecomp aparse c st p size cp acc steps f
           | TrKeepAlive -> tr_r_stay st
           | _ -> tr_r_fail st)
        | RpV1 (p, size, w) ->
          (match m with
           | TrData pl -> tr_r_v1 unzl c st p size w pl
           | _ -> tr_r_fail st)
        | RpMd5 (p, w) ->
          (match m with
           | TrMd5 d -> tr_r_md5 h deq aparse c dest st p w d
           | _ -> tr_r_fail st)
        | RpExit ->
          (match m with
           | TrExit _ -> ((tr_r_phase st RpDone), [])
           | _ -> tr_r_fail st)
        | _ -> tr_r_stay st)
     | TrSuccDigest _ ->
       (match ph with
        | RpNum ->
          (match m with
           | TrNum n ->
             let (st', outs) =
               tr_r_next c (N.to_nat n) st.rs_st st.rs_names st.rs_sched
             in
             (st', ((TrSuccInt n) :: outs))
           | _ -> tr_r_fail st)
        | RpName ->
          (match m with
           | TrName p -> tr_r_name c dest st p
           | _ -> tr_r_fail st)
        | RpHSize (p, leaf, old) ->
          (match m with
           | TrSize n ->
             ((tr_r_phase st (RpHash (p, leaf, old, n, r_init))), [])
           | _ -> tr_r_fail st)
        | RpHash (p, leaf, old, ssize, r) ->
          (match m with
           | TrHash (step, h0) -> tr_r_hash hx st p leaf old ssize r step h0
           | TrHashOver -> tr_r_over st p leaf old ssize r
           | _ -> tr_r_fail st)
        | RpSize p ->
          (match m with
           | TrSize n -> tr_r_size c st p n
           | _ -> tr_r_fail st)
        | RpComp (p, size) ->
          (match m with
           | TrComp b ->
             ((tr_r_phase st (RpData (p, size, b, [],
                (tr_cur_sched st).sc_steps))), [])
           | _ -> tr_r_fail st)
        | RpData (p, size, cp, acc, steps) ->
          (match m with
           | TrData f -> tr_r_frame zdecomp aparse c st p size cp acc steps f
           | TrKeepAlive -> tr_r_stay st
           | _ -> tr_r_fail st)
        | RpV1 (p, size, w) ->
          (match m with
           | TrData pl -> tr_r_v1 unzl c st p size w pl
           | _ -> tr_r_fail st)
        | RpMd5 (p, w) ->
          (match m with
           | TrMd5 d -> tr_r_md5 h deq aparse c dest st p w d
           | _ -> tr_r_fail st)
        | RpExit ->
          (match m with
           | TrExit _ -> ((tr_r_phase st RpDone), [])
           | _ -> tr_r_fail st)
        | _ -> tr_r_stay st)
     | TrSuccHack (_, _) ->
       (match ph with
        | RpNum ->
          (match m with
           | TrNum n ->
             let (st', outs) =
               tr_r_next c (N.to_nat n) st.rs_st st.rs_names st.rs_sched
             in
             (st', ((TrSuccInt n) :: outs))
           | _ -> tr_r_fail st)
        | RpName ->
          (match m with
           | TrName p -> tr_r_name c dest st p
           | _ -> tr_r_fail st)
        | RpHSize (p, leaf, old) ->
          (match m with
           | TrSize n ->
             ((tr_r_phase st (RpHash (p, leaf, old, n, r_init))), [])
           | _ -> tr_r_fail st)
        | RpHash (p, leaf, old, ssize, r) ->
          (match m with
           | TrHash (step, h0) -> tr_r_hash hx st p leaf old ssize r step h0
           | TrHashOver -> tr_r_over st p leaf old ssize r
           | _ -> tr_r_fail st)
        | RpSize p ->
          (match m with
           | TrSize n -> tr_r_size c st p n
           | _ -> tr_r_fail st)
        | RpComp (p, size) ->
          (match m with
           | TrComp b ->
             ((tr_r_phase st (RpData (p, size, b, [],
                (tr_cur_sched st).sc_steps))), [])
           | _ -> tr_r_fail st)
        | RpData (p, size, cp, acc, steps) ->
          (match m with
           | TrData f -> tr_r_frame zdecomp aparse c st p size cp acc steps f
           | TrKeepAlive -> tr_r_stay st
           | _ -> tr_r_fail st)
        | RpV1 (p, size, w) ->
          (match m with
           | TrData pl -> tr_r_v1 unzl c st p size w pl
           | _ -> tr_r_fail st)
        | RpMd5 (p, w) ->
          (match m with
           | TrMd5 d -> tr_r_md5 h deq aparse c dest st p w d
           | _ -> tr_r_fail st)
        | RpExit ->
          (match m with
           | TrExit _ -> ((tr_r_phase st RpDone), [])
           | _ -> tr_r_fail st)
        | _ -> tr_r_stay st)
     | TrKeepAlive ->
       (match ph with
        | RpNum ->
          (match m with
           | TrNum n ->
             let (st', outs) =
               tr_r_next c (N.to_nat n) st.rs_st st.rs_names st.rs_sched
             in
             (st', ((TrSuccInt n) :: outs))
           | _ -> tr_r_fail st)
        | RpName ->
          (match m with
           | TrName p -> tr_r_name c dest st p
           | _ -> tr_r_fail st)
        | RpHSize (p, leaf, old) ->
          (match m with
           | TrSize n ->
             ((tr_r_phase st (RpHash (p, leaf, old, n, r_init))), [])
           | _ -> tr_r_fail st)
        | RpHash (p, leaf, old, ssize, r) ->
          (match m with
           | TrHash (step, h0) -> tr_r_hash hx st p leaf old ssize r step h0
           | TrHashOver -> tr_r_over st p leaf old ssize r
           | _ -> tr_r_fail st)
        | RpSize p ->
          (match m with
           | TrSize n -> tr_r_size c st p n
           | _ -> tr_r_fail st)
        | RpComp (p, size) ->
          (match m with
           | TrComp b ->
             ((tr_r_phase st (RpData (p, size, b, [],
                (tr_cur_sched st).sc_steps))), [])
           | _ -> tr_r_fail st)
        | RpData (p, size, cp, acc, steps) ->
          (match m with
           | TrData f -> tr_r_frame zdecomp aparse c st p size cp acc steps f
           | TrKeepAlive -> tr_r_stay st
           | _ -> tr_r_fail st)
        | RpV1 (p, size, w) ->
          (match m with
           | TrData pl -> tr_r_v1 unzl c st p size w pl
           | _ -> tr_r_fail st)
        | RpMd5 (p, w) ->
          (match m with
           | TrMd5 d -> tr_r_md5 h deq aparse c dest st p w d
           | _ -> tr_r_fail st)
        | RpExit ->
          (match m with
           | TrExit _ -> ((tr_r_phase st RpDone), [])
           | _ -> tr_r_fail st)
        | _ -> tr_r_stay st)
     | TrFail -> ((tr_r_phase st RpFail), []))
  | _ -> tr_r_stay st

type 'digest tr_conf = { cf_s : tr_sstate; cf_r : tr_rstate;
                         cf_s2r : 'digest tr_msg list;
                         cf_r2s : 'digest tr_msg list;
                         cf_log : (bool * 'digest tr_msg) list }

(** val tr_tag_out : bool -> 'a1 tr_msg list -> (bool * 'a1 tr_msg) list **)

let tr_tag_out dir ms =
  map (fun m -> (dir, m)) ms

(** val tr_step :
    (byte list -> 'a1) -> ('a1 -> 'a1 -> bool) -> (byte list list -> byte
    list list) -> (byte list -> byte list option) -> (byte list -> byte list)
    -> (byte list -> byte list option) -> (byte list -> digest) -> (src ->
    coq_Z -> byte list) -> (byte list -> (src * coq_Z) option) -> tr_cfg ->
    path -> 'a1 tr_conf -> 'a1 tr_conf option **)

let tr_step h deq zcomp zdecomp zl unzl hx ahdr aparse c dest cf =
  match cf.cf_s2r with
  | [] ->
    (match cf.cf_r2s with
     | [] -> None
     | m :: q ->
       let (s', outs) = tr_sender h deq zcomp zl hx ahdr c cf.cf_s m in
       Some { cf_s = s'; cf_r = cf.cf_r; cf_s2r = outs; cf_r2s = q; cf_log =
       (app cf.cf_log (tr_tag_out true outs)) })
  | m :: q ->
    let (r', outs) = tr_receiver h deq zdecomp unzl hx aparse c dest cf.cf_r m
    in
    Some { cf_s = cf.cf_s; cf_r = r'; cf_s2r = q; cf_r2s =
    (app cf.cf_r2s outs); cf_log = (app cf.cf_log (tr_tag_out false outs)) }

(** val tr_run_from :
    (byte list -> 'a1) -> ('a1 -> 'a1 -> bool) -> (byte list list -> byte
    list list) -> (byte list -> byte list option) -> (byte list -> byte list)
    -> (byte list -> byte list option) -> (byte list -> digest) -> (src ->
    coq_Z -> byte list) -> (byte list -> (src * coq_Z) option) -> nat ->
    tr_cfg -> path -> 'a1 tr_conf -> 'a1 tr_conf **)

let rec tr_run_from h deq zcomp zdecomp zl unzl hx ahdr aparse fuel c dest cf =
  match fuel with
  | O -> cf
  | S f ->
    (match tr_step h deq zcomp zdecomp zl unzl hx ahdr aparse c dest cf with
     | Some cf' ->
       tr_run_from h deq zcomp zdecomp zl unzl hx ahdr aparse f c dest cf'
     | None -> cf)

(** val tr_init :
    tr_cfg -> (tr_entry * tr_sched) list -> fs -> 'a1 tr_conf **)

let tr_init c items f0 =
  let (s, outs) = tr_sender_init c items in
  { cf_s = s; cf_r = (tr_receiver_init f0 (map snd items)); cf_s2r = outs;
  cf_r2s = []; cf_log = (tr_tag_out true outs) }

(** val tr_run_items :
    (byte list -> 'a1) -> ('a1 -> 'a1 -> bool) -> (byte list list -> byte
    list list) -> (byte list -> byte list option) -> (byte list -> byte list)
    -> (byte list -> byte list option) -> (byte list -> digest) -> (src ->
    coq_Z -> byte list) -> (byte list -> (src * coq_Z) option) -> nat ->
    tr_cfg -> path -> (tr_entry * tr_sched) list -> fs -> 'a1 tr_conf **)

let tr_run_items h deq zcomp zdecomp zl unzl hx ahdr aparse fuel c dest items f0 =
  tr_run_from h deq zcomp zdecomp zl unzl hx ahdr aparse fuel c dest
    (tr_init c items f0)

(** val tr_run :
    (byte list -> 'a1) -> ('a1 -> 'a1 -> bool) -> (byte list list -> byte
    list list) -> (byte list -> byte list option) -> (byte list -> byte list)
    -> (byte list -> byte list option) -> (byte list -> digest) -> (src ->
    coq_Z -> byte list) -> (byte list -> (src * coq_Z) option) -> nat ->
    tr_cfg -> path -> (tr_entry * tr_sched) list -> fs -> 'a1 tr_conf **)

let tr_run h deq zcomp zdecomp zl unzl hx ahdr aparse fuel c dest ess f0 =
  tr_run_items h deq zcomp zdecomp zl unzl hx ahdr aparse fuel c dest
    (tr_group c ess) f0

(** val tr_sender_ok : 'a1 tr_conf -> bool **)

let tr_sender_ok cf =
  match cf.cf_s.ss_phase with
  | SpDone -> true
  | _ -> false

(** val tr_receiver_ok : 'a1 tr_conf -> bool **)

let tr_receiver_ok cf =
  match cf.cf_r.rs_phase with
  | RpDone -> true
  | _ -> false

(** val tr_quiet : 'a1 tr_conf -> bool **)

let tr_quiet cf =
  match cf.cf_s2r with
  | [] -> (match cf.cf_r2s with
           | [] -> true
           | _ :: _ -> false)
  | _ :: _ -> false

(** val tr_resume_run :
    (byte list -> digest) -> tr_cfg -> tr_entry -> tr_sched -> byte list ->
    result **)

let tr_resume_run hx c e sc old =
  run tr_hash_B hx c.tc_proto sc.sc_hstops (te_data e) old

(** val tr_spec_entry :
    (byte list -> digest) -> (src -> coq_Z -> byte list) -> (byte list ->
    (src * coq_Z) option) -> tr_cfg -> path -> tr_entry -> tr_sched -> state
    -> (name * state) option **)

let tr_spec_entry hx ahdr aparse c dest e sc st =
  let p = tr_payload c e in
  if (&&) e.te_isdir (negb (tr_json c))
  then None
  else let (r, st1) = tr_create c dest p [] st in
       (match r with
        | NOk ln ->
          if tr_has_subs e
          then (match tr_arch_entry ahdr e sc with
                | Some f ->
                  (match tr_unarchive aparse e.te_id sc (te_data f) with
                   | Some t ->
                     Some (ln, (tr_graft_st st1 (app dest (ln :: [])) t))
                   | None -> None)
                | None -> None)
          else if e.te_isdir
               then Some (ln, st1)
               else if (&&) (tr_json_names c)
                         (N.ltb N0 (tr_target_size dest ln p st1))
                    then (match tr_resume_run hx c e sc
                                  (tr_old_content st1 (tr_leaf dest ln p)) with
                          | Done o ->
                            Some (ln,
                              (tr_set_file st1 (tr_leaf dest ln p) o.o_final))
                          | _ -> None)
                    else let (r0, st2) = tr_create c dest p (te_data e) st in
                         (match r0 with
                          | NOk _ -> Some (ln, st2)
                          | NErr -> None)
        | NErr -> None)

(** val tr_spec :
    (byte list -> digest) -> (src -> coq_Z -> byte list) -> (byte list ->
    (src * coq_Z) option) -> tr_cfg -> path -> (tr_entry * tr_sched) list ->
    state -> name list -> ((name list * name list) * state) option **)

let rec tr_spec hx ahdr aparse c dest items st names =
  match items with
  | [] -> Some (([], names), st)
  | p :: items' ->
    let (e, sc) = p in
    (match tr_spec_entry hx ahdr aparse c dest e sc st with
     | Some p0 ->
       let (ln, st') = p0 in
       (match tr_spec hx ahdr aparse c dest items' st' (tr_add_name names ln) with
        | Some p1 ->
          let (p2, stf) = p1 in
          let (per, all) = p2 in Some (((ln :: per), all), stf)
        | None -> None)
     | None -> None)

(** val tr_tail_steps :
    (byte list list -> byte list list) -> tr_cfg -> tr_entry -> tr_sched ->
    nat **)

let tr_tail_steps zcomp c e sc =
  if tr_pipeline c
  then add
         (add
           (add
             (add (add (S (S O)) (length (snd (tr_compress c e sc))))
               (mul (S (S O)) (S (length (tr_frames zcomp c e sc)))))
             (length (filter (fun s -> N.ltb s (te_size e)) sc.sc_prefinal)))
           (S O)) (S (S O))
  else add (add (S (S O)) (mul (S (S O)) (length (tr_v1_chunks e sc)))) (S (S
         O))

(** val tr_entry_steps :
    (byte list list -> byte list list) -> (byte list -> digest) -> (src ->
    coq_Z -> byte list) -> tr_cfg -> path -> tr_entry -> tr_sched -> state ->
    nat **)

let tr_entry_steps zcomp hx ahdr c dest e sc st =
  add (S (S O))
    (let (r, st1) = tr_create c dest (tr_payload c e) [] st in
     (match r with
      | NOk ln ->
        if (&&) (tr_json_names c) (tr_has_subs e)
        then (match tr_arch_entry ahdr e sc with
              | Some f -> tr_tail_steps zcomp c f sc
              | None -> S O)
        else if e.te_isdir
             then O
             else if (&&) (tr_json_names c)
                       (N.ltb N0
                         (tr_target_size dest ln (tr_payload c e) st1))
                  then (match tr_resume_run hx c e sc
                                (tr_old_content st1
                                  (tr_leaf dest ln (tr_payload c e))) with
                        | Done o ->
                          add
                            (add
                              (add (length (tr_resume_pre c e))
                                (length o.o_hashes)) (length o.o_acks))
                            (tr_tail_steps zcomp c (tr_rem_entry e o.o_msend)
                              sc)
                        | SenderBlocked (hs, acks) ->
                          add (add (length (tr_resume_pre c e)) (length hs))
                            (length acks)
                        | _ -> O)
                  else tr_tail_steps zcomp c e sc
      | NErr -> O))

(** val tr_fuel_go :
    (byte list list -> byte list list) -> (byte list -> digest) -> (src ->
    coq_Z -> byte list) -> (byte list -> (src * coq_Z) option) -> tr_cfg ->
    path -> (tr_entry * tr_sched) list -> state -> nat **)

let rec tr_fuel_go zcomp hx ahdr aparse c dest items st =
  match items with
  | [] -> S O
  | p :: r ->
    let (e, sc) = p in
    add (tr_entry_steps zcomp hx ahdr c dest e sc st)
      (match tr_spec_entry hx ahdr aparse c dest e sc st with
       | Some p0 ->
         let (_, st') = p0 in tr_fuel_go zcomp hx ahdr aparse c dest r st'
       | None -> O)

(** val tr_fuel_items :
    (byte list list -> byte list list) -> (byte list -> digest) -> (src ->
    coq_Z -> byte list) -> (byte list -> (src * coq_Z) option) -> tr_cfg ->
    path -> (tr_entry * tr_sched) list -> fs -> nat **)

let tr_fuel_items zcomp hx ahdr aparse c dest items f0 =
  add (S (S O)) (tr_fuel_go zcomp hx ahdr aparse c dest items (init_state f0))

(** val tr_fuel :
    (byte list list -> byte list list) -> (byte list -> digest) -> (src ->
    coq_Z -> byte list) -> (byte list -> (src * coq_Z) option) -> tr_cfg ->
    path -> (tr_entry * tr_sched) list -> fs -> nat **)

let tr_fuel zcomp hx ahdr aparse c dest ess f0 =
  tr_fuel_items zcomp hx ahdr aparse c dest (tr_group c ess) f0

type tr_tag =
| TgNum
| TgSucc
| TgName
| TgSize
| TgComp
| TgData
| TgFinish
| TgAck
| TgMd5
| TgExit
| TgHash
| TgOver
| TgHack
| TgOther

(** val tr_tag_of : 'a1 tr_msg -> tr_tag **)

let tr_tag_of = function
| TrNum _ -> TgNum
| TrName _ -> TgName
| TrSize _ -> TgSize
| TrComp _ -> TgComp
| TrData f -> (match f with
               | [] -> TgFinish
               | _ :: _ -> TgData)
| TrMd5 _ -> TgMd5
| TrExit _ -> TgExit
| TrHash (_, _) -> TgHash
| TrHashOver -> TgOver
| TrSuccAck (_, _) -> TgAck
| TrSuccHack (_, _) -> TgHack
| TrKeepAlive -> TgOther
| TrFail -> TgOther
| _ -> TgSucc

type tr_q =
| Q0
| Q1
| Q2
| Q3
| Q4
| Q5
| Q6
| Q7
| Q8
| Q9
| Q10
| Q11
| QH
| QO
| QE

(** val tr_delta : bool -> tr_q -> tr_tag -> tr_q option **)

let tr_delta pipe q t =
  match q with
  | Q0 -> (match t with
           | TgNum -> Some Q1
           | _ -> None)
  | Q2 -> (match t with
           | TgName -> Some Q3
           | TgExit -> Some QE
           | _ -> None)
  | Q3 -> (match t with
           | TgSucc -> Some Q4
           | _ -> None)
  | Q4 ->
    (match t with
     | TgName -> Some Q3
     | TgSize -> Some Q5
     | TgExit -> Some QE
     | TgHash -> if pipe then Some QH else None
     | TgOver -> if pipe then Some QO else None
     | _ -> None)
  | Q5 ->
    (match t with
     | TgSucc -> Some Q6
     | TgHash -> if pipe then Some QH else None
     | TgOver -> if pipe then Some QO else None
     | _ -> None)
  | Q6 ->
    (match t with
     | TgComp -> if pipe then Some Q7 else None
     | TgData -> if pipe then Some Q7 else Some Q11
     | TgFinish -> if pipe then Some Q8 else Some Q11
     | TgMd5 -> if pipe then None else Some Q10
     | _ -> None)
  | Q7 -> (match t with
           | TgData -> Some Q7
           | TgFinish -> Some Q8
           | _ -> None)
  | Q8 -> (match t with
           | TgSucc -> Some Q9
           | TgAck -> Some Q8
           | _ -> None)
  | Q9 -> (match t with
           | TgSucc -> Some Q9
           | TgMd5 -> Some Q10
           | _ -> None)
  | Q11 -> (match t with
            | TgSucc -> Some Q6
            | _ -> None)
  | QH ->
    (match t with
     | TgHash -> Some QH
     | TgOver -> Some QO
     | TgHack -> Some QH
     | _ -> None)
  | QO -> (match t with
           | TgSize -> Some Q5
           | TgHack -> Some QO
           | _ -> None)
  | QE -> None
  | _ -> (match t with
          | TgSucc -> Some Q2
          | _ -> None)

(** val tr_accepts_from : bool -> tr_q -> tr_tag list -> tr_q option **)

let rec tr_accepts_from pipe q = function
| [] -> Some q
| t :: ts' ->
  (match tr_delta pipe q t with
   | Some q' -> tr_accepts_from pipe q' ts'
   | None -> None)

(** val tr_shape_ok : bool -> (bool * 'a1 tr_msg) list -> bool **)

let tr_shape_ok pipe log =
  match tr_accepts_from pipe Q0 (map (fun dm -> tr_tag_of (snd dm)) log) with
  | Some t -> (match t with
               | QE -> true
               | _ -> false)
  | None -> false

(** val tr_p_head : tr_npayload -> name **)

let tr_p_head = function
| TrPlain nm -> nm
| TrJson (s, _) -> hd [] s.s_rel

(** val tr_tail : tr_cfg -> tr_entry -> name list **)

let tr_tail c e =
  tr_p_tail (tr_payload c e)

(** val tr_key : tr_cfg -> tr_entry -> name **)

let tr_key c e =
  tr_p_head (tr_payload c e)

(** val tr_nodupb : ('a1 -> 'a1 -> bool) -> 'a1 list -> bool **)

let rec tr_nodupb eqb0 = function
| [] -> true
| x :: r -> (&&) (negb (existsb (eqb0 x) r)) (tr_nodupb eqb0 r)

(** val tr_first_top : coq_Z list -> tr_entry list -> bool **)

let rec tr_first_top seen = function
| [] -> true
| e :: r ->
  (&&)
    (match tl e.te_rel with
     | [] -> true
     | _ :: _ -> existsb (Z.eqb e.te_id) seen)
    (tr_first_top (e.te_id :: seen) r)

(** val tr_subs_wfb : tr_entry -> bool **)

let tr_subs_wfb e =
  (&&)
    ((&&)
      ((&&)
        (forallb (fun s ->
          (&&)
            ((&&) ((&&) (Z.eqb s.te_id e.te_id) (negb (tr_has_subs s)))
              (list_eqb (hd [] s.te_rel) (hd [] e.te_rel)))
            (nonempty s.te_rel)) e.te_subs)
        (tr_nodupb apath_eqb (map (fun s -> tl s.te_rel) e.te_subs)))
      (forallb (fun s -> nonempty (tl s.te_rel)) e.te_subs))
    (forallb (fun s ->
      (||) s.te_isdir
        (forallb (fun s' ->
          negb (apath_proper_prefix (tl s.te_rel) (tl s'.te_rel))) e.te_subs))
      e.te_subs)

(** val tr_wfb : tr_cfg -> tr_entry list -> bool **)

let tr_wfb c es =
  (&&)
    ((&&)
      (if c.tc_overwrite
       then tr_nodupb path_eqb
              (map (fun e -> (tr_key c e) :: (tr_tail c e)) es)
       else if tr_json c
            then (&&)
                   (tr_nodupb (fun a b ->
                     (&&) (Z.eqb (fst a) (fst b)) (path_eqb (snd a) (snd b)))
                     (map (fun e -> (e.te_id, (tl e.te_rel))) es))
                   (tr_first_top [] es)
            else true)
      (forallb (fun e ->
        (||) (negb (tr_has_subs e)) ((&&) (tr_archive_mode c) (tr_subs_wfb e)))
        es))
    ((||) (negb (tr_archive_mode c))
      (tr_nodupb Z.eqb (map (fun t -> t.te_id) es)))
