open BinNat
open Bytes0
open Consts
open Datatypes
open List0
open PeanoNat

val queue_capacity : nat

val add_blocks : bool

type qstate = { q_todo : byte list list; q_queue : byte list list;
                q_taken : byte list list; q_dropped : byte list list }

type qmove =
| QProduce
| QConsume

val qstep : nat -> bool -> qmove -> qstate -> qstate option

val qrun : nat -> bool -> qmove list -> qstate -> qstate

val q_init : byte list list -> qstate

val q_alternate : nat -> qmove list

val q_late_schedule : nat -> qmove list

val queue_late : byte list list -> qstate
