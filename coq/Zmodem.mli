open BinInt
open BinNat
open BinNums
open Bytes0
open Consts
open Datatypes
open List0
open Nat0
open PeanoNat

val is_hex_lc : coq_N -> bool

val all_hex : nat -> coq_N list -> bool

val init_prefix : coq_N list

val finish_prefix : coq_N list

val init_at : coq_N list -> bool option

val init_find : coq_N list -> bool option

val finish_at : coq_N list -> bool

val finish_find : coq_N list -> bool

val is_finish : coq_N list -> bool

val has_cancel : coq_N list -> bool

val has_cannot : coq_N list -> bool

val detect_zmodem : coq_N list -> bool option

type helper =
| HNone
| HRun
| HExit of coq_Z

type zstate = { upload : bool; cf : bool; sf : bool; eo : bool;
                stopped : bool; cleaned : bool; hp : helper; reader : 
                bool; lpend : bool; tcu : bool; tcl : bool; tsv : bool;
                ksched : bool; gbegun : bool }

val set_cf : bool -> zstate -> zstate

val set_sf : bool -> zstate -> zstate

val set_eo : bool -> zstate -> zstate

val set_stopped : bool -> zstate -> zstate

val set_cleaned : bool -> zstate -> zstate

val set_hp : helper -> zstate -> zstate

val set_reader : bool -> zstate -> zstate

val set_lpend : bool -> zstate -> zstate

val set_tcu : bool -> zstate -> zstate

val set_tcl : bool -> zstate -> zstate

val set_tsv : bool -> zstate -> zstate

val set_ksched : bool -> zstate -> zstate

val set_gbegun : bool -> zstate -> zstate

type fstate = { zs : zstate; ptr : bool }

val new_session : bool -> zstate

val idle : fstate

type launch_res =
| LaunchOk
| LaunchFail
| ChooserErr

type event =
| EvServer of coq_N list
| EvInput of coq_N list
| EvLaunch of launch_res
| EvHelperOut of coq_N list
| EvHelperEOF
| EvHelperReadErr
| EvHelperExit of coq_Z
| EvCleanupFire
| EvClientFire
| EvServerFire
| EvGraceBegin

type msg =
| MStopped
| MSuccess
| MExit of coq_Z
| MLaunchFail
| MChooser
| MClientTimeout
| MServerTimeout
| MReadErr

type timer =
| TCleanup
| TClient
| TServer

type output =
| OTerm of coq_N list
| OHide
| OShow
| OMsg of msg
| OServer of coq_N list
| OCancelServer
| OCancelHelper
| OOServer
| OOHelper
| OHelper of coq_N list
| OClaim
| OForward
| OInput of bool
| OStart of bool
| OArm of timer
| OStopT of timer
| OKill
| OLaunchHelper
| OCrash

type res = zstate * output list

val andthen : res -> (zstate -> res) -> res

val is_transferring : zstate -> bool

val to_helper : zstate -> output -> output list

val reset_cleanup : zstate -> res

val reset_client : zstate -> res

val reset_server : zstate -> res

val handle_error_gen : bool -> bool -> msg -> zstate -> res

val handle_error : bool -> msg -> zstate -> res

val ensure_over_and_out : zstate -> res

val handle_server_output : coq_N list -> zstate -> res * bool

val reader_end : zstate -> res

val helper_out : bool -> coq_N list -> zstate -> res

val helper_eof : zstate -> res

val helper_readerr : bool -> zstate -> res

val helper_exit : coq_Z -> zstate -> res

val grace_begin : zstate -> res

val launch : bool -> launch_res -> zstate -> res

val cleanup_fire : zstate -> res

type fres = fstate * output list

val lift : bool -> res -> fres

val server_chunk : coq_N list -> fstate -> fres

val typed : bool -> coq_N list -> fstate -> fres

val step_gen : bool -> fstate -> event -> fres

val run_gen : bool -> fstate -> event list -> fres

type scripted =
| ScServer of coq_N list
| ScInput of coq_N list
| ScHelperOut of coq_N list
| ScHelperExit of coq_Z

type remote_spec = { r_t0 : coq_N; r_period : coq_N; r_max : nat;
                     r_hdr : coq_N list; r_prompt : coq_N list }

val remote_stopper : output -> bool

val remote_waiting : output list -> bool

val ends_in_cr : coq_N list -> bool

type scenario = { sc_launch : launch_res; sc_autoexit : coq_Z option;
                  sc_dlpath : bool; sc_greet : coq_N list;
                  sc_remote : remote_spec option; sc_readerr : bool list }

type pend = { p_launch : coq_N option; p_kill : coq_N option;
              p_cleanup : coq_N option; p_client : coq_N option;
              p_server : coq_N option }

val no_pend : pend

val note : scenario -> coq_N -> pend -> output -> pend

type internal =
| ILaunch
| IKill
| ICleanup
| IClient
| IServer

val earlier :
  (coq_N * internal) option -> (coq_N * internal) option ->
  (coq_N * internal) option

val tag : internal -> coq_N option -> (coq_N * internal) option

val next_internal : pend -> (coq_N * internal) option

val clear : internal -> pend -> pend

val internal_events : scenario -> event -> internal -> event list

val scripted_events : event -> scripted -> event list

type tstate = { t_f : fstate; t_p : pend; t_out : output list;
                t_evs : event list; t_rem : nat }

val sessions : output list -> nat

val eof_event : scenario -> tstate -> event

val has_start : output list -> bool

val apply_events1 :
  bool -> scenario -> coq_N -> event list -> tstate -> tstate * output list

val shell_answers : scenario -> output list -> output list -> event list

val apply_events : bool -> scenario -> coq_N -> event list -> tstate -> tstate

val next_remote : scenario -> tstate -> (coq_N * remote_spec) option

val drain : nat -> bool -> scenario -> coq_N -> tstate -> tstate

val drain_fuel : nat

val run_timed_from :
  bool -> scenario -> (coq_N * scripted) list -> coq_N -> tstate -> tstate

val run_timed : bool -> scenario -> (coq_N * scripted) list -> coq_N -> tstate

val zmodem_detect : coq_N list -> bool option

val zmodem_finish_re : coq_N list -> bool

val msg_code : msg -> coq_N list

val canon_item : output -> (coq_N * coq_N list) option

val canon_items : output list -> (coq_N * coq_N list) list

val helper_bytes : output list -> coq_N list

val started : output list -> bool

val flags_of : zstate -> bool list

val decode_scripted : (coq_N * (coq_N list * coq_Z)) -> scripted

val launches : output list -> coq_N

val zmodem_run_canon :
  bool -> coq_N -> coq_Z option -> bool -> coq_N list ->
  (coq_N * (coq_N * (nat * (coq_N list * coq_N list)))) option -> bool list
  -> coq_N -> (coq_N * (coq_N * (coq_N list * coq_Z))) list ->
  ((coq_N * coq_N list) list * coq_N list) * (bool
  list * (bool * (bool * (coq_N * bool))))
