open BinNat
open BinNums
open Bytes0
open Consts
open Datatypes
open List0
open Nat0
open PeanoNat

val nlen : coq_N list -> coq_N

val has_suffix : coq_N list -> coq_N list -> bool

val span_digits : coq_N list -> coq_N list * coq_N list

val digits1 : coq_N list -> (coq_N list * coq_N list) option

val strip_prefix : coq_N list -> coq_N list -> coq_N list option

val strip_byte : coq_N -> coq_N list -> coq_N list option

val replace_from : coq_N list -> coq_N list -> nat -> coq_N list -> coq_N list

val replace_all : coq_N list -> coq_N list -> coq_N list -> coq_N list

val dec_value : coq_N list -> coq_N

val all_digits : coq_N list -> bool

val split_on : coq_N -> coq_N list -> coq_N list list

val parse_uint : coq_N -> coq_N list -> coq_N option

type version = (coq_N * coq_N) * coq_N

val version_sep : coq_N

val parse_version : coq_N list -> version option

val marker : coq_N list

val ch_colon : coq_N

val ch_dot : coq_N

val ch_space : coq_N

val ch_nl : coq_N

val is_mode : coq_N -> bool

val lit_output : coq_N list

val lit_ext_output : coq_N list

val lit_ext_tail : coq_N list

val uid_regex_min : nat

val match_version : coq_N list -> (coq_N list * coq_N list) option

val opt_colon_digits : coq_N list -> coq_N list option * coq_N list

type tmatch = { m_mode : coq_N; m_ver : coq_N list; m_id : coq_N list option;
                m_port : coq_N list option }

val trzsz_at : coq_N list -> (tmatch * coq_N list) option

val find_trzsz : coq_N list -> tmatch option

val uid_at : coq_N list -> (coq_N list * coq_N list) option

val uid_find_all : nat -> coq_N list -> coq_N list list

val tmux_prefix_at : coq_N list -> (coq_N list * coq_N list) option

val take_line : coq_N list -> coq_N list

val tmux_at : coq_N list -> coq_N list option

val find_tmux : coq_N list -> coq_N list option

val retag : coq_N list -> coq_N list

val rewrite_step : coq_N list -> coq_N list -> coq_N list

val rewrite_trigger : coq_N list -> coq_N list

val relay_scan_char : coq_N -> bool

val span_relay : coq_N list -> coq_N list * coq_N list

val add_relay_suffix : coq_N list -> nat -> coq_N list

type idmap = (coq_N list * coq_N) list

val mlen : idmap -> coq_N

val map_find : idmap -> coq_N list -> coq_N option

val dedup_eligible : bool -> coq_N list -> bool

val prune : idmap -> idmap

val is_repeated : bool -> idmap -> coq_N list -> bool * idmap

type trigger = { t_mode : coq_N; t_version : version; t_id : coq_N list;
                 t_win : bool; t_port : coq_N; t_prefix : coq_N list }

type det = { d_relay : bool; d_tmux : bool; d_map : idmap }

val new_det : bool -> bool -> det

val set_map : det -> idmap -> det

val int_max : coq_N

val finished : coq_N list -> bool

val win_server : coq_N list -> bool

val is_none : 'a1 option -> bool

val detect :
  bool -> det -> bool -> coq_N list -> (coq_N list * trigger option) * det

val detect_hist :
  bool -> det -> (bool * coq_N list) list -> ((coq_N list * trigger
  option) * coq_N) list * det

val dec_digits_fuel : nat -> coq_N -> coq_N list -> coq_N list

val dec_of : coq_N -> coq_N list

val dec_pad : nat -> coq_N -> coq_N list

val trigger_head : coq_N list

val version_text : version -> coq_N list

val trigger_line : coq_N -> version -> coq_N -> coq_N -> coq_N list
