open BinNat
open BinNums
open Consts
open Datatypes
open List0
open Nat0
open PeanoNat
open Tunnel

type rev =
| RConnect
| RWrite of nat * coq_N list
| RClose of nat
| RInband of coq_N list
| RAct of bool
| RCleanup

val pump_all : coq_N list -> coq_N list -> sstate -> nat -> sstate option

val rsched_once : coq_N list -> coq_N list -> sstate -> sstate option

val rsettle : nat -> coq_N list -> coq_N list -> sstate -> sstate

val push_script : nat -> pev -> sstate -> sstate

val or_same : sstate -> sstate option -> sstate

val rapply : coq_N list -> coq_N list -> sstate -> rev -> sstate

val rreplay : coq_N list -> coq_Z -> rev list -> sstate
