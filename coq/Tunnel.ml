open BinInt
open BinNat
open BinNums
open Bytes0
open Consts
open Datatypes
open List0
open Nat0
open PeanoNat

(** val dec_fuel : nat -> coq_N -> coq_N list -> coq_N list **)

let rec dec_fuel fuel n acc =
  match fuel with
  | O -> acc
  | S f ->
    let d =
      N.add (Npos (Coq_xO (Coq_xO (Coq_xO (Coq_xO (Coq_xI Coq_xH))))))
        (N.modulo n (Npos (Coq_xO (Coq_xI (Coq_xO Coq_xH)))))
    in
    let q = N.div n (Npos (Coq_xO (Coq_xI (Coq_xO Coq_xH)))) in
    if N.eqb q N0 then d :: acc else dec_fuel f q (d :: acc)

(** val dec_N : coq_N -> coq_N list **)

let dec_N n =
  dec_fuel (S (N.size_nat n)) n []

(** val dec_Z : coq_Z -> coq_N list **)

let dec_Z z = match z with
| Zneg p ->
  (Npos (Coq_xI (Coq_xO (Coq_xI (Coq_xI (Coq_xO
    Coq_xH)))))) :: (dec_N (Npos p))
| _ -> dec_N (Z.to_N z)

type farg =
| FStr of coq_N list
| FInt of coq_Z

(** val sprintf : coq_N list -> farg list -> coq_N list **)

let rec sprintf fmt args =
  match fmt with
  | [] -> []
  | c :: r ->
    if N.eqb c (Npos (Coq_xI (Coq_xO (Coq_xI (Coq_xO (Coq_xO Coq_xH))))))
    then (match r with
          | [] -> c :: []
          | v :: r' ->
            if N.eqb v (Npos (Coq_xI (Coq_xI (Coq_xO (Coq_xO (Coq_xI (Coq_xI
                 Coq_xH)))))))
            then (match args with
                  | [] -> c :: (v :: (sprintf r' args))
                  | f :: a ->
                    (match f with
                     | FStr s -> app s (sprintf r' a)
                     | FInt _ -> c :: (v :: (sprintf r' args))))
            else if N.eqb v (Npos (Coq_xO (Coq_xO (Coq_xI (Coq_xO (Coq_xO
                      (Coq_xI Coq_xH)))))))
                 then (match args with
                       | [] -> c :: (v :: (sprintf r' args))
                       | f :: a ->
                         (match f with
                          | FStr _ -> c :: (v :: (sprintf r' args))
                          | FInt z -> app (dec_Z z) (sprintf r' a)))
                 else c :: (v :: (sprintf r' args)))
    else c :: (sprintf r args)

(** val cut_uid : coq_N list -> coq_N list **)

let cut_uid uid =
  if N.ltb tunnel_uid_cut_if_longer (N.of_nat (length uid))
  then firstn (sub (length uid) (N.to_nat tunnel_uid_cut)) uid
  else uid

(** val client_hello : coq_N list -> coq_Z -> coq_N list **)

let client_hello uid port =
  sprintf tunnel_client_hello_fmt ((FStr (cut_uid uid)) :: ((FInt
    port) :: []))

(** val server_hello : coq_N list -> coq_Z -> coq_N list **)

let server_hello uid port =
  sprintf tunnel_server_hello_fmt ((FStr (cut_uid uid)) :: ((FInt
    port) :: []))

(** val hello_matches : coq_N list -> coq_N list -> bool **)

let hello_matches =
  list_eqb

type pev =
| PWrite of coq_N list
| PClose

type src =
| SrcInband
| SrcConn of nat

type hpc =
| HRefused
| HPending
| HAccepted
| HRead
| HCompare of coq_N list option
| HReply
| HCas
| HPumpStart
| HCloseListener
| HDone

type conn = { k_script : pev list; k_rx : coq_N list; k_eof : bool;
              k_pc : hpc; k_first : coq_N list option; k_tx : coq_N list;
              k_closed : bool; k_won : bool; k_pump : bool }

(** val k_first : conn -> coq_N list option **)

let k_first c =
  c.k_first

(** val k_tx : conn -> coq_N list **)

let k_tx c =
  c.k_tx

(** val k_closed : conn -> bool **)

let k_closed c =
  c.k_closed

(** val k_won : conn -> bool **)

let k_won c =
  c.k_won

(** val k_pump : conn -> bool **)

let k_pump c =
  c.k_pump

(** val new_conn : pev list -> hpc -> conn **)

let new_conn script pc =
  { k_script = script; k_rx = []; k_eof = false; k_pc = pc; k_first = None;
    k_tx = []; k_closed = false; k_won = false; k_pump = false }

(** val set_pc : hpc -> conn -> conn **)

let set_pc pc k =
  { k_script = k.k_script; k_rx = k.k_rx; k_eof = k.k_eof; k_pc = pc;
    k_first = k.k_first; k_tx = k.k_tx; k_closed = k.k_closed; k_won =
    k.k_won; k_pump = k.k_pump }

(** val set_closed : conn -> conn **)

let set_closed k =
  { k_script = k.k_script; k_rx = k.k_rx; k_eof = k.k_eof; k_pc = k.k_pc;
    k_first = k.k_first; k_tx = k.k_tx; k_closed = true; k_won = k.k_won;
    k_pump = k.k_pump }

(** val set_rx : coq_N list -> conn -> conn **)

let set_rx rx k =
  { k_script = k.k_script; k_rx = rx; k_eof = k.k_eof; k_pc = k.k_pc;
    k_first = k.k_first; k_tx = k.k_tx; k_closed = k.k_closed; k_won =
    k.k_won; k_pump = k.k_pump }

(** val upd : nat -> ('a1 -> 'a1) -> 'a1 list -> 'a1 list **)

let rec upd c f = function
| [] -> []
| k :: r -> (match c with
             | O -> (f k) :: r
             | S c' -> k :: (upd c' f r))

(** val peer_step : conn -> conn option **)

let peer_step k =
  match k.k_script with
  | [] -> None
  | p :: r ->
    (match p with
     | PWrite bs ->
       Some { k_script = r; k_rx =
         (if k.k_eof then k.k_rx else app k.k_rx bs); k_eof = k.k_eof; k_pc =
         k.k_pc; k_first = k.k_first; k_tx = k.k_tx; k_closed = k.k_closed;
         k_won = k.k_won; k_pump = k.k_pump }
     | PClose ->
       Some { k_script = r; k_rx = k.k_rx; k_eof = true; k_pc = k.k_pc;
         k_first = k.k_first; k_tx = k.k_tx; k_closed = k.k_closed; k_won =
         k.k_won; k_pump = k.k_pump })

type apc =
| AAccept
| ACheck of nat
| ADone

type actst =
| ActWaiting
| ActOk
| ActErr

type sstate = { s_conns : conn list; s_lis : bool; s_apc : apc;
                s_tconn : nat option; s_tconnected : bool;
                s_writer : nat option; s_act : actst;
                s_inbuf : (src * coq_N list) list; s_dropped : coq_N list list }

(** val s_conns : sstate -> conn list **)

let s_conns s =
  s.s_conns

(** val s_lis : sstate -> bool **)

let s_lis s =
  s.s_lis

(** val s_tconn : sstate -> nat option **)

let s_tconn s =
  s.s_tconn

(** val s_tconnected : sstate -> bool **)

let s_tconnected s =
  s.s_tconnected

(** val s_writer : sstate -> nat option **)

let s_writer s =
  s.s_writer

(** val s_act : sstate -> actst **)

let s_act s =
  s.s_act

(** val s_inbuf : sstate -> (src * coq_N list) list **)

let s_inbuf s =
  s.s_inbuf

(** val s_dropped : sstate -> coq_N list list **)

let s_dropped s =
  s.s_dropped

(** val s_init : sstate **)

let s_init =
  { s_conns = []; s_lis = true; s_apc = AAccept; s_tconn = None;
    s_tconnected = false; s_writer = None; s_act = ActWaiting; s_inbuf = [];
    s_dropped = [] }

(** val with_conns : sstate -> conn list -> sstate **)

let with_conns s cs =
  { s_conns = cs; s_lis = s.s_lis; s_apc = s.s_apc; s_tconn = s.s_tconn;
    s_tconnected = s.s_tconnected; s_writer = s.s_writer; s_act = s.s_act;
    s_inbuf = s.s_inbuf; s_dropped = s.s_dropped }

type slabel =
| LConnect of pev list
| LPeer of nat
| LAccept of nat
| LAcceptErr
| LCheck
| LHandler of nat
| LWriteFail of nat
| LPump of nat * nat
| LInband of coq_N list
| LAct of bool
| LCleanup

(** val add_received :
    bool -> src -> coq_N list -> (src * coq_N list) list -> coq_N list list
    -> (src * coq_N list) list * coq_N list list **)

let add_received tconnected from bs inbuf dropped =
  match from with
  | SrcInband ->
    if tconnected
    then (inbuf, (app dropped (bs :: [])))
    else ((app inbuf ((from, bs) :: [])), dropped)
  | SrcConn _ -> ((app inbuf ((from, bs) :: [])), dropped)

(** val sstep :
    coq_N list -> coq_N list -> sstate -> slabel -> sstate option **)

let sstep ch sh s = function
| LConnect script ->
  Some
    (with_conns s
      (app s.s_conns
        ((new_conn script (if s.s_lis then HPending else HRefused)) :: [])))
| LPeer c ->
  (match nth_error s.s_conns c with
   | Some k ->
     (match peer_step k with
      | Some k' -> Some (with_conns s (upd c (fun _ -> k') s.s_conns))
      | None -> None)
   | None -> None)
| LAccept c ->
  (match s.s_apc with
   | AAccept ->
     if s.s_lis
     then (match nth_error s.s_conns c with
           | Some k ->
             (match k.k_pc with
              | HPending ->
                Some { s_conns = (upd c (set_pc HAccepted) s.s_conns);
                  s_lis = s.s_lis; s_apc = (ACheck c); s_tconn = s.s_tconn;
                  s_tconnected = s.s_tconnected; s_writer = s.s_writer;
                  s_act = s.s_act; s_inbuf = s.s_inbuf; s_dropped =
                  s.s_dropped }
              | _ -> None)
           | None -> None)
     else None
   | _ -> None)
| LAcceptErr ->
  (match s.s_apc with
   | AAccept ->
     if s.s_lis
     then None
     else Some { s_conns = s.s_conns; s_lis = false; s_apc = ADone; s_tconn =
            s.s_tconn; s_tconnected = s.s_tconnected; s_writer = s.s_writer;
            s_act = s.s_act; s_inbuf = s.s_inbuf; s_dropped = s.s_dropped }
   | _ -> None)
| LCheck ->
  (match s.s_apc with
   | ACheck c ->
     (match s.s_tconn with
      | Some _ ->
        Some { s_conns =
          (upd c (fun k -> set_closed (set_pc HDone k)) s.s_conns); s_lis =
          false; s_apc = ADone; s_tconn = s.s_tconn; s_tconnected =
          s.s_tconnected; s_writer = s.s_writer; s_act = s.s_act; s_inbuf =
          s.s_inbuf; s_dropped = s.s_dropped }
      | None ->
        Some { s_conns = (upd c (set_pc HRead) s.s_conns); s_lis = s.s_lis;
          s_apc = AAccept; s_tconn = s.s_tconn; s_tconnected =
          s.s_tconnected; s_writer = s.s_writer; s_act = s.s_act; s_inbuf =
          s.s_inbuf; s_dropped = s.s_dropped })
   | _ -> None)
| LHandler c ->
  (match nth_error s.s_conns c with
   | Some k ->
     (match k.k_pc with
      | HRead ->
        (match k.k_rx with
         | [] ->
           if k.k_eof
           then Some (with_conns s (upd c (set_pc (HCompare None)) s.s_conns))
           else None
         | _ :: _ ->
           let n = N.to_nat tunnel_hello_read_size in
           let got = firstn n k.k_rx in
           Some
           (with_conns s
             (upd c (fun _ -> { k_script = k.k_script; k_rx =
               (skipn n k.k_rx); k_eof = k.k_eof; k_pc = (HCompare (Some
               got)); k_first = (Some got); k_tx = k.k_tx; k_closed =
               k.k_closed; k_won = k.k_won; k_pump = k.k_pump }) s.s_conns)))
      | HCompare r ->
        (match r with
         | Some got ->
           if hello_matches got ch
           then Some (with_conns s (upd c (set_pc HReply) s.s_conns))
           else Some
                  (with_conns s
                    (upd c (fun k0 -> set_closed (set_pc HDone k0)) s.s_conns))
         | None ->
           Some
             (with_conns s
               (upd c (fun k0 -> set_closed (set_pc HDone k0)) s.s_conns)))
      | HReply ->
        Some
          (with_conns s
            (upd c (fun _ -> { k_script = k.k_script; k_rx = k.k_rx; k_eof =
              k.k_eof; k_pc = HCas; k_first = k.k_first; k_tx =
              (app k.k_tx sh); k_closed = k.k_closed; k_won = k.k_won;
              k_pump = k.k_pump }) s.s_conns))
      | HCas ->
        (match s.s_tconn with
         | Some _ -> Some (with_conns s (upd c (set_pc HDone) s.s_conns))
         | None ->
           Some { s_conns =
             (upd c (fun _ -> { k_script = k.k_script; k_rx = k.k_rx; k_eof =
               k.k_eof; k_pc = HPumpStart; k_first = k.k_first; k_tx =
               k.k_tx; k_closed = k.k_closed; k_won = true; k_pump =
               k.k_pump }) s.s_conns); s_lis = s.s_lis; s_apc = s.s_apc;
             s_tconn = (Some c); s_tconnected = s.s_tconnected; s_writer =
             s.s_writer; s_act = s.s_act; s_inbuf = s.s_inbuf; s_dropped =
             s.s_dropped })
      | HPumpStart ->
        Some
          (with_conns s
            (upd c (fun _ -> { k_script = k.k_script; k_rx = k.k_rx; k_eof =
              k.k_eof; k_pc = HCloseListener; k_first = k.k_first; k_tx =
              k.k_tx; k_closed = k.k_closed; k_won = k.k_won; k_pump =
              true }) s.s_conns))
      | HCloseListener ->
        Some { s_conns = (upd c (set_pc HDone) s.s_conns); s_lis = false;
          s_apc = s.s_apc; s_tconn = s.s_tconn; s_tconnected =
          s.s_tconnected; s_writer = s.s_writer; s_act = s.s_act; s_inbuf =
          s.s_inbuf; s_dropped = s.s_dropped }
      | _ -> None)
   | None -> None)
| LWriteFail c ->
  (match nth_error s.s_conns c with
   | Some k ->
     (match k.k_pc with
      | HReply ->
        if k.k_eof
        then Some
               (with_conns s
                 (upd c (fun k0 -> set_closed (set_pc HDone k0)) s.s_conns))
        else None
      | _ -> None)
   | None -> None)
| LPump (c, n) ->
  (match nth_error s.s_conns c with
   | Some k ->
     if (&&)
          ((&&) ((&&) ((&&) k.k_pump (negb k.k_closed)) (Nat.leb (S O) n))
            (Nat.leb n (length k.k_rx)))
          (N.leb (N.of_nat n) tunnel_pump_bufsize)
     then let (ib, dr) =
            add_received s.s_tconnected (SrcConn c) (firstn n k.k_rx)
              s.s_inbuf s.s_dropped
          in
          Some { s_conns = (upd c (set_rx (skipn n k.k_rx)) s.s_conns);
          s_lis = s.s_lis; s_apc = s.s_apc; s_tconn = s.s_tconn;
          s_tconnected = s.s_tconnected; s_writer = s.s_writer; s_act =
          s.s_act; s_inbuf = ib; s_dropped = dr }
     else None
   | None -> None)
| LInband bs ->
  let (ib, dr) =
    add_received s.s_tconnected SrcInband bs s.s_inbuf s.s_dropped
  in
  Some { s_conns = s.s_conns; s_lis = s.s_lis; s_apc = s.s_apc; s_tconn =
  s.s_tconn; s_tconnected = s.s_tconnected; s_writer = s.s_writer; s_act =
  s.s_act; s_inbuf = ib; s_dropped = dr }
| LAct tun ->
  (match s.s_act with
   | ActWaiting ->
     if tun
     then (match s.s_tconn with
           | Some c ->
             Some { s_conns = s.s_conns; s_lis = s.s_lis; s_apc = s.s_apc;
               s_tconn = s.s_tconn; s_tconnected = true; s_writer = (Some c);
               s_act = ActOk; s_inbuf = s.s_inbuf; s_dropped = s.s_dropped }
           | None ->
             Some { s_conns = s.s_conns; s_lis = s.s_lis; s_apc = s.s_apc;
               s_tconn = s.s_tconn; s_tconnected = true; s_writer =
               s.s_writer; s_act = ActErr; s_inbuf = s.s_inbuf; s_dropped =
               s.s_dropped })
     else Some { s_conns = s.s_conns; s_lis = s.s_lis; s_apc = s.s_apc;
            s_tconn = s.s_tconn; s_tconnected = s.s_tconnected; s_writer =
            s.s_writer; s_act = ActOk; s_inbuf = s.s_inbuf; s_dropped =
            s.s_dropped }
   | _ -> None)
| LCleanup ->
  (match s.s_tconn with
   | Some c -> Some (with_conns s (upd c set_closed s.s_conns))
   | None -> Some s)

type kpc =
| KCall
| KChk
| KWrite
| KRead
| KCmp of coq_N list option
| KSend
| KDone

type spc =
| SSelect
| SStore
| SPump
| SDone

type mpc =
| MWait
| MLoad
| MSent of bool

type cstate = { c_conn : conn option; c_kpc : kpc; c_chan : bool option;
                c_spc : spc; c_timer : bool; c_timedout : bool;
                c_wg_done : bool; c_mpc : mpc; c_tconn : bool;
                c_tconnected : bool; c_writer_tunnel : bool; c_pump : 
                bool; c_inbuf : (src * coq_N list) list;
                c_dropped : coq_N list list }

(** val c_init : cstate **)

let c_init =
  { c_conn = None; c_kpc = KCall; c_chan = None; c_spc = SSelect; c_timer =
    false; c_timedout = false; c_wg_done = false; c_mpc = MWait; c_tconn =
    false; c_tconnected = false; c_writer_tunnel = false; c_pump = false;
    c_inbuf = []; c_dropped = [] }

type clabel =
| CConnector of pev list option
| CK of bool * bool
| CPeer
| CTimer
| CSelChan
| CSelTimer
| CS
| CMain
| CPumpRead of nat
| CInband of coq_N list
| CCleanup

(** val cset : cstate -> conn option -> kpc -> bool option -> cstate **)

let cset s k kp ch =
  { c_conn = k; c_kpc = kp; c_chan = ch; c_spc = s.c_spc; c_timer =
    s.c_timer; c_timedout = s.c_timedout; c_wg_done = s.c_wg_done; c_mpc =
    s.c_mpc; c_tconn = s.c_tconn; c_tconnected = s.c_tconnected;
    c_writer_tunnel = s.c_writer_tunnel; c_pump = s.c_pump; c_inbuf =
    s.c_inbuf; c_dropped = s.c_dropped }

(** val cgive_up : cstate -> conn -> cstate **)

let cgive_up s k =
  cset s (Some (set_closed k)) KDone (Some false)

(** val cstep :
    coq_N list -> coq_N list -> cstate -> clabel -> cstate option **)

let cstep ch sh s = function
| CConnector o ->
  (match s.c_kpc with
   | KCall ->
     (match o with
      | Some script ->
        Some (cset s (Some (new_conn script HDone)) KChk s.c_chan)
      | None -> Some (cset s None KDone (Some false)))
   | _ -> None)
| CK (tmo, wfail) ->
  (match s.c_conn with
   | Some k ->
     (match s.c_kpc with
      | KChk ->
        if tmo
        then Some (cgive_up s k)
        else Some (cset s (Some k) KWrite s.c_chan)
      | KWrite ->
        if wfail
        then Some (cgive_up s k)
        else let k' = { k_script = k.k_script; k_rx = k.k_rx; k_eof =
               k.k_eof; k_pc = k.k_pc; k_first = k.k_first; k_tx =
               (app k.k_tx ch); k_closed = k.k_closed; k_won = k.k_won;
               k_pump = k.k_pump }
             in
             if tmo
             then Some (cgive_up s k')
             else Some (cset s (Some k') KRead s.c_chan)
      | KRead ->
        (match k.k_rx with
         | [] ->
           if k.k_eof
           then Some (cset s (Some k) (KCmp None) s.c_chan)
           else None
         | _ :: _ ->
           let n = N.to_nat tunnel_reply_read_size in
           let got = firstn n k.k_rx in
           Some
           (cset s (Some { k_script = k.k_script; k_rx = (skipn n k.k_rx);
             k_eof = k.k_eof; k_pc = k.k_pc; k_first = (Some got); k_tx =
             k.k_tx; k_closed = k.k_closed; k_won = k.k_won; k_pump =
             k.k_pump }) (KCmp (Some got)) s.c_chan))
      | KCmp r ->
        (match r with
         | Some got ->
           if (&&) (hello_matches got sh) (negb tmo)
           then Some (cset s (Some k) KSend s.c_chan)
           else Some (cgive_up s k)
         | None -> Some (cgive_up s k))
      | KSend -> Some (cset s (Some k) KDone (Some true))
      | _ -> None)
   | None -> None)
| CPeer ->
  (match s.c_conn with
   | Some k ->
     (match peer_step k with
      | Some k' -> Some (cset s (Some k') s.c_kpc s.c_chan)
      | None -> None)
   | None -> None)
| CTimer ->
  Some { c_conn = s.c_conn; c_kpc = s.c_kpc; c_chan = s.c_chan; c_spc =
    s.c_spc; c_timer = true; c_timedout = s.c_timedout; c_wg_done =
    s.c_wg_done; c_mpc = s.c_mpc; c_tconn = s.c_tconn; c_tconnected =
    s.c_tconnected; c_writer_tunnel = s.c_writer_tunnel; c_pump = s.c_pump;
    c_inbuf = s.c_inbuf; c_dropped = s.c_dropped }
| CSelChan ->
  (match s.c_spc with
   | SSelect ->
     (match s.c_chan with
      | Some v ->
        Some { c_conn = s.c_conn; c_kpc = s.c_kpc; c_chan = None; c_spc =
          (if v then SStore else SDone); c_timer = s.c_timer; c_timedout =
          s.c_timedout; c_wg_done = (if v then s.c_wg_done else true);
          c_mpc = s.c_mpc; c_tconn = s.c_tconn; c_tconnected =
          s.c_tconnected; c_writer_tunnel = s.c_writer_tunnel; c_pump =
          s.c_pump; c_inbuf = s.c_inbuf; c_dropped = s.c_dropped }
      | None -> None)
   | _ -> None)
| CSelTimer ->
  (match s.c_spc with
   | SSelect ->
     if s.c_timer
     then Some { c_conn = s.c_conn; c_kpc = s.c_kpc; c_chan = s.c_chan;
            c_spc = SDone; c_timer = s.c_timer; c_timedout = true;
            c_wg_done = true; c_mpc = s.c_mpc; c_tconn = s.c_tconn;
            c_tconnected = s.c_tconnected; c_writer_tunnel =
            s.c_writer_tunnel; c_pump = s.c_pump; c_inbuf = s.c_inbuf;
            c_dropped = s.c_dropped }
     else None
   | _ -> None)
| CS ->
  (match s.c_spc with
   | SStore ->
     Some { c_conn = s.c_conn; c_kpc = s.c_kpc; c_chan = s.c_chan; c_spc =
       SPump; c_timer = s.c_timer; c_timedout = s.c_timedout; c_wg_done =
       s.c_wg_done; c_mpc = s.c_mpc; c_tconn = true; c_tconnected =
       s.c_tconnected; c_writer_tunnel = s.c_writer_tunnel; c_pump =
       s.c_pump; c_inbuf = s.c_inbuf; c_dropped = s.c_dropped }
   | SPump ->
     Some { c_conn = s.c_conn; c_kpc = s.c_kpc; c_chan = s.c_chan; c_spc =
       SDone; c_timer = s.c_timer; c_timedout = s.c_timedout; c_wg_done =
       true; c_mpc = s.c_mpc; c_tconn = s.c_tconn; c_tconnected =
       s.c_tconnected; c_writer_tunnel = s.c_writer_tunnel; c_pump = true;
       c_inbuf = s.c_inbuf; c_dropped = s.c_dropped }
   | _ -> None)
| CMain ->
  (match s.c_mpc with
   | MWait ->
     if s.c_wg_done
     then Some { c_conn = s.c_conn; c_kpc = s.c_kpc; c_chan = s.c_chan;
            c_spc = s.c_spc; c_timer = s.c_timer; c_timedout = s.c_timedout;
            c_wg_done = s.c_wg_done; c_mpc = MLoad; c_tconn = s.c_tconn;
            c_tconnected = s.c_tconnected; c_writer_tunnel =
            s.c_writer_tunnel; c_pump = s.c_pump; c_inbuf = s.c_inbuf;
            c_dropped = s.c_dropped }
     else None
   | MLoad ->
     Some { c_conn = s.c_conn; c_kpc = s.c_kpc; c_chan = s.c_chan; c_spc =
       s.c_spc; c_timer = s.c_timer; c_timedout = s.c_timedout; c_wg_done =
       s.c_wg_done; c_mpc = (MSent s.c_tconn); c_tconn = s.c_tconn;
       c_tconnected = s.c_tconn; c_writer_tunnel = s.c_tconn; c_pump =
       s.c_pump; c_inbuf = s.c_inbuf; c_dropped = s.c_dropped }
   | MSent _ -> None)
| CPumpRead n ->
  (match s.c_conn with
   | Some k ->
     if (&&)
          ((&&) ((&&) ((&&) s.c_pump (negb k.k_closed)) (Nat.leb (S O) n))
            (Nat.leb n (length k.k_rx)))
          (N.leb (N.of_nat n) tunnel_pump_bufsize)
     then let (ib, dr) =
            add_received s.c_tconnected (SrcConn O) (firstn n k.k_rx)
              s.c_inbuf s.c_dropped
          in
          Some { c_conn = (Some (set_rx (skipn n k.k_rx) k)); c_kpc =
          s.c_kpc; c_chan = s.c_chan; c_spc = s.c_spc; c_timer = s.c_timer;
          c_timedout = s.c_timedout; c_wg_done = s.c_wg_done; c_mpc =
          s.c_mpc; c_tconn = s.c_tconn; c_tconnected = s.c_tconnected;
          c_writer_tunnel = s.c_writer_tunnel; c_pump = s.c_pump; c_inbuf =
          ib; c_dropped = dr }
     else None
   | None -> None)
| CInband bs ->
  let (ib, dr) =
    add_received s.c_tconnected SrcInband bs s.c_inbuf s.c_dropped
  in
  Some { c_conn = s.c_conn; c_kpc = s.c_kpc; c_chan = s.c_chan; c_spc =
  s.c_spc; c_timer = s.c_timer; c_timedout = s.c_timedout; c_wg_done =
  s.c_wg_done; c_mpc = s.c_mpc; c_tconn = s.c_tconn; c_tconnected =
  s.c_tconnected; c_writer_tunnel = s.c_writer_tunnel; c_pump = s.c_pump;
  c_inbuf = ib; c_dropped = dr }
| CCleanup ->
  if s.c_tconn
  then (match s.c_conn with
        | Some k -> Some (cset s (Some (set_closed k)) s.c_kpc s.c_chan)
        | None -> Some s)
  else Some s

(** val first_some : (nat -> 'a1 option) -> nat list -> 'a1 option **)

let rec first_some f = function
| [] -> None
| c :: r -> (match f c with
             | Some x -> Some x
             | None -> first_some f r)

(** val pending_idx : sstate -> nat list **)

let pending_idx s =
  filter (fun c ->
    match nth_error s.s_conns c with
    | Some k -> (match k.k_pc with
                 | HPending -> true
                 | _ -> false)
    | None -> false) (seq O (length s.s_conns))

(** val sched_once : coq_N list -> coq_N list -> sstate -> sstate option **)

let sched_once ch sh s =
  match sstep ch sh s LCheck with
  | Some s' -> Some s'
  | None ->
    (match first_some (fun c -> sstep ch sh s (LAccept c)) (pending_idx s) with
     | Some s' -> Some s'
     | None ->
       (match sstep ch sh s LAcceptErr with
        | Some s' -> Some s'
        | None ->
          first_some (fun c -> sstep ch sh s (LHandler c))
            (seq O (length s.s_conns))))

(** val settle_fuel : sstate -> nat **)

let settle_fuel s =
  add (S (S (S (S (S (S (S (S (S (S (S (S (S (S (S (S O))))))))))))))))
    (mul (S (S (S (S (S (S (S (S O)))))))) (length s.s_conns))

type cobs =
| ObsRefused
| ObsOpenSilent
| ObsClosedSilent
| ObsReplied of coq_N list * bool

(** val observe : conn -> cobs **)

let observe k =
  match k.k_pc with
  | HRefused -> ObsRefused
  | _ ->
    (match k.k_tx with
     | [] -> if k.k_closed then ObsClosedSilent else ObsOpenSilent
     | n :: l -> ObsReplied ((n :: l), k.k_closed))

type coutcome =
| CoNil
| CoConn of bool * bool * coq_N list option

(** val client_labels : coutcome -> clabel list **)

let client_labels = function
| CoNil -> (CConnector None) :: (CSelChan :: (CMain :: (CMain :: [])))
| CoConn (late, wfail, reply) ->
  if late
  then CTimer :: (CSelTimer :: (CMain :: (CMain :: [])))
  else if wfail
       then (CConnector (Some [])) :: ((CK (false, false)) :: ((CK (false,
              true)) :: (CSelChan :: (CMain :: (CMain :: [])))))
       else (match reply with
             | Some r ->
               (CConnector (Some ((PWrite r) :: []))) :: ((CK (false,
                 false)) :: ((CK (false, false)) :: (CPeer :: ((CK (false,
                 false)) :: ((CK (false, false)) :: ((CK (false,
                 false)) :: (CSelChan :: (CS :: (CS :: (CMain :: (CMain :: [])))))))))))
             | None ->
               (CConnector (Some (PClose :: []))) :: ((CK (false,
                 false)) :: ((CK (false, false)) :: (CPeer :: ((CK (false,
                 false)) :: ((CK (false,
                 false)) :: (CSelChan :: (CMain :: (CMain :: [])))))))))

(** val crun_skip :
    coq_N list -> coq_N list -> cstate -> clabel list -> cstate **)

let rec crun_skip ch sh s = function
| [] -> s
| l :: r ->
  (match cstep ch sh s l with
   | Some s' -> crun_skip ch sh s' r
   | None -> crun_skip ch sh s r)

(** val client_decides : coq_N list -> coq_Z -> coutcome -> bool option **)

let client_decides uid port o =
  match (crun_skip (client_hello uid port) (server_hello uid port) c_init
          (client_labels o)).c_mpc with
  | MSent tun -> Some tun
  | _ -> None
