open BinInt
open BinNat
open BinNums
open Bytes0
open Consts
open Datatypes
open List0

type rn_str = coq_N list

type n_action = { na_lang : rn_str; na_version : rn_str; na_confirm : 
                  bool; na_newline : rn_str; na_protocol : coq_Z;
                  na_binary : bool; na_support_dir : bool; na_tunnel : 
                  bool; na_fork : bool }

type n_wire_action = { nwa_lang : rn_str option; nwa_version : rn_str option;
                       nwa_confirm : bool option;
                       nwa_newline : rn_str option;
                       nwa_protocol : coq_Z option; nwa_binary : bool option;
                       nwa_support_dir : bool option;
                       nwa_tunnel : bool option; nwa_fork : bool option }

type n_wire_escape =
| WEscTable of (coq_N * coq_N) list
| WEscObject

type n_config = { nc_quiet : bool; nc_binary : bool; nc_directory : bool;
                  nc_overwrite : bool; nc_timeout : coq_Z;
                  nc_newline : rn_str; nc_protocol : coq_Z;
                  nc_bufsize : coq_Z;
                  nc_escape : (coq_N * coq_N) list option;
                  nc_pane_width : coq_Z; nc_junk : bool; nc_compress : 
                  coq_Z; nc_fork : bool }

type n_wire_config = { nwc_quiet : bool option; nwc_binary : bool option;
                       nwc_directory : bool option;
                       nwc_overwrite : bool option;
                       nwc_timeout : coq_Z option;
                       nwc_newline : rn_str option;
                       nwc_protocol : coq_Z option;
                       nwc_bufsize : coq_Z option;
                       nwc_escape : n_wire_escape option;
                       nwc_pane_width : coq_Z option; nwc_junk : bool option;
                       nwc_compress : coq_Z option; nwc_fork : bool option }

(** val rn_dflt : 'a1 option -> 'a1 -> 'a1 **)

let rn_dflt o d =
  match o with
  | Some x -> x
  | None -> d

(** val decode_action_into : n_action -> n_wire_action -> n_action **)

let decode_action_into a w =
  { na_lang = (rn_dflt w.nwa_lang a.na_lang); na_version =
    (rn_dflt w.nwa_version a.na_version); na_confirm =
    (rn_dflt w.nwa_confirm a.na_confirm); na_newline =
    (rn_dflt w.nwa_newline a.na_newline); na_protocol =
    (rn_dflt w.nwa_protocol a.na_protocol); na_binary =
    (rn_dflt w.nwa_binary a.na_binary); na_support_dir =
    (rn_dflt w.nwa_support_dir a.na_support_dir); na_tunnel =
    (rn_dflt w.nwa_tunnel a.na_tunnel); na_fork =
    (rn_dflt w.nwa_fork a.na_fork) }

(** val encode_action : n_action -> n_wire_action **)

let encode_action a =
  { nwa_lang = (Some a.na_lang); nwa_version = (Some a.na_version);
    nwa_confirm = (Some a.na_confirm); nwa_newline = (Some a.na_newline);
    nwa_protocol = (Some a.na_protocol); nwa_binary = (Some a.na_binary);
    nwa_support_dir = (Some a.na_support_dir); nwa_tunnel = (Some
    a.na_tunnel); nwa_fork = (Some a.na_fork) }

(** val decode_config_into : n_config -> n_wire_config -> n_config option **)

let decode_config_into c w =
  match w.nwc_escape with
  | Some n ->
    (match n with
     | WEscTable t ->
       let esc = Some t in
       Some { nc_quiet = (rn_dflt w.nwc_quiet c.nc_quiet); nc_binary =
       (rn_dflt w.nwc_binary c.nc_binary); nc_directory =
       (rn_dflt w.nwc_directory c.nc_directory); nc_overwrite =
       (rn_dflt w.nwc_overwrite c.nc_overwrite); nc_timeout =
       (rn_dflt w.nwc_timeout c.nc_timeout); nc_newline =
       (rn_dflt w.nwc_newline c.nc_newline); nc_protocol =
       (rn_dflt w.nwc_protocol c.nc_protocol); nc_bufsize =
       (rn_dflt w.nwc_bufsize c.nc_bufsize); nc_escape = esc; nc_pane_width =
       (rn_dflt w.nwc_pane_width c.nc_pane_width); nc_junk =
       (rn_dflt w.nwc_junk c.nc_junk); nc_compress =
       (rn_dflt w.nwc_compress c.nc_compress); nc_fork =
       (rn_dflt w.nwc_fork c.nc_fork) }
     | WEscObject -> None)
  | None ->
    let esc = c.nc_escape in
    Some { nc_quiet = (rn_dflt w.nwc_quiet c.nc_quiet); nc_binary =
    (rn_dflt w.nwc_binary c.nc_binary); nc_directory =
    (rn_dflt w.nwc_directory c.nc_directory); nc_overwrite =
    (rn_dflt w.nwc_overwrite c.nc_overwrite); nc_timeout =
    (rn_dflt w.nwc_timeout c.nc_timeout); nc_newline =
    (rn_dflt w.nwc_newline c.nc_newline); nc_protocol =
    (rn_dflt w.nwc_protocol c.nc_protocol); nc_bufsize =
    (rn_dflt w.nwc_bufsize c.nc_bufsize); nc_escape = esc; nc_pane_width =
    (rn_dflt w.nwc_pane_width c.nc_pane_width); nc_junk =
    (rn_dflt w.nwc_junk c.nc_junk); nc_compress =
    (rn_dflt w.nwc_compress c.nc_compress); nc_fork =
    (rn_dflt w.nwc_fork c.nc_fork) }

(** val marshal_escape :
    (coq_N * coq_N) list option -> n_wire_escape option **)

let marshal_escape = function
| Some t ->
  if relayneg_escape_table_has_marshaler
  then Some (WEscTable t)
  else Some WEscObject
| None -> None

(** val encode_config : n_config -> n_wire_config **)

let encode_config c =
  { nwc_quiet = (Some c.nc_quiet); nwc_binary = (Some c.nc_binary);
    nwc_directory = (Some c.nc_directory); nwc_overwrite = (Some
    c.nc_overwrite); nwc_timeout = (Some c.nc_timeout); nwc_newline = (Some
    c.nc_newline); nwc_protocol = (Some c.nc_protocol); nwc_bufsize = (Some
    c.nc_bufsize); nwc_escape = (marshal_escape c.nc_escape);
    nwc_pane_width = (Some c.nc_pane_width); nwc_junk = (Some c.nc_junk);
    nwc_compress = (Some c.nc_compress); nwc_fork = (Some c.nc_fork) }

(** val action_zero : rn_str -> bool -> n_action **)

let action_zero nl bin =
  { na_lang = []; na_version = []; na_confirm = false; na_newline = nl;
    na_protocol = Z0; na_binary = bin; na_support_dir = false; na_tunnel =
    false; na_fork = false }

(** val relay_action_init : n_action **)

let relay_action_init =
  action_zero relayneg_relay_act_newline relayneg_relay_act_binary

(** val server_action_init : n_action **)

let server_action_init =
  action_zero relayneg_server_act_newline relayneg_server_act_binary

(** val config_zero : coq_Z -> rn_str -> coq_Z -> n_config **)

let config_zero timeout nl bufsize =
  { nc_quiet = false; nc_binary = false; nc_directory = false; nc_overwrite =
    false; nc_timeout = timeout; nc_newline = nl; nc_protocol = Z0;
    nc_bufsize = bufsize; nc_escape = None; nc_pane_width = Z0; nc_junk =
    false; nc_compress = Z0; nc_fork = false }

type rn_env = { ne_tmux_mode : coq_N; ne_pane_width : coq_Z;
                ne_win_server : bool }

(** val relay_config_init : rn_env -> bool -> n_config **)

let relay_config_init e tunnel =
  config_zero relayneg_relay_cfg_timeout
    (if (&&) e.ne_win_server (negb tunnel)
     then relayneg_relay_cfg_win_newline
     else relayneg_relay_cfg_newline) relayneg_relay_cfg_bufsize

(** val rewrite_action : n_action -> n_action **)

let rewrite_action a =
  let bin = if negb a.na_tunnel then false else a.na_binary in
  let proto =
    if Z.gtb a.na_protocol relayneg_protocol_version
    then relayneg_protocol_version
    else a.na_protocol
  in
  { na_lang = a.na_lang; na_version = a.na_version; na_confirm =
  a.na_confirm; na_newline = a.na_newline; na_protocol = proto; na_binary =
  bin; na_support_dir = a.na_support_dir; na_tunnel = a.na_tunnel; na_fork =
  a.na_fork }

(** val rewrite_config : rn_env -> n_config -> n_config **)

let rewrite_config e c =
  let junk =
    if N.eqb e.ne_tmux_mode relayneg_tmux_normal_mode then true else c.nc_junk
  in
  let width =
    if (&&) (Z.leb c.nc_pane_width Z0) (Z.gtb e.ne_pane_width Z0)
    then e.ne_pane_width
    else c.nc_pane_width
  in
  { nc_quiet = c.nc_quiet; nc_binary = c.nc_binary; nc_directory =
  c.nc_directory; nc_overwrite = c.nc_overwrite; nc_timeout = c.nc_timeout;
  nc_newline = c.nc_newline; nc_protocol = c.nc_protocol; nc_bufsize =
  c.nc_bufsize; nc_escape = c.nc_escape; nc_pane_width = width; nc_junk =
  junk; nc_compress = c.nc_compress; nc_fork = c.nc_fork }

(** val relay_action : n_wire_action -> n_wire_action **)

let relay_action w =
  encode_action (rewrite_action (decode_action_into relay_action_init w))

(** val relay_config :
    rn_env -> bool -> n_wire_config -> n_wire_config option **)

let relay_config e tunnel w =
  match decode_config_into (relay_config_init e tunnel) w with
  | Some c -> Some (encode_config (rewrite_config e c))
  | None -> None

type rn_status =
| NStandby
| NHandshaking
| NTransferring

(** val rn_status_code : rn_status -> coq_N **)

let rn_status_code = function
| NStandby -> relayneg_relay_stand_by
| NHandshaking -> relayneg_relay_handshaking
| NTransferring -> relayneg_relay_transferring

type rn_hs_result =
| HsBadAction
| HsRefused of n_wire_action
| HsBadConfig of n_wire_action
| HsDone of n_wire_action * n_wire_config

(** val rn_handshake :
    rn_env -> n_wire_action option -> n_wire_config option -> rn_hs_result **)

let rn_handshake e act cfg =
  match act with
  | Some wa ->
    let a = rewrite_action (decode_action_into relay_action_init wa) in
    if negb a.na_confirm
    then HsRefused (encode_action a)
    else (match cfg with
          | Some wc ->
            (match relay_config e a.na_tunnel wc with
             | Some wc' -> HsDone ((encode_action a), wc')
             | None -> HsBadConfig (encode_action a))
          | None -> HsBadConfig (encode_action a))
  | None -> HsBadAction

(** val hs_confirmed : rn_hs_result -> bool **)

let hs_confirmed = function
| HsDone (_, _) -> true
| _ -> false

(** val status_after_handshake : rn_hs_result -> rn_status **)

let status_after_handshake r =
  if hs_confirmed r then NTransferring else NStandby

type rn_read =
| RdOk
| RdGarbled
| RdBlocked

(** val rn_read_line : bool -> bool -> rn_read **)

let rn_read_line reader_win framed_win =
  if reader_win
  then if framed_win then RdOk else RdBlocked
  else if framed_win then RdGarbled else RdOk

type 'a rn_line = { ln_win : bool; ln_body : 'a option }

type rn_out_msg =
| OAct of n_wire_action
| OCfg of n_wire_config
| OFail

type rn_hs2 = { h2_to_server : (rn_out_msg * rn_str) list;
                h2_to_client : (rn_out_msg * rn_str) list;
                h2_status : rn_status; h2_cli_win : bool }

(** val rn_nl_to_client : rn_env -> bool -> bool -> rn_str **)

let rn_nl_to_client e cli_win tunnel =
  if (&&) ((||) cli_win e.ne_win_server) (negb tunnel)
  then relayneg_to_client_win_nl
  else relayneg_to_client_nl

(** val rn_nl_to_server : rn_env -> bool -> bool -> rn_str **)

let rn_nl_to_server e tunnel is_act =
  if (&&) e.ne_win_server ((||) (negb tunnel) is_act)
  then relayneg_to_server_win_nl
  else relayneg_to_server_nl

(** val rn_reader_from_client : rn_env -> bool -> bool **)

let rn_reader_from_client e tunnel =
  (&&) e.ne_win_server (negb tunnel)

(** val rn_reader_from_server : rn_env -> bool -> bool -> bool **)

let rn_reader_from_server e cli_win tunnel =
  (&&) ((||) cli_win e.ne_win_server) (negb tunnel)

(** val rn_hs2_fail :
    rn_env -> bool -> bool -> (rn_out_msg * rn_str) list -> rn_hs2 **)

let rn_hs2_fail e cli_win tunnel sent =
  { h2_to_server =
    (app sent ((OFail, (rn_nl_to_server e tunnel false)) :: []));
    h2_to_client = ((OFail, (rn_nl_to_client e cli_win tunnel)) :: []);
    h2_status = NStandby; h2_cli_win = cli_win }

(** val rn_handshake2 :
    rn_env -> bool -> n_wire_action rn_line -> n_wire_config rn_line option
    -> rn_hs2 **)

let rn_handshake2 e cli_win0 act cfg =
  match rn_read_line (rn_reader_from_client e false) act.ln_win with
  | RdOk ->
    (match act.ln_body with
     | Some wa ->
       let a = rewrite_action (decode_action_into relay_action_init wa) in
       let tun = a.na_tunnel in
       let cw = list_eqb a.na_newline relayneg_client_win_newline in
       let sent = ((OAct (encode_action a)),
         (rn_nl_to_server e tun true)) :: []
       in
       if negb a.na_confirm
       then { h2_to_server = sent; h2_to_client = []; h2_status = NStandby;
              h2_cli_win = cw }
       else (match cfg with
             | Some cl ->
               (match rn_read_line (rn_reader_from_server e cw tun) cl.ln_win with
                | RdOk ->
                  (match cl.ln_body with
                   | Some wc ->
                     (match relay_config e tun wc with
                      | Some wc' ->
                        { h2_to_server = sent; h2_to_client = (((OCfg wc'),
                          (rn_nl_to_client e cw tun)) :: []); h2_status =
                          NTransferring; h2_cli_win = cw }
                      | None -> rn_hs2_fail e cw tun sent)
                   | None -> rn_hs2_fail e cw tun sent)
                | RdGarbled -> rn_hs2_fail e cw tun sent
                | RdBlocked ->
                  { h2_to_server = sent; h2_to_client = []; h2_status =
                    NHandshaking; h2_cli_win = cw })
             | None ->
               { h2_to_server = sent; h2_to_client = []; h2_status =
                 NHandshaking; h2_cli_win = cw })
     | None -> rn_hs2_fail e cli_win0 false [])
  | RdGarbled -> rn_hs2_fail e cli_win0 false []
  | RdBlocked ->
    { h2_to_server = []; h2_to_client = []; h2_status = NHandshaking;
      h2_cli_win = cli_win0 }

(** val rn_has_marker : coq_N list list -> coq_N list -> bool **)

let rn_has_marker ms c =
  existsb (fun m -> contains m c) ms

(** val rn_end_in : coq_N list -> bool **)

let rn_end_in c =
  (||)
    ((&&) (N.eqb (N.of_nat (length c)) relayneg_ctrl_c_len)
      (match c with
       | [] -> false
       | b :: _ -> N.eqb b relayneg_ctrl_c))
    (rn_has_marker relayneg_markers_in c)

(** val rn_end_out : coq_N list -> bool **)

let rn_end_out c =
  rn_has_marker relayneg_markers_out c

type rn_event =
| NIn of coq_N list
| NOut of coq_N list * bool
| NHsEnd of bool

type rn_fwd =
| FParked
| FRaw
| FRewritten
| FNone

(** val rn_step : rn_status -> rn_event -> rn_status * rn_fwd **)

let rn_step s = function
| NIn c ->
  (match s with
   | NStandby -> (NStandby, FRaw)
   | NHandshaking -> (NHandshaking, FParked)
   | NTransferring ->
     ((if rn_end_in c then NStandby else NTransferring), FRaw))
| NOut (c, det) ->
  (match s with
   | NStandby -> if det then (NHandshaking, FRewritten) else (NStandby, FRaw)
   | NHandshaking -> (NHandshaking, FParked)
   | NTransferring ->
     ((if rn_end_out c then NStandby else NTransferring), FRaw))
| NHsEnd confirm ->
  (match s with
   | NHandshaking -> ((if confirm then NTransferring else NStandby), FNone)
   | _ -> (s, FNone))

(** val rn_run :
    rn_status -> rn_event list -> rn_status * (rn_status * rn_fwd) list **)

let rec rn_run s = function
| [] -> (s, [])
| ev :: rest ->
  let (s1, f) = rn_step s ev in
  let (s2, tr) = rn_run s1 rest in (s2, ((s1, f) :: tr))

type rt_state = rn_status * bool

type rt_event =
| TMain of rn_event
| THsAct of bool
| TTunIn of coq_N list
| TTunOut of coq_N list

(** val rn_status_eqb : rn_status -> rn_status -> bool **)

let rn_status_eqb a b =
  match a with
  | NStandby -> (match b with
                 | NStandby -> true
                 | _ -> false)
  | NHandshaking -> (match b with
                     | NHandshaking -> true
                     | _ -> false)
  | NTransferring -> (match b with
                      | NTransferring -> true
                      | _ -> false)

(** val rt_reset : rn_status -> rt_state -> rt_state **)

let rt_reset from st =
  if rn_status_eqb (fst st) from
  then (NStandby,
         (if relayneg_reset_clears_tunnel_flag then false else snd st))
  else st

(** val rn_end_tun_in : coq_N list -> bool **)

let rn_end_tun_in c =
  rn_has_marker relayneg_markers_tunnel_in c

(** val rn_end_tun_out : coq_N list -> bool **)

let rn_end_tun_out c =
  rn_has_marker relayneg_markers_tunnel_out c

(** val rt_step : rt_state -> rt_event -> rt_state * rn_fwd **)

let rt_step st ev =
  let (s, fl) = st in
  (match ev with
   | TMain ev0 ->
     (match ev0 with
      | NIn c ->
        (match s with
         | NStandby -> (st, FRaw)
         | NHandshaking -> if fl then (st, FRaw) else (st, FParked)
         | NTransferring ->
           ((if rn_end_in c then rt_reset NTransferring st else st), FRaw))
      | NOut (c, det) ->
        (match s with
         | NStandby ->
           if det then ((NHandshaking, fl), FRewritten) else (st, FRaw)
         | NHandshaking ->
           if fl
           then (st, (if det then FRewritten else FRaw))
           else (st, FParked)
         | NTransferring ->
           ((if rn_end_out c then rt_reset NTransferring st else st), FRaw))
      | NHsEnd confirm ->
        (match s with
         | NHandshaking ->
           ((if confirm then (NTransferring, fl) else rt_reset NHandshaking st),
             FNone)
         | _ -> (st, FNone)))
   | THsAct tunnel ->
     (match s with
      | NHandshaking ->
        ((NHandshaking,
          (if relayneg_handshake_sets_tunnel_flag then tunnel else fl)),
          FNone)
      | _ -> (st, FNone))
   | TTunIn c ->
     (match s with
      | NStandby -> (st, FRaw)
      | NHandshaking -> (st, FParked)
      | NTransferring ->
        ((if rn_end_tun_in c then rt_reset NTransferring st else st), FRaw))
   | TTunOut c ->
     (match s with
      | NStandby -> (st, FRaw)
      | NHandshaking -> (st, FParked)
      | NTransferring ->
        ((if rn_end_tun_out c then rt_reset NTransferring st else st), FRaw)))

(** val rt_run :
    rt_state -> rt_event list -> rt_state * (rt_state * rn_fwd) list **)

let rec rt_run st = function
| [] -> (st, [])
| ev :: rest ->
  let (s1, f) = rt_step st ev in
  let (s2, tr) = rt_run s1 rest in (s2, ((s1, f) :: tr))

type rn_server_args = { ns_quiet : bool; ns_overwrite : bool;
                        ns_binary : bool; ns_directory : bool;
                        ns_fork : bool; ns_bufsize : coq_Z;
                        ns_timeout : coq_Z; ns_compress : coq_Z;
                        ns_escape : (coq_N * coq_N) list;
                        ns_tmux_mode : coq_N; ns_pane_width : coq_Z }

type rn_server_result =
| SrvCancelled
| SrvNoFork
| SrvNoDirectory
| SrvConfig of n_wire_config

(** val rn_server_config : rn_server_args -> n_action -> rn_server_result **)

let rn_server_config g a =
  if negb a.na_confirm
  then SrvCancelled
  else let bin = (&&) g.ns_binary a.na_binary in
       if (&&) g.ns_fork (negb a.na_fork)
       then SrvNoFork
       else if (&&) g.ns_directory (negb a.na_support_dir)
            then SrvNoDirectory
            else let some_true = fun b -> if b then Some true else None in
                 SrvConfig { nwc_quiet =
                 (some_true ((||) g.ns_quiet ((&&) a.na_tunnel g.ns_fork)));
                 nwc_binary = (some_true ((||) a.na_tunnel bin));
                 nwc_directory = (some_true g.ns_directory); nwc_overwrite =
                 (some_true g.ns_overwrite); nwc_timeout = (Some
                 g.ns_timeout); nwc_newline = None; nwc_protocol =
                 (if Z.gtb a.na_protocol Z0
                  then Some (Z.min a.na_protocol relayneg_protocol_version)
                  else None); nwc_bufsize = (Some g.ns_bufsize); nwc_escape =
                 (if (&&) (negb a.na_tunnel) bin
                  then Some (WEscTable g.ns_escape)
                  else None); nwc_pane_width =
                 (if Z.gtb g.ns_pane_width Z0
                  then Some g.ns_pane_width
                  else None); nwc_junk =
                 (some_true (N.eqb g.ns_tmux_mode relayneg_tmux_normal_mode));
                 nwc_compress =
                 (if Z.eqb g.ns_compress Z0 then None else Some g.ns_compress);
                 nwc_fork = (some_true ((&&) a.na_tunnel g.ns_fork)) }

(** val server_own_init : n_action -> n_config **)

let server_own_init a =
  config_zero relayneg_client_cfg_timeout a.na_newline
    relayneg_client_cfg_bufsize

(** val rn_client_init : bool -> bool -> n_config **)

let rn_client_init remote_is_windows tunnel =
  config_zero relayneg_client_cfg_timeout
    (if (&&) remote_is_windows (negb tunnel)
     then relayneg_client_win_newline
     else relayneg_client_cfg_newline) relayneg_client_cfg_bufsize

(** val relays_action : nat -> n_wire_action -> n_wire_action **)

let rec relays_action k w =
  match k with
  | O -> w
  | S k' -> relays_action k' (relay_action w)

(** val relays_config :
    rn_env list -> bool -> n_wire_config -> n_wire_config option **)

let rec relays_config es tunnel w =
  match es with
  | [] -> Some w
  | e :: rest ->
    (match relays_config rest tunnel w with
     | Some w' -> relay_config e tunnel w'
     | None -> None)

type rn_outcome =
| OutRefused of rn_server_result
| OutRelayFailed of n_config option
| OutClientFailed of n_config option
| OutAgreed of n_config * n_config

(** val negotiate :
    rn_server_args -> bool -> rn_env list -> n_wire_action -> rn_outcome **)

let negotiate g win es wa =
  let wa' = relays_action (length es) wa in
  let a = decode_action_into server_action_init wa' in
  (match rn_server_config g a with
   | SrvConfig wc ->
     let own = decode_config_into (server_own_init a) wc in
     (match relays_config es a.na_tunnel wc with
      | Some wc' ->
        (match own with
         | Some so ->
           (match decode_config_into (rn_client_init win a.na_tunnel) wc' with
            | Some cc -> OutAgreed (so, cc)
            | None -> OutClientFailed own)
         | None -> OutClientFailed own)
      | None -> OutRelayFailed own)
   | x -> OutRefused x)
