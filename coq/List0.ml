open Datatypes
open Nat0

(** val hd : 'a1 -> 'a1 list -> 'a1 **)

let hd default = function
| [] -> default
| x :: _ -> x

(** val tl : 'a1 list -> 'a1 list **)

let tl = function
| [] -> []
| _ :: m -> m

(** val nth : nat -> 'a1 list -> 'a1 -> 'a1 **)

let rec nth n l default =
  match n with
  | O -> (match l with
          | [] -> default
          | x :: _ -> x)
  | S m -> (match l with
            | [] -> default
            | _ :: t -> nth m t default)

(** val nth_error : 'a1 list -> nat -> 'a1 option **)

let rec nth_error l = function
| O -> (match l with
        | [] -> None
        | x :: _ -> Some x)
| S n0 -> (match l with
           | [] -> None
           | _ :: l0 -> nth_error l0 n0)

(** val last : 'a1 list -> 'a1 -> 'a1 **)

let rec last l d =
  match l with
  | [] -> d
  | a :: l0 -> (match l0 with
                | [] -> a
                | _ :: _ -> last l0 d)

(** val removelast : 'a1 list -> 'a1 list **)

let rec removelast = function
| [] -> []
| a :: l0 -> (match l0 with
              | [] -> []
              | _ :: _ -> a :: (removelast l0))

(** val rev : 'a1 list -> 'a1 list **)

let rec rev = function
| [] -> []
| x :: l' -> app (rev l') (x :: [])

(** val concat : 'a1 list list -> 'a1 list **)

let rec concat = function
| [] -> []
| x :: l0 -> app x (concat l0)

(** val map : ('a1 -> 'a2) -> 'a1 list -> 'a2 list **)

let rec map f = function
| [] -> []
| a :: t -> (f a) :: (map f t)

(** val flat_map : ('a1 -> 'a2 list) -> 'a1 list -> 'a2 list **)

let rec flat_map f = function
| [] -> []
| x :: t -> app (f x) (flat_map f t)

(** val fold_left : ('a1 -> 'a2 -> 'a1) -> 'a2 list -> 'a1 -> 'a1 **)

let rec fold_left f l a0 =
  match l with
  | [] -> a0
  | b :: t -> fold_left f t (f a0 b)

(** val fold_right : ('a2 -> 'a1 -> 'a1) -> 'a1 -> 'a2 list -> 'a1 **)

let rec fold_right f a0 = function
| [] -> a0
| b :: t -> f b (fold_right f a0 t)

(** val existsb : ('a1 -> bool) -> 'a1 list -> bool **)

let rec existsb f = function
| [] -> false
| a :: l0 -> (||) (f a) (existsb f l0)

(** val forallb : ('a1 -> bool) -> 'a1 list -> bool **)

let rec forallb f = function
| [] -> true
| a :: l0 -> (&&) (f a) (forallb f l0)

(** val filter : ('a1 -> bool) -> 'a1 list -> 'a1 list **)

let rec filter f = function
| [] -> []
| x :: l0 -> if f x then x :: (filter f l0) else filter f l0

(** val firstn : nat -> 'a1 list -> 'a1 list **)

let rec firstn n l =
  match n with
  | O -> []
  | S n0 -> (match l with
             | [] -> []
             | a :: l0 -> a :: (firstn n0 l0))

(** val skipn : nat -> 'a1 list -> 'a1 list **)

let rec skipn n l =
  match n with
  | O -> l
  | S n0 -> (match l with
             | [] -> []
             | _ :: l0 -> skipn n0 l0)

(** val seq : nat -> nat -> nat list **)

let rec seq start = function
| O -> []
| S len0 -> start :: (seq (S start) len0)

(** val repeat : 'a1 -> nat -> 'a1 list **)

let rec repeat x = function
| O -> []
| S k -> x :: (repeat x k)

(** val list_sum : nat list -> nat **)

let list_sum l =
  fold_right add O l
