open BinInt
open BinNums
open Bytes0
open Datatypes
open Fs
open List0
open Names
open Path
open Protocol
open Resume
open Transfer
open Wire

(** val ft_feed :
    (byte list -> 'a1) -> ('a1 -> 'a1 -> bool) -> (byte list -> byte list
    option) -> (byte list -> byte list option) -> (byte list -> digest) ->
    (byte list -> (src * coq_Z) option) -> tr_cfg -> path -> tr_rstate -> 'a1
    tr_msg list -> tr_rstate * 'a1 tr_msg list **)

let rec ft_feed h deq zdecomp unzl hx aparse c dest st = function
| [] -> (st, [])
| m :: r ->
  let (st1, outs) = tr_receiver h deq zdecomp unzl hx aparse c dest st m in
  let (st2, outs2) = ft_feed h deq zdecomp unzl hx aparse c dest st1 r in
  (st2, (app outs outs2))

(** val ft_line : 'a1 tr_msg -> 'a1 line **)

let ft_line = function
| TrData f -> LData f
| TrMd5 d -> LMd5 d
| TrKeepAlive -> LKeep
| _ -> LOther

(** val ft_decode :
    (byte list -> byte list option) -> tr_cfg -> bool -> byte list list ->
    byte list option **)

let ft_decode zdecomp c cp fs0 =
  wire_decode zdecomp c.tc_binary cp c.tc_table fs0 [] tr_rdflt

(** val ft_decode1 :
    (byte list -> byte list option) -> tr_cfg -> byte list -> byte list option **)

let ft_decode1 unzl c pl =
  wire_v1_decode unzl c.tc_binary c.tc_table pl

type 'digest ft_ghost = { fg_size : coq_N; fg_cp : bool;
                          fg_msgs : 'digest tr_msg list }

(** val ft_ghost0 : 'a1 ft_ghost **)

let ft_ghost0 =
  { fg_size = N0; fg_cp = false; fg_msgs = [] }

(** val ft_ghost_step :
    tr_cfg -> tr_rstate -> 'a1 tr_msg -> 'a1 ft_ghost -> 'a1 ft_ghost **)

let ft_ghost_step c st m g =
  match st.rs_phase with
  | RpSize _ ->
    (match m with
     | TrSize n ->
       { fg_size = n; fg_cp = (snd (tr_is_compress_fixed c n)); fg_msgs = [] }
     | _ ->
       { fg_size = g.fg_size; fg_cp = g.fg_cp; fg_msgs =
         (app g.fg_msgs (m :: [])) })
  | RpComp (_, _) ->
    (match m with
     | TrComp b -> { fg_size = g.fg_size; fg_cp = b; fg_msgs = [] }
     | _ ->
       { fg_size = g.fg_size; fg_cp = g.fg_cp; fg_msgs =
         (app g.fg_msgs (m :: [])) })
  | _ ->
    { fg_size = g.fg_size; fg_cp = g.fg_cp; fg_msgs =
      (app g.fg_msgs (m :: [])) }

type 'digest ft_saved = { fv_payload : tr_npayload; fv_size : coq_N;
                          fv_cp : bool; fv_msgs : 'digest tr_msg list;
                          fv_content : byte list; fv_md5 : 'digest;
                          fv_before : tr_rstate; fv_after : tr_rstate }

(** val ft_is_digest : 'a1 tr_msg -> bool **)

let ft_is_digest = function
| TrSuccDigest _ -> true
| _ -> false

(** val ft_run :
    (byte list -> 'a1) -> ('a1 -> 'a1 -> bool) -> (byte list -> byte list
    option) -> (byte list -> byte list option) -> (byte list -> digest) ->
    (byte list -> (src * coq_Z) option) -> tr_cfg -> path -> tr_rstate -> 'a1
    ft_ghost -> 'a1 tr_msg list -> (tr_rstate * 'a1 tr_msg list) * 'a1
    ft_saved list **)

let rec ft_run h deq zdecomp unzl hx aparse c dest st g = function
| [] -> ((st, []), [])
| m :: r ->
  let (st1, outs) = tr_receiver h deq zdecomp unzl hx aparse c dest st m in
  let g1 = ft_ghost_step c st m g in
  let sv =
    match st.rs_phase with
    | RpNum -> []
    | RpName -> []
    | RpHSize (_, _, _) -> []
    | RpHash (_, _, _, _, _) -> []
    | RpSize _ -> []
    | RpComp (_, _) -> []
    | RpData (_, _, _, _, _) -> []
    | RpV1 (_, _, _) -> []
    | RpMd5 (p, w) ->
      (match m with
       | TrNum _ -> []
       | TrName _ -> []
       | TrSize _ -> []
       | TrComp _ -> []
       | TrData _ -> []
       | TrMd5 d ->
         if existsb ft_is_digest outs
         then { fv_payload = p; fv_size = g.fg_size; fv_cp = g.fg_cp;
                fv_msgs = g1.fg_msgs; fv_content = w; fv_md5 = d; fv_before =
                st; fv_after = st1 } :: []
         else []
       | _ -> [])
    | _ -> []
  in
  let (p, svs) = ft_run h deq zdecomp unzl hx aparse c dest st1 g1 r in
  let (st2, outs2) = p in ((st2, (app outs outs2)), (app sv svs))

(** val ft_receive :
    (byte list -> 'a1) -> ('a1 -> 'a1 -> bool) -> (byte list -> byte list
    option) -> (byte list -> byte list option) -> (byte list -> digest) ->
    (byte list -> (src * coq_Z) option) -> tr_cfg -> path -> fs -> tr_sched
    list -> 'a1 tr_msg list -> (tr_rstate * 'a1 tr_msg list) * 'a1 ft_saved
    list **)

let ft_receive h deq zdecomp unzl hx aparse c dest f0 sch ms =
  ft_run h deq zdecomp unzl hx aparse c dest (tr_receiver_init f0 sch)
    ft_ghost0 ms

(** val ft_verdict :
    (byte list -> 'a1) -> ('a1 -> 'a1 -> bool) -> (byte list -> byte list
    option) -> (byte list -> byte list option) -> tr_cfg -> 'a1 ft_saved ->
    verdict **)

let ft_verdict h deq zdecomp unzl c sv =
  if tr_pipeline c
  then recv_v2 h deq (ft_decode zdecomp c sv.fv_cp) None (Z.of_N sv.fv_size)
         [] (map ft_line sv.fv_msgs)
  else recv_v1 h deq (ft_decode1 unzl c) (length sv.fv_msgs)
         (Z.of_N sv.fv_size) [] (map ft_line sv.fv_msgs)

(** val ft_leaf : tr_cfg -> path -> 'a1 ft_saved -> path option **)

let ft_leaf c dest sv =
  let (r, _) = tr_create c dest sv.fv_payload [] sv.fv_before.rs_st in
  (match r with
   | NOk ln -> Some (app dest (ln :: (tr_p_tail sv.fv_payload)))
   | NErr -> None)
