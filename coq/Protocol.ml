open BinInt
open BinNums
open Bytes0
open Consts
open Datatypes
open List0
open PeanoNat

type 'digest line =
| LData of byte list
| LMd5 of 'digest
| LKeep
| LOther

type verdict =
| Accept of byte list
| Reject
| Waiting

(** val md5_verdict :
    (byte list -> 'a1) -> ('a1 -> 'a1 -> bool) -> byte list -> byte list ->
    'a1 line list -> verdict **)

let md5_verdict h deq w written = function
| [] -> Waiting
| l :: _ ->
  (match l with
   | LMd5 d -> if deq d (h w) then Accept written else Reject
   | _ -> Reject)

(** val recv_v2_sched :
    (byte list -> 'a1) -> ('a1 -> 'a1 -> bool) -> (byte list list -> byte
    list option) -> nat option -> coq_Z -> byte list list -> 'a1 line list ->
    verdict **)

let rec recv_v2_sched h deq decode early size acc = function
| [] -> Waiting
| l :: rest ->
  (match l with
   | LData f ->
     (match f with
      | [] ->
        (match decode acc with
         | Some w ->
           if Z.eqb (Z.of_nat (length w)) size
           then md5_verdict h deq w w rest
           else (match early with
                 | Some k ->
                   if (&&)
                        ((&&)
                          ((&&) (Z.leb Z0 size)
                            (Z.ltb size (Z.of_nat (length w))))
                          (Z.leb size (Z.of_nat k))) (Nat.leb k (length w))
                   then md5_verdict h deq w (firstn k w) rest
                   else Reject
                 | None -> Reject)
         | None -> Reject)
      | _ :: _ ->
        recv_v2_sched h deq decode early size (app acc (f :: [])) rest)
   | LKeep -> recv_v2_sched h deq decode early size acc rest
   | _ -> Reject)

(** val recv_v2 :
    (byte list -> 'a1) -> ('a1 -> 'a1 -> bool) -> (byte list list -> byte
    list option) -> nat option -> coq_Z -> byte list list -> 'a1 line list ->
    verdict **)

let recv_v2 h deq decode early =
  recv_v2_sched h deq decode (if c02_succ_waits_saver then None else early)

(** val recv_v1 :
    (byte list -> 'a1) -> ('a1 -> 'a1 -> bool) -> (byte list -> byte list
    option) -> nat -> coq_Z -> byte list -> 'a1 line list -> verdict **)

let rec recv_v1 h deq decode1 fuel size w ls =
  if Z.ltb (Z.of_nat (length w)) size
  then (match fuel with
        | O -> Waiting
        | S f ->
          (match ls with
           | [] -> Waiting
           | l :: rest ->
             (match l with
              | LData fr ->
                (match decode1 fr with
                 | Some d -> recv_v1 h deq decode1 f size (app w d) rest
                 | None -> Reject)
              | _ -> Reject)))
  else (match ls with
        | [] -> Waiting
        | l :: _ ->
          (match l with
           | LMd5 d -> if deq d (h w) then Accept w else Reject
           | _ -> Reject))

type 'digest ack =
| AFrame of coq_Z * coq_Z
| AFinal of coq_Z
| ADigest of 'digest
| AKeep
| AOther

(** val send_final :
    ('a1 -> 'a1 -> bool) -> coq_Z -> 'a1 -> 'a1 ack list -> bool **)

let rec send_final deq size mine = function
| [] -> false
| a :: rest ->
  (match a with
   | AFinal step ->
     if Z.gtb step size
     then false
     else if Z.eqb step size
          then (match rest with
                | [] -> false
                | a0 :: _ ->
                  (match a0 with
                   | ADigest d -> deq d mine
                   | _ -> false))
          else send_final deq size mine rest
   | AKeep -> send_final deq size mine rest
   | _ -> false)

(** val send_v2 :
    ('a1 -> 'a1 -> bool) -> coq_Z -> 'a1 -> coq_Z list -> 'a1 ack list -> bool **)

let rec send_v2 deq size mine sent as_ =
  match sent with
  | [] -> send_final deq size mine as_
  | n :: sent' ->
    (match as_ with
     | [] -> false
     | a :: rest ->
       (match a with
        | AFrame (len, _) ->
          if Z.eqb len n then send_v2 deq size mine sent' rest else false
        | AKeep -> send_v2 deq size mine sent rest
        | _ -> false))

(** val send_v1 :
    ('a1 -> 'a1 -> bool) -> 'a1 -> coq_Z list -> 'a1 ack list -> bool **)

let rec send_v1 deq mine sent as_ =
  match sent with
  | [] ->
    (match as_ with
     | [] -> false
     | a :: _ -> (match a with
                  | ADigest d -> deq d mine
                  | _ -> false))
  | n :: sent' ->
    (match as_ with
     | [] -> false
     | a :: rest ->
       (match a with
        | AFinal k -> if Z.eqb k n then send_v1 deq mine sent' rest else false
        | _ -> false))

(** val md5_accept : byte list -> byte list -> bool **)

let md5_accept =
  list_eqb

(** val int_ack_accept : coq_Z -> coq_Z -> bool **)

let int_ack_accept =
  Z.eqb
