open BinNat
open BinNums
open Datatypes
open List0
open Pause
open PeanoNat

type bsph =
| BSTake
| BSSplit of coq_N * coq_N
| BSIn of bool * coq_N * coq_N * coq_N * sphase
| BSPush of bool * coq_N * coq_N * coq_N
| BSDone

type bout =
| BOKeep
| BOChunk of bool * coq_N
| BOStopErr

type bev =
| BTick
| BPauseEv
| BResumeEv
| BStopEv
| BSetBuf of coq_N
| BEnqueue of coq_N
| BClose
| BAckTake
| BNext
| BCall
| BWrite
| BPush

type bsd = { bd_pausing : bool; bd_stopped : bool; bd_queue : coq_N list;
             bd_closed : bool; bd_buf : coq_N; bd_ph : bsph; bd_cnt : 
             nat }

(** val bd_set : bsd -> coq_N list -> bsph -> nat -> bsd **)

let bd_set s q p c =
  { bd_pausing = s.bd_pausing; bd_stopped = s.bd_stopped; bd_queue = q;
    bd_closed = s.bd_closed; bd_buf = s.bd_buf; bd_ph = p; bd_cnt = c }

(** val bs_after_push : bool -> coq_N -> coq_N -> coq_N -> bsph **)

let bs_after_push whole len idx piece =
  if whole
  then BSTake
  else if N.ltb (N.add idx piece) len
       then BSSplit (len, (N.add idx piece))
       else BSTake

(** val bs_gate :
    cfg -> bsd -> bool -> coq_N -> coq_N -> coq_N -> sphase -> sev ->
    bsd * bout list **)

let bs_gate cf s whole len idx piece p e =
  let (p', ws) = sphase_step cf s.bd_pausing s.bd_stopped p e in
  let outs =
    map (fun w ->
      match w with
      | WKeep -> BOKeep
      | WFrame -> BOChunk (whole, piece)
      | WStopErr -> BOStopErr) ws
  in
  (match ws with
   | [] ->
     (match p' with
      | SIdle ->
        (match e with
         | SWrite ->
           ((bd_set s s.bd_queue (BSPush (whole, len, idx, piece)) s.bd_cnt),
             outs)
         | _ ->
           ((bd_set s s.bd_queue (BSIn (whole, len, idx, piece, p')) s.bd_cnt),
             outs))
      | _ ->
        ((bd_set s s.bd_queue (BSIn (whole, len, idx, piece, p')) s.bd_cnt),
          outs))
   | w :: l ->
     (match w with
      | WStopErr ->
        (match l with
         | [] -> ((bd_set s s.bd_queue BSDone s.bd_cnt), outs)
         | _ :: _ ->
           (match p' with
            | SIdle ->
              (match e with
               | SWrite ->
                 ((bd_set s s.bd_queue (BSPush (whole, len, idx, piece))
                    s.bd_cnt), outs)
               | _ ->
                 ((bd_set s s.bd_queue (BSIn (whole, len, idx, piece, p'))
                    s.bd_cnt), outs))
            | _ ->
              ((bd_set s s.bd_queue (BSIn (whole, len, idx, piece, p'))
                 s.bd_cnt), outs)))
      | _ ->
        (match p' with
         | SIdle ->
           (match e with
            | SWrite ->
              ((bd_set s s.bd_queue (BSPush (whole, len, idx, piece))
                 s.bd_cnt), outs)
            | _ ->
              ((bd_set s s.bd_queue (BSIn (whole, len, idx, piece, p'))
                 s.bd_cnt), outs))
         | _ ->
           ((bd_set s s.bd_queue (BSIn (whole, len, idx, piece, p')) s.bd_cnt),
             outs))))

(** val bstep : cfg -> nat -> bsd -> bev -> bsd * bout list **)

let bstep cf w s = function
| BTick ->
  (match s.bd_ph with
   | BSIn (whole, len, idx, piece, p) ->
     (match p with
      | SSleep j -> bs_gate cf s whole len idx piece (SSleep j) STick
      | _ -> (s, []))
   | _ -> (s, []))
| BPauseEv ->
  ({ bd_pausing = true; bd_stopped = s.bd_stopped; bd_queue = s.bd_queue;
    bd_closed = s.bd_closed; bd_buf = s.bd_buf; bd_ph = s.bd_ph; bd_cnt =
    s.bd_cnt }, [])
| BResumeEv ->
  ({ bd_pausing = false; bd_stopped = s.bd_stopped; bd_queue = s.bd_queue;
    bd_closed = s.bd_closed; bd_buf = s.bd_buf; bd_ph = s.bd_ph; bd_cnt =
    s.bd_cnt }, [])
| BStopEv ->
  ({ bd_pausing = s.bd_pausing; bd_stopped = true; bd_queue = s.bd_queue;
    bd_closed = s.bd_closed; bd_buf = s.bd_buf; bd_ph = s.bd_ph; bd_cnt =
    s.bd_cnt }, [])
| BSetBuf n ->
  ({ bd_pausing = s.bd_pausing; bd_stopped = s.bd_stopped; bd_queue =
    s.bd_queue; bd_closed = s.bd_closed; bd_buf = n; bd_ph = s.bd_ph;
    bd_cnt = s.bd_cnt }, [])
| BEnqueue len ->
  if s.bd_closed
  then (s, [])
  else ((bd_set s (app s.bd_queue (len :: [])) s.bd_ph s.bd_cnt), [])
| BClose ->
  ({ bd_pausing = s.bd_pausing; bd_stopped = s.bd_stopped; bd_queue =
    s.bd_queue; bd_closed = true; bd_buf = s.bd_buf; bd_ph = s.bd_ph;
    bd_cnt = s.bd_cnt }, [])
| BAckTake ->
  (match s.bd_cnt with
   | O -> (s, [])
   | S c -> ((bd_set s s.bd_queue s.bd_ph c), []))
| BNext ->
  (match s.bd_ph with
   | BSTake ->
     (match s.bd_queue with
      | [] ->
        if s.bd_closed then ((bd_set s [] BSDone s.bd_cnt), []) else (s, [])
      | len :: q ->
        if N.leb len s.bd_buf
        then ((bd_set s q (BSIn (true, len, N0, len, SIdle)) s.bd_cnt), [])
        else ((bd_set s q (BSSplit (len, N0)) s.bd_cnt), []))
   | BSSplit (len, idx) ->
     let piece = N.min s.bd_buf (N.sub len idx) in
     ((bd_set s s.bd_queue (BSIn (false, len, idx, piece, SIdle)) s.bd_cnt),
     [])
   | _ -> (s, []))
| BCall ->
  (match s.bd_ph with
   | BSIn (whole, len, idx, piece, p) ->
     (match p with
      | SIdle -> bs_gate cf s whole len idx piece SIdle SCall
      | _ -> (s, []))
   | _ -> (s, []))
| BWrite ->
  (match s.bd_ph with
   | BSIn (whole, len, idx, piece, p) ->
     (match p with
      | SPassed -> bs_gate cf s whole len idx piece SPassed SWrite
      | _ -> (s, []))
   | _ -> (s, []))
| BPush ->
  (match s.bd_ph with
   | BSPush (whole, len, idx, piece) ->
     if Nat.ltb s.bd_cnt w
     then ((bd_set s s.bd_queue (bs_after_push whole len idx piece) (S
             s.bd_cnt)), [])
     else (s, [])
   | _ -> (s, []))

(** val brun : cfg -> nat -> bsd -> bev list -> bsd * bout list **)

let rec brun cf w s = function
| [] -> (s, [])
| e :: es' ->
  let (s1, o) = bstep cf w s e in
  let (s2, os) = brun cf w s1 es' in (s2, (app o os))

(** val bs_init : coq_N -> bsd **)

let bs_init buf =
  { bd_pausing = false; bd_stopped = false; bd_queue = []; bd_closed = false;
    bd_buf = buf; bd_ph = BSTake; bd_cnt = O }
