open BinNat
open BinNums
open Consts
open Datatypes
open List0
open Nat0
open PeanoNat
open Tunnel

(** val rt_is_prefix : coq_N list -> coq_N list -> bool **)

let rec rt_is_prefix p s =
  match p with
  | [] -> true
  | a :: p' ->
    (match s with
     | [] -> false
     | b :: s' -> (&&) (N.eqb a b) (rt_is_prefix p' s'))

(** val rt_replace_all :
    coq_N list -> coq_N list -> coq_N list -> nat -> coq_N list **)

let rec rt_replace_all pat rep s skip =
  match s with
  | [] -> []
  | b :: r ->
    (match skip with
     | O ->
       if rt_is_prefix pat s
       then app rep (rt_replace_all pat rep r (sub (length pat) (S O)))
       else b :: (rt_replace_all pat rep r O)
     | S k -> rt_replace_all pat rep r k)

(** val rt_port_tag : coq_N list -> coq_Z -> coq_N list **)

let rt_port_tag uid port =
  sprintf rtunnel_rewrite_fmt ((FStr uid) :: ((FInt port) :: []))

(** val rt_rewrite :
    coq_N list -> coq_Z -> coq_Z -> coq_N list -> coq_N list **)

let rt_rewrite uid sport rport buf =
  rt_replace_all (rt_port_tag uid sport) (rt_port_tag uid rport) buf O

type rt_end = { e_script : pev list; e_rx : coq_N list; e_eof : bool;
                e_tx : coq_N list; e_closed : bool }

(** val e_tx : rt_end -> coq_N list **)

let e_tx r =
  r.e_tx

(** val e_closed : rt_end -> bool **)

let e_closed r =
  r.e_closed

(** val rt_new_end : pev list -> rt_end **)

let rt_new_end script =
  { e_script = script; e_rx = []; e_eof = false; e_tx = []; e_closed = false }

(** val rt_end_close : rt_end -> rt_end **)

let rt_end_close e =
  { e_script = e.e_script; e_rx = e.e_rx; e_eof = e.e_eof; e_tx = e.e_tx;
    e_closed = true }

(** val rt_end_write : coq_N list -> rt_end -> rt_end **)

let rt_end_write bs e =
  { e_script = e.e_script; e_rx = e.e_rx; e_eof = e.e_eof; e_tx =
    (app e.e_tx bs); e_closed = e.e_closed }

(** val rt_end_drop : nat -> rt_end -> rt_end **)

let rt_end_drop n e =
  { e_script = e.e_script; e_rx = (skipn n e.e_rx); e_eof = e.e_eof; e_tx =
    e.e_tx; e_closed = e.e_closed }

(** val rt_end_peer : rt_end -> rt_end option **)

let rt_end_peer e =
  match e.e_script with
  | [] -> None
  | p :: r ->
    (match p with
     | PWrite bs ->
       Some { e_script = r; e_rx =
         (if e.e_eof then e.e_rx else app e.e_rx bs); e_eof = e.e_eof; e_tx =
         e.e_tx; e_closed = e.e_closed }
     | PClose ->
       Some { e_script = r; e_rx = e.e_rx; e_eof = true; e_tx = e.e_tx;
         e_closed = e.e_closed })

type rt_src =
| RsCli of nat
| RsSrv of nat
| RsRelay
| RsInband of bool

type rt_dir =
| RdIn
| RdOut

type rt_pump =
| PmNone
| PmRun
| PmWait
| PmDone

type rt_half = { h_chan : (rt_src * coq_N list) list; h_chan_closed : 
                 bool; h_writer : bool; h_pump : rt_pump;
                 h_log : (rt_src * coq_N list) list }

(** val rt_new_half : rt_half **)

let rt_new_half =
  { h_chan = []; h_chan_closed = false; h_writer = true; h_pump = PmNone;
    h_log = [] }

type rt_bridge = { b_in : rt_half; b_out : rt_half; b_relay : bool }

(** val rt_half_of : rt_dir -> rt_bridge -> rt_half **)

let rt_half_of d b =
  match d with
  | RdIn -> b.b_in
  | RdOut -> b.b_out

(** val rt_set_half : rt_dir -> rt_half -> rt_bridge -> rt_bridge **)

let rt_set_half d h b =
  match d with
  | RdIn -> { b_in = h; b_out = b.b_out; b_relay = b.b_relay }
  | RdOut -> { b_in = b.b_in; b_out = h; b_relay = b.b_relay }

(** val rt_set_relay : bool -> rt_bridge -> rt_bridge **)

let rt_set_relay v b =
  { b_in = b.b_in; b_out = b.b_out; b_relay = v }

type rt_outcome =
| RoBusy
| RoNoConnector
| RoBadClient
| RoDialFailed
| RoSrvWriteFailed
| RoBadServer
| RoReplyFailed
| RoWon
| RoLost

type rt_pc =
| RtRefused
| RtPending
| RtAccepted
| RtLoadConn
| RtRead
| RtCmp of coq_N list option
| RtDial
| RtWriteSrv
| RtReadSrv
| RtCmpSrv of coq_N list option
| RtReply
| RtNew
| RtCas
| RtStoreRelay
| RtGoIn
| RtGoOut
| RtCloseLis
| RtCloseC
| RtCloseS
| RtDone of rt_outcome

type rt_pair = { p_cli : rt_end; p_srv : rt_end option; p_pc : rt_pc;
                 p_first : coq_N list option; p_sfirst : coq_N list option;
                 p_br : rt_bridge option; p_won : nat option }

(** val p_cli : rt_pair -> rt_end **)

let p_cli r =
  r.p_cli

(** val p_srv : rt_pair -> rt_end option **)

let p_srv r =
  r.p_srv

(** val p_pc : rt_pair -> rt_pc **)

let p_pc r =
  r.p_pc

(** val rt_new_pair : pev list -> rt_pc -> rt_pair **)

let rt_new_pair script pc =
  { p_cli = (rt_new_end script); p_srv = None; p_pc = pc; p_first = None;
    p_sfirst = None; p_br = None; p_won = None }

(** val rt_set_pc : rt_pc -> rt_pair -> rt_pair **)

let rt_set_pc pc p =
  { p_cli = p.p_cli; p_srv = p.p_srv; p_pc = pc; p_first = p.p_first;
    p_sfirst = p.p_sfirst; p_br = p.p_br; p_won = p.p_won }

(** val rt_set_cli : rt_end -> rt_pair -> rt_pair **)

let rt_set_cli e p =
  { p_cli = e; p_srv = p.p_srv; p_pc = p.p_pc; p_first = p.p_first;
    p_sfirst = p.p_sfirst; p_br = p.p_br; p_won = p.p_won }

(** val rt_set_srv : rt_end -> rt_pair -> rt_pair **)

let rt_set_srv e p =
  { p_cli = p.p_cli; p_srv = (Some e); p_pc = p.p_pc; p_first = p.p_first;
    p_sfirst = p.p_sfirst; p_br = p.p_br; p_won = p.p_won }

(** val rt_set_br : rt_bridge -> rt_pair -> rt_pair **)

let rt_set_br b p =
  { p_cli = p.p_cli; p_srv = p.p_srv; p_pc = p.p_pc; p_first = p.p_first;
    p_sfirst = p.p_sfirst; p_br = (Some b); p_won = p.p_won }

(** val rt_close_cli : rt_pair -> rt_pair **)

let rt_close_cli p =
  rt_set_cli (rt_end_close p.p_cli) p

(** val rt_close_srv : rt_pair -> rt_pair **)

let rt_close_srv p =
  match p.p_srv with
  | Some e -> rt_set_srv (rt_end_close e) p
  | None -> p

(** val rt_give_up : rt_outcome -> rt_pair -> rt_pair **)

let rt_give_up o p =
  rt_set_pc (RtDone o) (rt_close_srv (rt_close_cli p))

(** val rt_src_end : rt_dir -> rt_pair -> rt_end option **)

let rt_src_end d p =
  match d with
  | RdIn -> Some p.p_cli
  | RdOut -> p.p_srv

(** val rt_dst_end : rt_dir -> rt_pair -> rt_end option **)

let rt_dst_end d p =
  match d with
  | RdIn -> p.p_srv
  | RdOut -> Some p.p_cli

(** val rt_set_src_end : rt_dir -> rt_end -> rt_pair -> rt_pair **)

let rt_set_src_end d e p =
  match d with
  | RdIn -> rt_set_cli e p
  | RdOut -> rt_set_srv e p

(** val rt_set_dst_end : rt_dir -> rt_end -> rt_pair -> rt_pair **)

let rt_set_dst_end d e p =
  match d with
  | RdIn -> rt_set_srv e p
  | RdOut -> rt_set_cli e p

(** val rt_tag : rt_dir -> nat -> rt_src **)

let rt_tag d c =
  match d with
  | RdIn -> RsCli c
  | RdOut -> RsSrv c

type rt_apc =
| RaAccept
| RaCheck of nat
| RaDone

type rt_status =
| StStandby
| StHandshaking
| StTransferring

type rt_hspc =
| HsRecvAct
| HsStore of bool * bool
| HsSendAct of bool
| HsRecvCfg
| HsSendCfg
| HsErr1
| HsErr2
| HsFlushIn of bool
| HsFlushOut of bool
| HsFlushEnd of bool
| HsIdle

type rt_out = (rt_src * coq_N list) * bool

type rt_hs = { x_status : rt_status; x_pc : rt_hspc; x_lock : bool;
               x_bufin : (rt_src * coq_N list) list;
               x_bufout : (rt_src * coq_N list) list; x_outin : rt_out list;
               x_outout : rt_out list }

(** val x_status : rt_hs -> rt_status **)

let x_status r =
  r.x_status

(** val x_outin : rt_hs -> rt_out list **)

let x_outin r =
  r.x_outin

(** val x_outout : rt_hs -> rt_out list **)

let x_outout r =
  r.x_outout

(** val rt_hs_init : rt_hs **)

let rt_hs_init =
  { x_status = StHandshaking; x_pc = HsRecvAct; x_lock = false; x_bufin = [];
    x_bufout = []; x_outin = []; x_outout = [] }

(** val rt_buf : rt_dir -> rt_hs -> (rt_src * coq_N list) list **)

let rt_buf d x =
  match d with
  | RdIn -> x.x_bufin
  | RdOut -> x.x_bufout

(** val rt_set_buf :
    rt_dir -> (rt_src * coq_N list) list -> rt_hs -> rt_hs **)

let rt_set_buf d b x =
  match d with
  | RdIn ->
    { x_status = x.x_status; x_pc = x.x_pc; x_lock = x.x_lock; x_bufin = b;
      x_bufout = x.x_bufout; x_outin = x.x_outin; x_outout = x.x_outout }
  | RdOut ->
    { x_status = x.x_status; x_pc = x.x_pc; x_lock = x.x_lock; x_bufin =
      x.x_bufin; x_bufout = b; x_outin = x.x_outin; x_outout = x.x_outout }

(** val rt_add_out : rt_dir -> rt_out -> rt_hs -> rt_hs **)

let rt_add_out d o x =
  match d with
  | RdIn ->
    { x_status = x.x_status; x_pc = x.x_pc; x_lock = x.x_lock; x_bufin =
      x.x_bufin; x_bufout = x.x_bufout; x_outin = (app x.x_outin (o :: []));
      x_outout = x.x_outout }
  | RdOut ->
    { x_status = x.x_status; x_pc = x.x_pc; x_lock = x.x_lock; x_bufin =
      x.x_bufin; x_bufout = x.x_bufout; x_outin = x.x_outin; x_outout =
      (app x.x_outout (o :: [])) }

(** val rt_set_pc_lock : rt_hspc -> bool -> rt_hs -> rt_hs **)

let rt_set_pc_lock pc lk x =
  { x_status = x.x_status; x_pc = pc; x_lock = lk; x_bufin = x.x_bufin;
    x_bufout = x.x_bufout; x_outin = x.x_outin; x_outout = x.x_outout }

(** val rt_hs_finish : rt_status -> rt_hs -> rt_hs **)

let rt_hs_finish st x =
  { x_status = st; x_pc = HsIdle; x_lock = false; x_bufin = x.x_bufin;
    x_bufout = x.x_bufout; x_outin = x.x_outin; x_outout = x.x_outout }

(** val rt_set_status : rt_status -> rt_hs -> rt_hs **)

let rt_set_status st x =
  { x_status = st; x_pc = x.x_pc; x_lock = x.x_lock; x_bufin = x.x_bufin;
    x_bufout = x.x_bufout; x_outin = x.x_outin; x_outout = x.x_outout }

(** val rt_drop_bytes :
    nat -> (rt_src * coq_N list) list -> (rt_src * coq_N list) list **)

let rec rt_drop_bytes k b =
  match k with
  | O -> b
  | S _ ->
    (match b with
     | [] -> []
     | p :: r ->
       let (src, bs) = p in
       if Nat.leb (length bs) k
       then rt_drop_bytes (sub k (length bs)) r
       else (src, (skipn k bs)) :: r)

(** val rt_buf_bytes : (rt_src * coq_N list) list -> nat **)

let rt_buf_bytes b =
  length (concat (map snd b))

type rt_state = { r_pairs : rt_pair list; r_lis : bool; r_apc : rt_apc;
                  r_connector : bool; r_trelay : nat option; r_era : 
                  nat; r_tconnected : bool; r_x : rt_hs }

(** val r_pairs : rt_state -> rt_pair list **)

let r_pairs r =
  r.r_pairs

(** val r_trelay : rt_state -> nat option **)

let r_trelay r =
  r.r_trelay

(** val r_x : rt_state -> rt_hs **)

let r_x r =
  r.r_x

(** val rt_init : rt_state **)

let rt_init =
  { r_pairs = []; r_lis = true; r_apc = RaAccept; r_connector = true;
    r_trelay = None; r_era = O; r_tconnected = false; r_x = rt_hs_init }

(** val rt_with_pairs : rt_state -> rt_pair list -> rt_state **)

let rt_with_pairs s ps =
  { r_pairs = ps; r_lis = s.r_lis; r_apc = s.r_apc; r_connector =
    s.r_connector; r_trelay = s.r_trelay; r_era = s.r_era; r_tconnected =
    s.r_tconnected; r_x = s.r_x }

(** val rt_upd_pair : rt_state -> nat -> (rt_pair -> rt_pair) -> rt_state **)

let rt_upd_pair s c f =
  rt_with_pairs s (upd c f s.r_pairs)

type rt_label =
| RLConnect of pev list
| RLPeerC of nat
| RLPeerS of nat
| RLAccept of nat
| RLAcceptErr
| RLCheck
| RLHandler of nat * pev list option * bool
| RLWriter of nat * rt_dir
| RLPump of nat * rt_dir * nat
| RLPumpEof of nat * rt_dir
| RLPumpExit of nat * rt_dir
| RLPumpSpin of nat * rt_dir
| RLSetConnector of bool
| RLInband of rt_dir * coq_N list
| RLHsRead of nat * bool * bool * bool
| RLHs of coq_N list
| RLReset

(** val rt_with_x : rt_state -> rt_hs -> rt_state **)

let rt_with_x s x =
  { r_pairs = s.r_pairs; r_lis = s.r_lis; r_apc = s.r_apc; r_connector =
    s.r_connector; r_trelay = s.r_trelay; r_era = s.r_era; r_tconnected =
    s.r_tconnected; r_x = x }

(** val rt_handshaking : rt_state -> bool **)

let rt_handshaking s =
  match s.r_x.x_status with
  | StHandshaking -> true
  | _ -> false

(** val rt_half_push : (rt_src * coq_N list) -> rt_half -> rt_half **)

let rt_half_push x h =
  { h_chan = (app h.h_chan (x :: [])); h_chan_closed = h.h_chan_closed;
    h_writer = h.h_writer; h_pump = h.h_pump; h_log = h.h_log }

(** val rt_half_set_pump : rt_pump -> rt_half -> rt_half **)

let rt_half_set_pump pm h =
  { h_chan = h.h_chan; h_chan_closed = h.h_chan_closed; h_writer =
    h.h_writer; h_pump = pm; h_log = h.h_log }

(** val rt_half_close_chan : rt_half -> rt_half **)

let rt_half_close_chan h =
  { h_chan = h.h_chan; h_chan_closed = true; h_writer = h.h_writer; h_pump =
    h.h_pump; h_log = h.h_log }

(** val rt_chan_has_room : rt_half -> bool **)

let rt_chan_has_room h =
  (&&) (negb h.h_chan_closed)
    (N.ltb (N.of_nat (length h.h_chan)) rtunnel_chan_cap)

(** val rt_route :
    rt_state -> rt_dir -> (rt_src * coq_N list) -> rt_hspc -> bool ->
    rt_state option **)

let rt_route s d x pc lk =
  let x' = rt_set_pc_lock pc lk s.r_x in
  (match s.r_trelay with
   | Some c ->
     if s.r_tconnected
     then (match nth_error s.r_pairs c with
           | Some p ->
             (match p.p_br with
              | Some b ->
                if rt_chan_has_room (rt_half_of d b)
                then Some
                       (rt_with_x
                         (rt_upd_pair s c
                           (rt_set_br
                             (rt_set_half d (rt_half_push x (rt_half_of d b))
                               b))) x')
                else None
              | None -> None)
           | None -> None)
     else Some (rt_with_x s (rt_add_out d (x, s.r_tconnected) x'))
   | None -> Some (rt_with_x s (rt_add_out d (x, s.r_tconnected) x')))

(** val rt_reset : rt_state -> rt_hs -> rt_state **)

let rt_reset s x =
  let ps =
    match s.r_trelay with
    | Some c ->
      upd c (fun p ->
        match p.p_br with
        | Some b -> rt_set_br (rt_set_relay false b) p
        | None -> p) s.r_pairs
    | None -> s.r_pairs
  in
  { r_pairs = ps; r_lis = false; r_apc = s.r_apc; r_connector =
  s.r_connector; r_trelay = None; r_era = (S s.r_era); r_tconnected = false;
  r_x = x }

(** val rt_handler :
    coq_N list -> coq_N list -> coq_N list -> coq_N list -> rt_state -> nat
    -> rt_pair -> pev list option -> bool -> rt_state option **)

let rt_handler ch1 sh4 ch2 sh3 s c p dial fail =
  match p.p_pc with
  | RtLoadConn ->
    if s.r_connector
    then Some (rt_upd_pair s c (rt_set_pc RtRead))
    else Some (rt_upd_pair s c (rt_give_up RoNoConnector))
  | RtRead ->
    (match p.p_cli.e_rx with
     | [] ->
       if p.p_cli.e_eof
       then Some (rt_upd_pair s c (rt_set_pc (RtCmp None)))
       else None
     | _ :: _ ->
       let n = N.to_nat rtunnel_hello_read_size in
       let got = firstn n p.p_cli.e_rx in
       Some
       (rt_upd_pair s c (fun _ -> { p_cli = (rt_end_drop n p.p_cli); p_srv =
         p.p_srv; p_pc = (RtCmp (Some got)); p_first = (Some got); p_sfirst =
         p.p_sfirst; p_br = p.p_br; p_won = p.p_won })))
  | RtCmp r ->
    (match r with
     | Some got ->
       if hello_matches got ch1
       then Some (rt_upd_pair s c (rt_set_pc RtDial))
       else Some (rt_upd_pair s c (rt_give_up RoBadClient))
     | None -> Some (rt_upd_pair s c (rt_give_up RoBadClient)))
  | RtDial ->
    (match dial with
     | Some script ->
       Some
         (rt_upd_pair s c (fun p0 ->
           rt_set_pc RtWriteSrv (rt_set_srv (rt_new_end script) p0)))
     | None -> Some (rt_upd_pair s c (rt_give_up RoDialFailed)))
  | RtWriteSrv ->
    (match p.p_srv with
     | Some e ->
       if fail
       then if e.e_eof
            then Some (rt_upd_pair s c (rt_give_up RoSrvWriteFailed))
            else None
       else Some
              (rt_upd_pair s c (fun p0 ->
                rt_set_pc RtReadSrv (rt_set_srv (rt_end_write ch2 e) p0)))
     | None -> None)
  | RtReadSrv ->
    (match p.p_srv with
     | Some e ->
       (match e.e_rx with
        | [] ->
          if e.e_eof
          then Some (rt_upd_pair s c (rt_set_pc (RtCmpSrv None)))
          else None
        | _ :: _ ->
          let n = N.to_nat rtunnel_hello_read_size in
          let got = firstn n e.e_rx in
          Some
          (rt_upd_pair s c (fun _ -> { p_cli = p.p_cli; p_srv = (Some
            (rt_end_drop n e)); p_pc = (RtCmpSrv (Some got)); p_first =
            p.p_first; p_sfirst = (Some got); p_br = p.p_br; p_won =
            p.p_won })))
     | None -> None)
  | RtCmpSrv r ->
    (match r with
     | Some got ->
       if hello_matches got sh3
       then Some (rt_upd_pair s c (rt_set_pc RtReply))
       else Some (rt_upd_pair s c (rt_give_up RoBadServer))
     | None -> Some (rt_upd_pair s c (rt_give_up RoBadServer)))
  | RtReply ->
    if fail
    then if p.p_cli.e_eof
         then Some (rt_upd_pair s c (rt_give_up RoReplyFailed))
         else None
    else Some
           (rt_upd_pair s c (fun p0 ->
             rt_set_pc RtNew (rt_set_cli (rt_end_write sh4 p0.p_cli) p0)))
  | RtNew ->
    Some
      (rt_upd_pair s c (fun p0 ->
        rt_set_pc RtCas
          (rt_set_br { b_in = rt_new_half; b_out = rt_new_half; b_relay =
            false } p0)))
  | RtCas ->
    (match s.r_trelay with
     | Some _ -> Some (rt_upd_pair s c (rt_set_pc RtCloseC))
     | None ->
       Some { r_pairs =
         (upd c (fun p0 -> { p_cli = p0.p_cli; p_srv = p0.p_srv; p_pc =
           RtStoreRelay; p_first = p0.p_first; p_sfirst = p0.p_sfirst; p_br =
           p0.p_br; p_won = (Some s.r_era) }) s.r_pairs); r_lis = s.r_lis;
         r_apc = s.r_apc; r_connector = s.r_connector; r_trelay = (Some c);
         r_era = s.r_era; r_tconnected = s.r_tconnected; r_x = s.r_x })
  | RtStoreRelay ->
    (match p.p_br with
     | Some b ->
       Some
         (rt_upd_pair s c (fun p0 ->
           rt_set_pc RtGoIn (rt_set_br (rt_set_relay true b) p0)))
     | None -> None)
  | RtGoIn ->
    (match p.p_br with
     | Some b ->
       Some
         (rt_upd_pair s c (fun p0 ->
           rt_set_pc RtGoOut
             (rt_set_br (rt_set_half RdIn (rt_half_set_pump PmRun b.b_in) b)
               p0)))
     | None -> None)
  | RtGoOut ->
    (match p.p_br with
     | Some b ->
       Some
         (rt_upd_pair s c (fun p0 ->
           rt_set_pc RtCloseLis
             (rt_set_br
               (rt_set_half RdOut (rt_half_set_pump PmRun b.b_out) b) p0)))
     | None -> None)
  | RtCloseLis ->
    Some { r_pairs = (upd c (rt_set_pc (RtDone RoWon)) s.r_pairs); r_lis =
      false; r_apc = s.r_apc; r_connector = s.r_connector; r_trelay =
      s.r_trelay; r_era = s.r_era; r_tconnected = s.r_tconnected; r_x =
      s.r_x }
  | RtCloseC ->
    (match p.p_br with
     | Some b ->
       Some
         (rt_upd_pair s c (fun p0 ->
           rt_set_pc RtCloseS
             (rt_set_br (rt_set_half RdIn (rt_half_close_chan b.b_in) b) p0)))
     | None -> None)
  | RtCloseS ->
    (match p.p_br with
     | Some b ->
       Some
         (rt_upd_pair s c (fun p0 ->
           rt_set_pc (RtDone RoLost)
             (rt_set_br (rt_set_half RdOut (rt_half_close_chan b.b_out) b) p0)))
     | None -> None)
  | _ -> None

(** val rt_step :
    coq_N list -> coq_N list -> coq_N list -> coq_N list -> rt_state ->
    rt_label -> rt_state option **)

let rt_step ch1 sh4 ch2 sh3 s = function
| RLConnect script ->
  Some
    (rt_with_pairs s
      (app s.r_pairs
        ((rt_new_pair script (if s.r_lis then RtPending else RtRefused)) :: [])))
| RLPeerC c ->
  (match nth_error s.r_pairs c with
   | Some p ->
     (match rt_end_peer p.p_cli with
      | Some e -> Some (rt_upd_pair s c (rt_set_cli e))
      | None -> None)
   | None -> None)
| RLPeerS c ->
  (match nth_error s.r_pairs c with
   | Some p ->
     (match p.p_srv with
      | Some e0 ->
        (match rt_end_peer e0 with
         | Some e -> Some (rt_upd_pair s c (rt_set_srv e))
         | None -> None)
      | None -> None)
   | None -> None)
| RLAccept c ->
  (match s.r_apc with
   | RaAccept ->
     if s.r_lis
     then (match nth_error s.r_pairs c with
           | Some p ->
             (match p.p_pc with
              | RtPending ->
                Some { r_pairs = (upd c (rt_set_pc RtAccepted) s.r_pairs);
                  r_lis = s.r_lis; r_apc = (RaCheck c); r_connector =
                  s.r_connector; r_trelay = s.r_trelay; r_era = s.r_era;
                  r_tconnected = s.r_tconnected; r_x = s.r_x }
              | _ -> None)
           | None -> None)
     else None
   | _ -> None)
| RLAcceptErr ->
  (match s.r_apc with
   | RaAccept ->
     if s.r_lis
     then None
     else Some { r_pairs = s.r_pairs; r_lis = false; r_apc = RaDone;
            r_connector = s.r_connector; r_trelay = s.r_trelay; r_era =
            s.r_era; r_tconnected = s.r_tconnected; r_x = s.r_x }
   | _ -> None)
| RLCheck ->
  (match s.r_apc with
   | RaCheck c ->
     (match s.r_trelay with
      | Some _ ->
        Some { r_pairs = (upd c (rt_give_up RoBusy) s.r_pairs); r_lis =
          false; r_apc = RaDone; r_connector = s.r_connector; r_trelay =
          s.r_trelay; r_era = s.r_era; r_tconnected = s.r_tconnected; r_x =
          s.r_x }
      | None ->
        Some { r_pairs = (upd c (rt_set_pc RtLoadConn) s.r_pairs); r_lis =
          s.r_lis; r_apc = RaAccept; r_connector = s.r_connector; r_trelay =
          s.r_trelay; r_era = s.r_era; r_tconnected = s.r_tconnected; r_x =
          s.r_x })
   | _ -> None)
| RLHandler (c, dial, fail) ->
  (match nth_error s.r_pairs c with
   | Some p -> rt_handler ch1 sh4 ch2 sh3 s c p dial fail
   | None -> None)
| RLWriter (c, d) ->
  (match nth_error s.r_pairs c with
   | Some p ->
     (match p.p_br with
      | Some b ->
        (match rt_dst_end d p with
         | Some e ->
           let h = rt_half_of d b in
           if h.h_writer
           then (match h.h_chan with
                 | [] ->
                   if h.h_chan_closed
                   then Some
                          (rt_upd_pair s c (fun p0 ->
                            rt_set_dst_end d (rt_end_close e)
                              (rt_set_br
                                (rt_set_half d { h_chan = []; h_chan_closed =
                                  true; h_writer = false; h_pump = h.h_pump;
                                  h_log = h.h_log } b) p0)))
                   else None
                 | x :: rest ->
                   if e.e_closed
                   then Some
                          (rt_upd_pair s c
                            (rt_set_br
                              (rt_set_half d { h_chan = rest; h_chan_closed =
                                h.h_chan_closed; h_writer = true; h_pump =
                                h.h_pump; h_log = h.h_log } b)))
                   else Some
                          (rt_upd_pair s c (fun p0 ->
                            rt_set_dst_end d (rt_end_write (snd x) e)
                              (rt_set_br
                                (rt_set_half d { h_chan = rest;
                                  h_chan_closed = h.h_chan_closed; h_writer =
                                  true; h_pump = h.h_pump; h_log =
                                  (app h.h_log (x :: [])) } b) p0))))
           else None
         | None -> None)
      | None -> None)
   | None -> None)
| RLPump (c, d, n) ->
  (match nth_error s.r_pairs c with
   | Some p ->
     (match p.p_br with
      | Some b ->
        (match rt_src_end d p with
         | Some e ->
           let h = rt_half_of d b in
           (match h.h_pump with
            | PmRun ->
              if (&&)
                   ((&&) ((&&) (negb e.e_closed) (Nat.leb (S O) n))
                     (Nat.leb n (length e.e_rx)))
                   (N.leb (N.of_nat n) rtunnel_pump_bufsize)
              then let x = ((rt_tag d c), (firstn n e.e_rx)) in
                   if (&&) b.b_relay (rt_handshaking s)
                   then if s.r_x.x_lock
                        then None
                        else Some { r_pairs =
                               (upd c (rt_set_src_end d (rt_end_drop n e))
                                 s.r_pairs); r_lis = s.r_lis; r_apc =
                               s.r_apc; r_connector = s.r_connector;
                               r_trelay = s.r_trelay; r_era = s.r_era;
                               r_tconnected = s.r_tconnected; r_x =
                               (rt_set_buf d (app (rt_buf d s.r_x) (x :: []))
                                 s.r_x) }
                   else if rt_chan_has_room h
                        then Some
                               (rt_upd_pair s c (fun p0 ->
                                 rt_set_src_end d (rt_end_drop n e)
                                   (rt_set_br
                                     (rt_set_half d (rt_half_push x h) b) p0)))
                        else None
              else None
            | _ -> None)
         | None -> None)
      | None -> None)
   | None -> None)
| RLPumpEof (c, d) ->
  (match nth_error s.r_pairs c with
   | Some p ->
     (match p.p_br with
      | Some b ->
        (match rt_src_end d p with
         | Some e ->
           let h = rt_half_of d b in
           (match h.h_pump with
            | PmRun ->
              (match e.e_rx with
               | [] ->
                 if (&&) e.e_eof (negb e.e_closed)
                 then Some
                        (rt_upd_pair s c
                          (rt_set_br
                            (rt_set_half d (rt_half_set_pump PmWait h) b)))
                 else None
               | _ :: _ -> None)
            | _ -> None)
         | None -> None)
      | None -> None)
   | None -> None)
| RLPumpExit (c, d) ->
  (match nth_error s.r_pairs c with
   | Some p ->
     (match p.p_br with
      | Some b ->
        let h = rt_half_of d b in
        (match h.h_pump with
         | PmWait ->
           if b.b_relay
           then None
           else Some
                  (rt_upd_pair s c
                    (rt_set_br
                      (rt_set_half d
                        (rt_half_close_chan (rt_half_set_pump PmDone h)) b)))
         | _ -> None)
      | None -> None)
   | None -> None)
| RLPumpSpin (c, d) ->
  (match nth_error s.r_pairs c with
   | Some p ->
     (match p.p_br with
      | Some b ->
        (match rt_src_end d p with
         | Some e ->
           (match (rt_half_of d b).h_pump with
            | PmRun -> if e.e_closed then Some s else None
            | _ -> None)
         | None -> None)
      | None -> None)
   | None -> None)
| RLSetConnector v ->
  Some { r_pairs = s.r_pairs; r_lis = s.r_lis; r_apc = s.r_apc; r_connector =
    v; r_trelay = s.r_trelay; r_era = s.r_era; r_tconnected = s.r_tconnected;
    r_x = s.r_x }
| RLInband (d, bs) ->
  (match bs with
   | [] -> None
   | _ :: _ ->
     let x = ((RsInband s.r_tconnected), bs) in
     if rt_handshaking s
     then if s.r_x.x_lock
          then None
          else if s.r_tconnected
               then Some
                      (rt_with_x s (rt_add_out d (x, s.r_tconnected) s.r_x))
               else Some
                      (rt_with_x s
                        (rt_set_buf d (app (rt_buf d s.r_x) (x :: [])) s.r_x))
     else Some (rt_with_x s (rt_add_out d (x, s.r_tconnected) s.r_x)))
| RLHsRead (k, ok, tun, conf) ->
  (match s.r_x.x_pc with
   | HsRecvAct ->
     if (&&) (Nat.leb (S O) k) (Nat.leb k (rt_buf_bytes s.r_x.x_bufin))
     then Some
            (rt_with_x s
              (rt_set_pc_lock (if ok then HsStore (tun, conf) else HsErr1)
                false (rt_set_buf RdIn (rt_drop_bytes k s.r_x.x_bufin) s.r_x)))
     else None
   | HsRecvCfg ->
     if (&&) (Nat.leb (S O) k) (Nat.leb k (rt_buf_bytes s.r_x.x_bufout))
     then Some
            (rt_with_x s
              (rt_set_pc_lock (if ok then HsSendCfg else HsErr1) false
                (rt_set_buf RdOut (rt_drop_bytes k s.r_x.x_bufout) s.r_x)))
     else None
   | _ -> None)
| RLHs bs ->
  (match s.r_x.x_pc with
   | HsStore (tun, conf) ->
     Some { r_pairs = s.r_pairs; r_lis = s.r_lis; r_apc = s.r_apc;
       r_connector = s.r_connector; r_trelay = s.r_trelay; r_era = s.r_era;
       r_tconnected = tun; r_x =
       (rt_set_pc_lock (HsSendAct conf) false s.r_x) }
   | HsSendAct conf ->
     rt_route s RdIn (RsRelay, bs)
       (if conf then HsRecvCfg else HsFlushIn false) (negb conf)
   | HsSendCfg -> rt_route s RdOut (RsRelay, bs) (HsFlushIn true) true
   | HsErr1 -> rt_route s RdOut (RsRelay, bs) HsErr2 false
   | HsErr2 -> rt_route s RdIn (RsRelay, bs) (HsFlushIn false) true
   | HsFlushIn conf ->
     (match s.r_x.x_bufin with
      | [] -> Some (rt_with_x s (rt_set_pc_lock (HsFlushOut conf) true s.r_x))
      | x :: rest ->
        rt_route (rt_with_x s (rt_set_buf RdIn rest s.r_x)) RdIn x (HsFlushIn
          conf) true)
   | HsFlushOut conf ->
     (match s.r_x.x_bufout with
      | [] -> Some (rt_with_x s (rt_set_pc_lock (HsFlushEnd conf) true s.r_x))
      | x :: rest ->
        rt_route (rt_with_x s (rt_set_buf RdOut rest s.r_x)) RdOut x
          (HsFlushOut conf) true)
   | HsFlushEnd conf ->
     if conf
     then Some (rt_with_x s (rt_hs_finish StTransferring s.r_x))
     else Some (rt_reset s (rt_hs_finish StStandby s.r_x))
   | _ -> None)
| RLReset ->
  (match s.r_x.x_status with
   | StTransferring -> Some (rt_reset s (rt_set_status StStandby s.r_x))
   | _ -> None)

type rt_obs =
| RtObsRefused
| RtObsOpenSilent
| RtObsClosedSilent
| RtObsGot of coq_N list * bool

(** val rt_observe_end : rt_end -> rt_obs **)

let rt_observe_end e =
  match e.e_tx with
  | [] -> if e.e_closed then RtObsClosedSilent else RtObsOpenSilent
  | n :: l -> RtObsGot ((n :: l), e.e_closed)

(** val rt_observe_cli : rt_pair -> rt_obs **)

let rt_observe_cli p =
  match p.p_pc with
  | RtRefused -> RtObsRefused
  | _ -> rt_observe_end p.p_cli
