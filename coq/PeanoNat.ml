open Datatypes

module Nat =
 struct
  (** val eqb : nat -> nat -> bool **)

  let rec eqb n m =
    match n with
    | O -> (match m with
            | O -> true
            | S _ -> false)
    | S n' -> (match m with
               | O -> false
               | S m' -> eqb n' m')

  (** val leb : nat -> nat -> bool **)

  let rec leb n m =
    match n with
    | O -> true
    | S n' -> (match m with
               | O -> false
               | S m' -> leb n' m')

  (** val ltb : nat -> nat -> bool **)

  let ltb n m =
    leb (S n) m

  (** val max : nat -> nat -> nat **)

  let rec max n m =
    match n with
    | O -> m
    | S n' -> (match m with
               | O -> n
               | S m' -> S (max n' m'))

  (** val min : nat -> nat -> nat **)

  let rec min n m =
    match n with
    | O -> O
    | S n' -> (match m with
               | O -> O
               | S m' -> S (min n' m'))
 end
