open Datatypes
open List0

type et_pname =
| PTraceBack
| PRemoteExit
| PRemoteFail
| PStopAndDelete

type et_var =
| VTrace
| VTyp

type et_word =
| WFail
| WFAIL
| WOther

(** val et_pname_eqb : et_pname -> et_pname -> bool **)

let et_pname_eqb a b =
  match a with
  | PTraceBack -> (match b with
                   | PTraceBack -> true
                   | _ -> false)
  | PRemoteExit -> (match b with
                    | PRemoteExit -> true
                    | _ -> false)
  | PRemoteFail -> (match b with
                    | PRemoteFail -> true
                    | _ -> false)
  | PStopAndDelete -> (match b with
                       | PStopAndDelete -> true
                       | _ -> false)

(** val et_var_eqb : et_var -> et_var -> bool **)

let et_var_eqb a b =
  match a with
  | VTrace -> (match b with
               | VTrace -> true
               | VTyp -> false)
  | VTyp -> (match b with
             | VTrace -> false
             | VTyp -> true)

type et_type =
| EtNone
| EtFail
| EtFAIL
| EtEXIT
| EtOther

type et_err = { et_trz : bool; et_typ : et_type; et_trace : bool;
                et_sad : bool }

type et_env = { et_flag : bool; et_deleted : bool; et_window : bool }

type et_bexp =
| BTypeIs of et_type
| BTrace
| BMsgSad
| BNil
| BConst of bool
| BNot of et_bexp
| BAnd of et_bexp * et_bexp
| BOr of et_bexp * et_bexp
| BUnknownExp

type et_pred = { ep_name : et_pname; ep_guards : (et_bexp * bool) list;
                 ep_final : et_bexp }

(** val et_type_eqb : et_type -> et_type -> bool **)

let et_type_eqb a b =
  match a with
  | EtNone -> (match b with
               | EtNone -> true
               | _ -> false)
  | EtFail -> (match b with
               | EtFail -> true
               | _ -> false)
  | EtFAIL -> (match b with
               | EtFAIL -> true
               | _ -> false)
  | EtEXIT -> (match b with
               | EtEXIT -> true
               | _ -> false)
  | EtOther -> (match b with
                | EtOther -> true
                | _ -> false)

(** val et_bval : et_err -> et_bexp -> bool * bool **)

let rec et_bval e = function
| BTypeIs t ->
  (match t with
   | EtOther -> (false, false)
   | _ -> ((et_type_eqb e.et_typ t), true))
| BTrace -> (e.et_trace, true)
| BMsgSad -> (e.et_sad, true)
| BNil -> (false, true)
| BConst b -> (b, true)
| BNot a -> let (v, k) = et_bval e a in ((negb v), k)
| BAnd (a, b) ->
  let (v, k) = et_bval e a in
  let (w, l) = et_bval e b in (((&&) v w), ((&&) k l))
| BOr (a, b) ->
  let (v, k) = et_bval e a in
  let (w, l) = et_bval e b in (((||) v w), ((&&) k l))
| BUnknownExp -> (false, false)

(** val et_guards :
    et_err -> (et_bexp * bool) list -> et_bexp -> bool * bool **)

let rec et_guards e gs final =
  match gs with
  | [] -> et_bval e final
  | p :: t ->
    let (g, r) = p in
    let (v, k) = et_bval e g in
    if v then (r, k) else let (w, l) = et_guards e t final in (w, ((&&) k l))

(** val et_find : et_pred list -> et_pname -> et_pred option **)

let rec et_find ps n =
  match ps with
  | [] -> None
  | p :: t -> if et_pname_eqb p.ep_name n then Some p else et_find t n

type et_cond =
| CIsTrz
| CPred of et_pname
| CFlag
| CDeleted
| CWindow
| CVar of et_var
| CConst of bool
| CNot of et_cond
| CAnd of et_cond * et_cond
| COr of et_cond * et_cond
| CUnknownCond

type et_sexp =
| SLit of et_word
| SVar of et_var

type et_stmt =
| TClean
| TSetBool of et_var * et_cond
| TSetStr of et_var * et_word
| TDelete
| TSend of et_sexp * bool
| TSwitchWriter
| TExit of bool
| TIf of et_cond * et_stmt list * et_stmt list
| TReturn
| TUnknownStmt

type et_act =
| AClean
| ADelete
| ASend of et_word * bool * bool
| AExit of bool

type et_state = { es_bools : (et_var * bool) list;
                  es_strs : (et_var * et_word) list; es_deleted_known : 
                  bool; es_tunnel : bool; es_acts : et_act list;
                  es_ret : bool; es_ok : bool }

(** val et_init : et_state **)

let et_init =
  { es_bools = []; es_strs = []; es_deleted_known = false; es_tunnel = false;
    es_acts = []; es_ret = false; es_ok = true }

(** val et_lookup : (et_var * 'a1) list -> et_var -> 'a1 option **)

let rec et_lookup l n =
  match l with
  | [] -> None
  | p :: t ->
    let (k, v) = p in if et_var_eqb k n then Some v else et_lookup t n

(** val et_cval :
    et_pred list -> et_err -> et_env -> et_state -> bool -> et_cond ->
    bool * bool **)

let rec et_cval preds e env st intrz = function
| CIsTrz -> (e.et_trz, true)
| CPred n ->
  (match et_find preds n with
   | Some p ->
     let (v, k) = et_guards e p.ep_guards p.ep_final in (v, ((&&) k intrz))
   | None -> (false, false))
| CFlag -> (env.et_flag, true)
| CDeleted -> (env.et_deleted, st.es_deleted_known)
| CWindow -> (env.et_window, true)
| CVar v ->
  (match et_lookup st.es_bools v with
   | Some b -> (b, true)
   | None -> (false, false))
| CConst b -> (b, true)
| CNot a -> let (v, k) = et_cval preds e env st intrz a in ((negb v), k)
| CAnd (a, b) ->
  let (v, k) = et_cval preds e env st intrz a in
  let (w, l) = et_cval preds e env st intrz b in (((&&) v w), ((&&) k l))
| COr (a, b) ->
  let (v, k) = et_cval preds e env st intrz a in
  let (w, l) = et_cval preds e env st intrz b in (((||) v w), ((&&) k l))
| CUnknownCond -> (false, false)

(** val et_mark : et_state -> bool -> et_state **)

let et_mark st k =
  { es_bools = st.es_bools; es_strs = st.es_strs; es_deleted_known =
    st.es_deleted_known; es_tunnel = st.es_tunnel; es_acts = st.es_acts;
    es_ret = st.es_ret; es_ok = ((&&) st.es_ok k) }

(** val et_emit : et_state -> et_act -> et_state **)

let et_emit st a =
  { es_bools = st.es_bools; es_strs = st.es_strs; es_deleted_known =
    st.es_deleted_known; es_tunnel = st.es_tunnel; es_acts =
    (a :: st.es_acts); es_ret = st.es_ret; es_ok = st.es_ok }

(** val et_is_istrz : et_cond -> bool **)

let et_is_istrz = function
| CIsTrz -> true
| _ -> false

(** val et_exec :
    et_pred list -> et_err -> et_env -> bool -> et_stmt -> et_state ->
    et_state **)

let rec et_exec preds e env intrz s st =
  match s with
  | TClean -> et_emit st AClean
  | TSetBool (v, c) ->
    let (b, k) = et_cval preds e env st intrz c in
    et_mark { es_bools = ((v, b) :: st.es_bools); es_strs = st.es_strs;
      es_deleted_known = st.es_deleted_known; es_tunnel = st.es_tunnel;
      es_acts = st.es_acts; es_ret = st.es_ret; es_ok = st.es_ok } k
  | TSetStr (v, x) ->
    { es_bools = st.es_bools; es_strs = ((v, x) :: st.es_strs);
      es_deleted_known = st.es_deleted_known; es_tunnel = st.es_tunnel;
      es_acts = st.es_acts; es_ret = st.es_ret; es_ok = st.es_ok }
  | TDelete ->
    et_emit { es_bools = st.es_bools; es_strs = st.es_strs;
      es_deleted_known = true; es_tunnel = st.es_tunnel; es_acts =
      st.es_acts; es_ret = st.es_ret; es_ok = st.es_ok } ADelete
  | TSend (t, names) ->
    (match t with
     | SLit x -> et_emit st (ASend (x, names, st.es_tunnel))
     | SVar v ->
       (match et_lookup st.es_strs v with
        | Some x -> et_emit st (ASend (x, names, st.es_tunnel))
        | None -> et_mark st false))
  | TSwitchWriter ->
    et_mark { es_bools = st.es_bools; es_strs = st.es_strs;
      es_deleted_known = st.es_deleted_known; es_tunnel = true; es_acts =
      st.es_acts; es_ret = st.es_ret; es_ok = st.es_ok } env.et_window
  | TExit names -> et_emit st (AExit names)
  | TIf (c, a, b) ->
    let (v, k) = et_cval preds e env st intrz c in
    let st1 = et_mark st k in
    let inner = (||) intrz ((&&) (et_is_istrz c) v) in
    if v
    then let rec run l st0 =
           match l with
           | [] -> st0
           | x :: t ->
             let st' = et_exec preds e env inner x st0 in
             if st'.es_ret then st' else run t st'
         in run a st1
    else let rec run l st0 =
           match l with
           | [] -> st0
           | x :: t ->
             let st' = et_exec preds e env intrz x st0 in
             if st'.es_ret then st' else run t st'
         in run b st1
  | TReturn ->
    { es_bools = st.es_bools; es_strs = st.es_strs; es_deleted_known =
      st.es_deleted_known; es_tunnel = st.es_tunnel; es_acts = st.es_acts;
      es_ret = true; es_ok = st.es_ok }
  | TUnknownStmt -> et_mark st false

(** val et_run_from :
    et_pred list -> et_err -> et_env -> et_stmt list -> et_state -> et_state **)

let rec et_run_from preds e env l st =
  match l with
  | [] -> st
  | x :: t ->
    let st' = et_exec preds e env false x st in
    if st'.es_ret then st' else et_run_from preds e env t st'

(** val et_run :
    et_pred list -> et_stmt list -> et_err -> et_env -> et_act list * bool **)

let et_run preds body e env =
  let st = et_run_from preds e env body et_init in
  ((rev st.es_acts), st.es_ok)

(** val et_victim : et_err -> bool **)

let et_victim e =
  (&&) e.et_trz
    (match e.et_typ with
     | EtNone -> false
     | EtOther -> false
     | _ -> true)
