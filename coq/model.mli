
val negb : bool -> bool

type nat =
| O
| S of nat

val fst : ('a1 * 'a2) -> 'a1

val snd : ('a1 * 'a2) -> 'a2

val length : 'a1 list -> nat

val app : 'a1 list -> 'a1 list -> 'a1 list

type comparison =
| Eq
| Lt
| Gt

val compOpp : comparison -> comparison

val add : nat -> nat -> nat

type positive =
| XI of positive
| XO of positive
| XH

type n =
| N0
| Npos of positive

type z =
| Z0
| Zpos of positive
| Zneg of positive

module Nat :
 sig
  val leb : nat -> nat -> bool

  val ltb : nat -> nat -> bool

  val max : nat -> nat -> nat
 end

module Pos :
 sig
  type mask =
  | IsNul
  | IsPos of positive
  | IsNeg
 end

module Coq_Pos :
 sig
  val succ : positive -> positive

  val add : positive -> positive -> positive

  val add_carry : positive -> positive -> positive

  val pred_double : positive -> positive

  type mask = Pos.mask =
  | IsNul
  | IsPos of positive
  | IsNeg

  val succ_double_mask : mask -> mask

  val double_mask : mask -> mask

  val double_pred_mask : positive -> mask

  val sub_mask : positive -> positive -> mask

  val sub_mask_carry : positive -> positive -> mask

  val mul : positive -> positive -> positive

  val compare_cont : comparison -> positive -> positive -> comparison

  val compare : positive -> positive -> comparison

  val eqb : positive -> positive -> bool

  val iter_op : ('a1 -> 'a1 -> 'a1) -> positive -> 'a1 -> 'a1

  val to_nat : positive -> nat

  val of_succ_nat : nat -> positive
 end

module N :
 sig
  val succ_double : n -> n

  val double : n -> n

  val add : n -> n -> n

  val sub : n -> n -> n

  val mul : n -> n -> n

  val compare : n -> n -> comparison

  val eqb : n -> n -> bool

  val leb : n -> n -> bool

  val ltb : n -> n -> bool

  val pos_div_eucl : positive -> n -> n * n

  val div_eucl : n -> n -> n * n

  val div : n -> n -> n

  val modulo : n -> n -> n

  val to_nat : n -> nat

  val of_nat : nat -> n
 end

module Z :
 sig
  val double : z -> z

  val succ_double : z -> z

  val pred_double : z -> z

  val pos_sub : positive -> positive -> z

  val add : z -> z -> z

  val opp : z -> z

  val sub : z -> z -> z

  val mul : z -> z -> z

  val compare : z -> z -> comparison

  val leb : z -> z -> bool

  val ltb : z -> z -> bool

  val to_nat : z -> nat

  val to_N : z -> n

  val of_nat : nat -> z

  val of_N : n -> z

  val pos_div_eucl : positive -> z -> z * z

  val div_eucl : z -> z -> z * z

  val div : z -> z -> z

  val modulo : z -> z -> z
 end

val concat : 'a1 list list -> 'a1 list

val map : ('a1 -> 'a2) -> 'a1 list -> 'a2 list

val forallb : ('a1 -> bool) -> 'a1 list -> bool

val filter : ('a1 -> bool) -> 'a1 list -> 'a1 list

val firstn : nat -> 'a1 list -> 'a1 list

val skipn : nat -> 'a1 list -> 'a1 list

type byte = n

val list_eqb : n list -> n list -> bool

val index_byte : n -> n list -> nat option

val escape_leader : n

val escape_base_json : (n list * n list) list

val escape_all_chars : n list

val escape_all_first_code : n

val pause_gate_sleep_ms : n

val pause_reader_sleep_ms : n

val pause_protocol3 : n

val pause_keepalive_written : n list

val pause_keepalive_tested : n list

val pause_colon : n

val pause_timeout_unit_ms : n

val leader : byte

type table = (byte * byte) list

val esc_code : table -> byte -> byte option

val unesc_code : table -> byte -> byte option

val escape : table -> byte list -> byte list

type ures =
| UOk of byte list * byte list
| UErr of byte

val ucons : byte -> ures -> ures

val unesc : table -> byte list -> nat -> ures

val unescape_data : table -> byte list -> nat -> ures

type rres =
| RData of byte list
| REof
| RErr of byte

val er_read :
  table -> byte list -> byte list list -> nat -> rres * (byte list * byte
  list list)

val next_size : nat list -> nat -> nat * nat list

type rend =
| EndEof of byte list
| EndErr of byte
| EndFuel

val er_run :
  nat -> table -> byte list -> byte list list -> nat list -> nat -> byte list
  list * rend

val er_fuel : byte list -> byte list list -> nat

val ew_write : table -> byte list list -> byte list list

val latin1 : n list -> byte list option

val table_of_json : n list list list -> table option

val escape_all_pairs : n list -> n -> n list list list

val builtin_json : bool -> n list list list

val builtin_table : bool -> table

type cfg = { cT : nat; cSL : nat; cGL : nat; cP3 : bool }

val cfg_of : n -> z -> n -> cfg

type timer = nat option

val fresh : cfg -> timer

val dec : timer -> timer

val fired : timer -> bool

type lclass =
| CKeep
| CGood
| CNoColon
| CWrongType

val classify : n list -> n list -> lclass

val payload_of : n list -> n list

val keepalive_line : n list -> n list

type rcore = { pausing : bool; pidx : nat; pbt : bool; stopped : bool;
               tmo : timer; ntmo : timer; rbt : bool; pflag : bool }

val upd_pflag : rcore -> bool -> rcore

val upd_stopped : rcore -> rcore

val upd_timers : rcore -> timer -> timer -> rcore

val consume_rbt : rcore -> rcore

val do_pause : rcore -> rcore

val do_resume : cfg -> rcore -> bool -> rcore

type phase =
| PIdle
| PGate of nat * nat
| PRead of nat

val is_read : phase -> bool

type 'l ev =
| ETick
| EArrive of 'l
| EPause
| EResume
| EStop
| ECall

type 'l out =
| ODelivered of 'l * bool
| OTimeout of bool
| OStopped of bool
| OBadLine of bool

type 'l rstate = { core : rcore; queue : 'l list; ph : phase }

val arm : cfg -> rcore -> rcore

type 'l pre_res =
| PExit of rcore * phase * 'l out option
| PGo of rcore * nat

val gate_check : cfg -> rcore -> nat -> 'a1 pre_res

type entry =
| AtTop
| AfterGate of nat
| GotLine of nat

val pre : cfg -> entry -> rcore -> 'a1 pre_res

val rd :
  ('a1 -> lclass) -> cfg -> 'a1 list -> entry -> rcore -> 'a1 rstate * 'a1
  out option

val on_timeout :
  ('a1 -> lclass) -> cfg -> 'a1 list -> nat -> rcore -> 'a1 rstate * 'a1 out
  option

val rtick :
  ('a1 -> lclass) -> cfg -> 'a1 rstate -> 'a1 rstate * 'a1 out option

val rstep :
  ('a1 -> lclass) -> cfg -> 'a1 rstate -> 'a1 ev -> 'a1 rstate * 'a1 out
  option

val rrun :
  ('a1 -> lclass) -> cfg -> 'a1 rstate -> 'a1 ev list -> 'a1 rstate * 'a1 out
  option list

val core0 : rcore

val rinit : 'a1 rstate

type sphase =
| SIdle
| SSleep of nat
| SPassed

type wout =
| WKeep
| WFrame
| WStopErr

val gate_enter : cfg -> bool -> bool -> sphase * wout list

type sev =
| SCall
| STick
| SWrite
| SPauseEv
| SResumeEv
| SStopEv

type sstate = { s_pausing : bool; s_stopped : bool; s_ph : sphase }

val sphase_step : cfg -> bool -> bool -> sphase -> sev -> sphase * wout list

val sstep : cfg -> sstate -> sev -> sstate * wout list

val srun : cfg -> sstate -> sev list -> sstate * wout list

val count_keeps : wout list -> nat

type wline =
| WLKeep
| WLData of nat

val cls_w : wline -> lclass

val cls_a : nat -> lclass

type csph =
| CSGate of nat
| CSIn of nat * sphase
| CSPush of nat
| CSDone

type epi =
| EpNone
| EpPausing of nat
| EpResumed of nat * nat

type cstate = { cA : nat rstate; cAcked : nat; cS : csph; cCnt : nat;
                cR : wline rstate; cDeliv : nat list; cErrA : bool;
                cErrR : bool; cEp : epi }

type cev =
| XTick
| XPause
| XResume
| XSCall
| XSWrite
| XSPush
| XRCall
| XATake

val slack : cfg -> nat

val set_A : cstate -> nat rstate -> nat -> bool -> cstate

val feedA : cfg -> cstate -> nat ev -> cstate

val feedR : cfg -> cstate -> wline ev -> cstate

val set_S : cstate -> csph -> cstate

val set_cnt : cstate -> nat -> cstate

val set_ep : cstate -> epi -> cstate

val emit : cfg -> cstate -> nat -> wout list -> cstate

val our_pausing : cstate -> bool

val our_stopped : cstate -> bool

val s_move : cfg -> cstate -> nat -> sphase -> sev -> cstate

val r_live : nat -> cstate -> bool

val quiescent : nat -> nat -> cstate -> bool

val ep_pause : epi -> epi

val ep_tick : cfg -> epi -> epi

val cstep : cfg -> nat -> nat -> nat -> cstate -> cev -> cstate option

val crun : cfg -> nat -> nat -> nat -> cstate -> cev list -> cstate option

val cinit : nat -> cstate

type aph =
| AIdle
| AGate of nat
| ARead

type rph =
| RIdle
| RRead of nat

type ast = { xPausing : bool; xA : aph; xAq : nat; xAcked : nat; xS : 
             csph; xCnt : nat; xR : rph; xRq : wline list; xDeliv : nat list;
             xBad : bool; xEp : epi }

val first_data : wline list -> (nat * wline list) option

val x_ack : ast -> ast

val x_deliver : ast -> rph -> wline list -> nat -> ast

val x_setR : ast -> rph -> wline list -> ast

val x_rarrive : cfg -> ast -> wline -> ast

val x_rcall : cfg -> ast -> ast

val x_setA : ast -> aph -> nat -> nat -> ast

val x_aread : ast -> ast

val x_acall : cfg -> ast -> ast

val x_setS : ast -> csph -> ast

val x_setCnt : ast -> nat -> ast

val x_bad : ast -> ast

val x_flags : ast -> bool -> epi -> ast

val x_gate : cfg -> ast -> nat -> ast

val x_live : nat -> ast -> bool

val x_quiescent : nat -> nat -> ast -> bool

val x_tickR : ast -> ast

val x_tickA : cfg -> ast -> ast

val x_tickS : cfg -> ast -> ast

val astep : cfg -> nat -> nat -> nat -> ast -> cev -> ast option

val arun : cfg -> nat -> nat -> nat -> ast -> cev list -> ast option

val ainit : nat -> ast

val abs_of : cstate -> ast
