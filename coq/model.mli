
type nat =
| O
| S of nat

val fst : ('a1 * 'a2) -> 'a1

val snd : ('a1 * 'a2) -> 'a2

val length : 'a1 list -> nat

val app : 'a1 list -> 'a1 list -> 'a1 list

type comparison =
| Eq
| Lt
| Gt

val compOpp : comparison -> comparison

val add : nat -> nat -> nat

val sub : nat -> nat -> nat

type positive =
| XI of positive
| XO of positive
| XH

type n =
| N0
| Npos of positive

type z =
| Z0
| Zpos of positive
| Zneg of positive

module Nat :
 sig
  val leb : nat -> nat -> bool
 end

module Pos :
 sig
  type mask =
  | IsNul
  | IsPos of positive
  | IsNeg
 end

module Coq_Pos :
 sig
  val succ : positive -> positive

  val add : positive -> positive -> positive

  val add_carry : positive -> positive -> positive

  val pred_double : positive -> positive

  type mask = Pos.mask =
  | IsNul
  | IsPos of positive
  | IsNeg

  val succ_double_mask : mask -> mask

  val double_mask : mask -> mask

  val double_pred_mask : positive -> mask

  val sub_mask : positive -> positive -> mask

  val sub_mask_carry : positive -> positive -> mask

  val mul : positive -> positive -> positive

  val compare_cont : comparison -> positive -> positive -> comparison

  val compare : positive -> positive -> comparison

  val eqb : positive -> positive -> bool

  val iter_op : ('a1 -> 'a1 -> 'a1) -> positive -> 'a1 -> 'a1

  val to_nat : positive -> nat

  val of_succ_nat : nat -> positive
 end

module N :
 sig
  val succ_double : n -> n

  val double : n -> n

  val add : n -> n -> n

  val sub : n -> n -> n

  val mul : n -> n -> n

  val compare : n -> n -> comparison

  val eqb : n -> n -> bool

  val leb : n -> n -> bool

  val ltb : n -> n -> bool

  val pos_div_eucl : positive -> n -> n * n

  val div_eucl : n -> n -> n * n

  val div : n -> n -> n

  val modulo : n -> n -> n

  val to_nat : n -> nat

  val of_nat : nat -> n
 end

module Z :
 sig
  val double : z -> z

  val succ_double : z -> z

  val pred_double : z -> z

  val pos_sub : positive -> positive -> z

  val add : z -> z -> z

  val opp : z -> z

  val sub : z -> z -> z

  val mul : z -> z -> z

  val compare : z -> z -> comparison

  val leb : z -> z -> bool

  val ltb : z -> z -> bool

  val to_nat : z -> nat

  val to_N : z -> n

  val of_nat : nat -> z

  val of_N : n -> z

  val pos_div_eucl : positive -> z -> z * z

  val div_eucl : z -> z -> z * z

  val div : z -> z -> z

  val modulo : z -> z -> z
 end

val concat : 'a1 list list -> 'a1 list

val map : ('a1 -> 'a2) -> 'a1 list -> 'a2 list

val forallb : ('a1 -> bool) -> 'a1 list -> bool

val firstn : nat -> 'a1 list -> 'a1 list

val skipn : nat -> 'a1 list -> 'a1 list

type byte = n

val escape_leader : n

val escape_base_json : (n list * n list) list

val escape_all_chars : n list

val escape_all_first_code : n

val leader : byte

type table = (byte * byte) list

val esc_code : table -> byte -> byte option

val unesc_code : table -> byte -> byte option

val escape : table -> byte list -> byte list

type ures =
| UOk of byte list * byte list
| UErr of byte

val ucons : byte -> ures -> ures

val unesc : table -> byte list -> nat -> ures

val unescape_data : table -> byte list -> nat -> ures

type rres =
| RData of byte list
| REof
| RErr of byte

val er_read :
  table -> byte list -> byte list list -> nat -> rres * (byte list * byte
  list list)

val next_size : nat list -> nat -> nat * nat list

type rend =
| EndEof of byte list
| EndErr of byte
| EndFuel

val er_run :
  nat -> table -> byte list -> byte list list -> nat list -> nat -> byte list
  list * rend

val er_fuel : byte list -> byte list list -> nat

val ew_write : table -> byte list list -> byte list list

val latin1 : n list -> byte list option

val table_of_json : n list list list -> table option

val escape_all_pairs : n list -> n -> n list list list

val builtin_json : bool -> n list list list

val builtin_table : bool -> table

type chunk = byte list

type status =
| StS
| StH
| StT

type owner =
| Free
| ByIn
| ByOut
| ByHs
| ByTl

type dev =
| Std
| Byp

type inpc =
| I0
| I1 of chunk
| I3 of chunk
| I4 of chunk
| I4a of chunk
| I4p
| I4u of chunk * bool
| I5 of chunk * bool
| I6 of bool

type outpc =
| O0
| O1 of chunk
| O3 of chunk
| O4 of chunk
| O4a of chunk
| O4p
| O4u of chunk * bool
| O5 of chunk * bool
| O5h of chunk * chunk
| O5g of chunk * chunk
| O5s of chunk * chunk
| O6

type hspc =
| HN
| H0
| H2
| H3
| H4
| HF1
| HF2
| HL of bool
| HP1 of bool
| HS1 of bool * chunk
| HP2 of bool
| HS2 of bool * chunk
| HD of bool

type evI =
| PassI of chunk
| EatI of chunk
| InsI of chunk

type evO =
| PassO of dev * chunk * chunk
| EatO of chunk
| InsO of dev * chunk

type state = { st : status; lk : owner; cin : chunk list; sin : chunk list;
               ibr : chunk; ibq : chunk list; obr : chunk; obq : chunk list;
               slog : byte list; clog : byte list; blog : byte list;
               ipc : inpc; opc : outpc; hpc : hspc; tlk : bool;
               hI : evI list; hO : evO list; trg : bool }

val set_st : state -> status -> state

val set_lk : state -> owner -> state

val set_cin : state -> chunk list -> state

val set_sin : state -> chunk list -> state

val set_ib : state -> chunk -> chunk list -> state

val set_ob : state -> chunk -> chunk list -> state

val set_slog : state -> byte list -> state

val set_clog : state -> byte list -> state

val set_blog : state -> byte list -> state

val set_ipc : state -> inpc -> state

val set_opc : state -> outpc -> state

val set_hpc : state -> hspc -> state

val set_tl : state -> bool -> state

val set_hI : state -> evI list -> state

val set_hO : state -> evO list -> state

val set_trg : state -> bool -> state

val send_srv : state -> chunk -> evI -> state

val send_cli : state -> dev -> chunk -> evO -> state

val bdev : bool -> dev

val flat : chunk -> chunk list -> byte list

val drop_parked : nat -> chunk -> chunk list -> chunk * chunk list

val pop_buf : chunk -> chunk list -> (chunk option * chunk) * chunk list

type rd_res =
| RdMore
| RdOk
| RdErr

type label =
| LInRead
| LInLoad
| LInLock
| LInReload
| LInAdd
| LInUnlockP
| LInUnlockU
| LInSend
| LInEnd of bool
| LOutRead
| LOutLoad
| LOutLock
| LOutReload
| LOutAdd
| LOutUnlockP
| LOutUnlockU
| LOutBypass
| LOutDetect of chunk * bool
| LOutStoreH
| LOutGo
| LOutSend
| LOutEnd of bool
| LHsAct of nat * rd_res
| LHsSendAct of chunk * bool
| LHsCfg of nat * rd_res
| LHsSendCfg of chunk
| LHsFail1 of chunk
| LHsFail2 of chunk
| LHsLock
| LHsPopI
| LHsSendI
| LHsPopO
| LHsSendO
| LHsDone
| LTlUnlock

val after_load_in : status -> chunk -> inpc

val after_reload_in : status -> chunk -> inpc

val after_load_out : status -> chunk -> outpc

val after_reload_out : status -> chunk -> outpc

val cas_t_s : state -> state

val step_fn : bool -> bool -> label -> state -> state option

val init : chunk list -> chunk list -> state

val run : bool -> bool -> label list -> state -> state option
