
val negb : bool -> bool

type nat =
| O
| S of nat

type ('a, 'b) sum =
| Inl of 'a
| Inr of 'b

val fst : ('a1 * 'a2) -> 'a1

val snd : ('a1 * 'a2) -> 'a2

val length : 'a1 list -> nat

val app : 'a1 list -> 'a1 list -> 'a1 list

type comparison =
| Eq
| Lt
| Gt

val compOpp : comparison -> comparison

val add : nat -> nat -> nat

type positive =
| XI of positive
| XO of positive
| XH

type n =
| N0
| Npos of positive

type z =
| Z0
| Zpos of positive
| Zneg of positive

module Nat :
 sig
  val leb : nat -> nat -> bool

  val ltb : nat -> nat -> bool
 end

module Pos :
 sig
  type mask =
  | IsNul
  | IsPos of positive
  | IsNeg
 end

module Coq_Pos :
 sig
  val succ : positive -> positive

  val add : positive -> positive -> positive

  val add_carry : positive -> positive -> positive

  val pred_double : positive -> positive

  type mask = Pos.mask =
  | IsNul
  | IsPos of positive
  | IsNeg

  val succ_double_mask : mask -> mask

  val double_mask : mask -> mask

  val double_pred_mask : positive -> mask

  val sub_mask : positive -> positive -> mask

  val sub_mask_carry : positive -> positive -> mask

  val mul : positive -> positive -> positive

  val compare_cont : comparison -> positive -> positive -> comparison

  val compare : positive -> positive -> comparison

  val eqb : positive -> positive -> bool

  val iter_op : ('a1 -> 'a1 -> 'a1) -> positive -> 'a1 -> 'a1

  val to_nat : positive -> nat

  val of_succ_nat : nat -> positive
 end

module N :
 sig
  val succ_double : n -> n

  val double : n -> n

  val add : n -> n -> n

  val sub : n -> n -> n

  val mul : n -> n -> n

  val compare : n -> n -> comparison

  val eqb : n -> n -> bool

  val leb : n -> n -> bool

  val ltb : n -> n -> bool

  val pos_div_eucl : positive -> n -> n * n

  val div_eucl : n -> n -> n * n

  val div : n -> n -> n

  val modulo : n -> n -> n

  val to_nat : n -> nat

  val of_nat : nat -> n
 end

module Z :
 sig
  val double : z -> z

  val succ_double : z -> z

  val pred_double : z -> z

  val pos_sub : positive -> positive -> z

  val add : z -> z -> z

  val opp : z -> z

  val sub : z -> z -> z

  val mul : z -> z -> z

  val compare : z -> z -> comparison

  val leb : z -> z -> bool

  val ltb : z -> z -> bool

  val to_nat : z -> nat

  val to_N : z -> n

  val of_nat : nat -> z

  val of_N : n -> z

  val pos_div_eucl : positive -> z -> z * z

  val div_eucl : z -> z -> z * z

  val div : z -> z -> z

  val modulo : z -> z -> z
 end

val tl : 'a1 list -> 'a1 list

val nth_error : 'a1 list -> nat -> 'a1 option

val rev : 'a1 list -> 'a1 list

val concat : 'a1 list list -> 'a1 list

val map : ('a1 -> 'a2) -> 'a1 list -> 'a2 list

val existsb : ('a1 -> bool) -> 'a1 list -> bool

val forallb : ('a1 -> bool) -> 'a1 list -> bool

val firstn : nat -> 'a1 list -> 'a1 list

val skipn : nat -> 'a1 list -> 'a1 list

type byte = n

val list_eqb : n list -> n list -> bool

val has_prefix : n list -> n list -> bool

val index_of : n list -> n list -> nat option

val contains : n list -> n list -> bool

val index_byte : n -> n list -> nat option

val escape_leader : n

val escape_base_json : (n list * n list) list

val escape_all_chars : n list

val escape_all_first_code : n

val osc52_prefix : n list

val osc52_terms : n list

val osc52_kind_c : n

val osc52_kind_p : n

val osc52_sep : n

val osc52_limit : n

val osc52_hdr_skip : n

val osc52_kind_len : n

val osc52_b64_ranges : (n * n) list

val drag_paste_probe : n list

val drag_paste_begin : n list

val drag_paste_end : n list

val drag_paste_minlen : n

val drag_quote : n

val drag_slash : n

val drag_space : n

val drag_min_len : n

val trace_enable_marker : n list

val trace_disable_marker : n list

val show_cursor_seq : n list

val hide_cursor_seq : n list

val drag_default_cmd : n list

val drag_dir_flag : n list

val drag_cmd_end : n list

val drag_interrupt_byte : n

val skip_trim_cutset : n list

val skip_echo_repl : n list

val vt100_esc : n

val vt100_end_ranges : (n * n) list

val leader : byte

type table = (byte * byte) list

val esc_code : table -> byte -> byte option

val unesc_code : table -> byte -> byte option

val escape : table -> byte list -> byte list

type ures =
| UOk of byte list * byte list
| UErr of byte

val ucons : byte -> ures -> ures

val unesc : table -> byte list -> nat -> ures

val unescape_data : table -> byte list -> nat -> ures

type rres =
| RData of byte list
| REof
| RErr of byte

val er_read :
  table -> byte list -> byte list list -> nat -> rres * (byte list * byte
  list list)

val next_size : nat list -> nat -> nat * nat list

type rend =
| EndEof of byte list
| EndErr of byte
| EndFuel

val er_run :
  nat -> table -> byte list -> byte list list -> nat list -> nat -> byte list
  list * rend

val er_fuel : byte list -> byte list list -> nat

val ew_write : table -> byte list list -> byte list list

val latin1 : n list -> byte list option

val table_of_json : n list list list -> table option

val escape_all_pairs : n list -> n -> n list list list

val builtin_json : bool -> n list list list

val builtin_table : bool -> table

type chunk = n list

type path = n list

type kind =
| KDir
| KRegular
| KOther

val in_ranges : (n * n) list -> n -> bool

val index_any : n list -> n list -> nat option

val replace_all_f : nat -> n list -> n list -> n list -> n list

val replace_all : n list -> n list -> n list -> n list

val trim_vt100_f : bool -> n list -> n list

val trim_vt100 : n list -> n list

val trim_right : n list -> n list -> n list

val osc52_bad_b64 : n list -> bool

val osc52_header : nat -> n list -> n list option

val osc52_loop :
  nat -> n list option -> n list -> n list list -> n list option * n list list

val detect_osc52 : n list option -> n list -> n list option * n list list

type dres = { d_files : (path list * bool) option; d_ignore : bool;
              d_win : bool }

val strip_paste : n list -> n list option

val next_linux_path : n list -> (path * nat) option

val file_path_ok : (path -> kind option) -> path -> bool option

val linux_loop :
  (path -> kind option) -> nat -> n list -> path list -> bool -> (path
  list * bool) option

val last_is : n -> n list -> bool

val detect_drag_files_on_linux :
  (path -> kind option) -> n list -> (path list * bool) option

val detect_drag_linux : (path -> kind option) -> n list -> dres

type opts = { o_drag : bool; o_trace : bool; o_zmodem : bool; o_osc52 : 
              bool; o_cmd : n list; o_cmd_not_trz : bool }

type dphase =
| DWait
| DInterrupt
| DCmd

type hphase =
| HChoosing
| HOwning

type haction =
| HIo of n list * n list
| HTakeDrag
| HRefuse
| HFailEarly
| HAccept
| HDone
| HError
| HStop
| HBackground

type obs =
| ToTerm of n list
| ToServer of n list
| Clip of n list

type ('dstate, 'zstate) state = { transfer : bool; zmodem : 'zstate option;
                                  prompt : bool; prompts : bool;
                                  trace_on : bool; interrupting : bool;
                                  skip_cmd : bool; cur_cmd : n list option;
                                  osc : n list option; detect_on : bool;
                                  dragging : bool; drag_has_dir : bool;
                                  drag_files : path list option;
                                  held : n list option; det : 'dstate;
                                  drag_procs : dphase list;
                                  handlers : hphase list }

val init : 'a1 -> ('a1, 'a2) state

val set_transfer : bool -> ('a1, 'a2) state -> ('a1, 'a2) state

val set_zmodem : 'a2 option -> ('a1, 'a2) state -> ('a1, 'a2) state

val set_prompt : bool -> ('a1, 'a2) state -> ('a1, 'a2) state

val set_prompts : bool -> ('a1, 'a2) state -> ('a1, 'a2) state

val set_trace_on : bool -> ('a1, 'a2) state -> ('a1, 'a2) state

val set_interrupting : bool -> ('a1, 'a2) state -> ('a1, 'a2) state

val set_skip_cmd : bool -> ('a1, 'a2) state -> ('a1, 'a2) state

val set_cur_cmd : n list option -> ('a1, 'a2) state -> ('a1, 'a2) state

val set_osc : n list option -> ('a1, 'a2) state -> ('a1, 'a2) state

val set_detect_on : bool -> ('a1, 'a2) state -> ('a1, 'a2) state

val set_drag :
  bool -> bool -> path list option -> ('a1, 'a2) state -> ('a1, 'a2) state

val set_held : n list option -> ('a1, 'a2) state -> ('a1, 'a2) state

val set_det : 'a1 -> ('a1, 'a2) state -> ('a1, 'a2) state

val set_drag_procs : dphase list -> ('a1, 'a2) state -> ('a1, 'a2) state

val set_handlers : hphase list -> ('a1, 'a2) state -> ('a1, 'a2) state

val reset_drag : ('a1, 'a2) state -> ('a1, 'a2) state

val add_drag : path list -> bool -> ('a1, 'a2) state -> ('a1, 'a2) state

val trace_log :
  n list -> n list -> opts -> ('a1, 'a2) state -> n list -> n list * ('a1,
  'a2) state

val drag_command : opts -> ('a1, 'a2) state -> n list

val out_forward :
  (n list -> bool) -> (n list -> 'a2) -> opts -> ('a1, 'a2) state -> obs list
  -> n list -> ('a1, 'a2) state * obs list

val out_detect :
  ('a1 -> n list -> (n list * 'a2 option) * 'a1) -> ('a2 -> bool) -> (n list
  -> bool) -> (n list -> 'a3) -> opts -> ('a1, 'a3) state -> obs list -> n
  list -> ('a1, 'a3) state * obs list

val out_zmodem :
  ('a2 -> n list -> bool * 'a2) -> opts -> ('a1, 'a2) state -> n list ->
  (('a1, 'a2) state, ('a1, 'a2) state * obs list) sum

val out_step :
  ('a1 -> n list -> (n list * 'a2 option) * 'a1) -> ('a2 -> bool) -> (n list
  -> bool) -> (n list -> 'a3) -> ('a3 -> n list -> bool * 'a3) -> n list -> n
  list -> opts -> ('a1, 'a3) state -> n list -> ('a1, 'a3) state * obs list

val drag_verdict :
  (n list -> dres) -> bool -> ('a1, 'a2) state -> n list -> ('a1, 'a2)
  state * obs list

val in_step :
  ('a2 -> bool) -> ('a2 -> 'a2) -> (n list -> dres) -> (n list -> bool) ->
  opts -> ('a1, 'a2) state -> n list -> ('a1, 'a2) state * obs list

val hold_timer :
  (n list -> dres) -> ('a1, 'a2) state -> ('a1, 'a2) state * obs list

val remove_nth : nat -> 'a1 list -> 'a1 list

val set_nth : nat -> 'a1 -> 'a1 list -> 'a1 list

val drag_step : opts -> ('a1, 'a2) state -> nat -> ('a1, 'a2) state * obs list

val handler_exit : ('a1, 'a2) state -> nat -> hphase -> ('a1, 'a2) state

val handler_step :
  ('a1, 'a2) state -> nat -> haction -> ('a1, 'a2) state * obs list

type 'zstate event =
| EvOut of chunk
| EvIn of chunk
| EvDetectOn
| EvHoldTimer
| EvDrag of nat
| EvHandler of nat * haction
| EvPromptEnd
| EvZmodem of 'zstate

val step :
  ('a1 -> n list -> (n list * 'a2 option) * 'a1) -> ('a2 -> bool) -> (n list
  -> bool) -> (n list -> 'a3) -> ('a3 -> n list -> bool * 'a3) -> ('a3 ->
  bool) -> ('a3 -> 'a3) -> (n list -> dres) -> n list -> n list -> (n list ->
  bool) -> opts -> ('a1, 'a3) state -> 'a3 event -> ('a1, 'a3) state * obs
  list

val run :
  ('a1 -> n list -> (n list * 'a2 option) * 'a1) -> ('a2 -> bool) -> (n list
  -> bool) -> (n list -> 'a3) -> ('a3 -> n list -> bool * 'a3) -> ('a3 ->
  bool) -> ('a3 -> 'a3) -> (n list -> dres) -> n list -> n list -> (n list ->
  bool) -> opts -> ('a1, 'a3) state -> 'a3 event list -> ('a1, 'a3)
  state * obs list

val silent_detect : unit -> n list -> (n list * unit option) * unit

val corr_run :
  (path -> kind option) -> (n list -> bool) -> n list -> n list -> opts ->
  bool -> unit event list -> obs list
