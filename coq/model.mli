
val negb : bool -> bool

type nat =
| O
| S of nat

val fst : ('a1 * 'a2) -> 'a1

val snd : ('a1 * 'a2) -> 'a2

val length : 'a1 list -> nat

val app : 'a1 list -> 'a1 list -> 'a1 list

type comparison =
| Eq
| Lt
| Gt

val compOpp : comparison -> comparison

val add : nat -> nat -> nat

type positive =
| XI of positive
| XO of positive
| XH

type n =
| N0
| Npos of positive

type z =
| Z0
| Zpos of positive
| Zneg of positive

module Nat :
 sig
  val eqb : nat -> nat -> bool

  val leb : nat -> nat -> bool

  val ltb : nat -> nat -> bool
 end

module Pos :
 sig
  type mask =
  | IsNul
  | IsPos of positive
  | IsNeg
 end

module Coq_Pos :
 sig
  val succ : positive -> positive

  val add : positive -> positive -> positive

  val add_carry : positive -> positive -> positive

  val pred_double : positive -> positive

  type mask = Pos.mask =
  | IsNul
  | IsPos of positive
  | IsNeg

  val succ_double_mask : mask -> mask

  val double_mask : mask -> mask

  val double_pred_mask : positive -> mask

  val sub_mask : positive -> positive -> mask

  val sub_mask_carry : positive -> positive -> mask

  val mul : positive -> positive -> positive

  val compare_cont : comparison -> positive -> positive -> comparison

  val compare : positive -> positive -> comparison

  val eqb : positive -> positive -> bool

  val iter_op : ('a1 -> 'a1 -> 'a1) -> positive -> 'a1 -> 'a1

  val to_nat : positive -> nat

  val of_succ_nat : nat -> positive
 end

module N :
 sig
  val succ_double : n -> n

  val double : n -> n

  val add : n -> n -> n

  val sub : n -> n -> n

  val mul : n -> n -> n

  val compare : n -> n -> comparison

  val eqb : n -> n -> bool

  val leb : n -> n -> bool

  val ltb : n -> n -> bool

  val pos_div_eucl : positive -> n -> n * n

  val div_eucl : n -> n -> n * n

  val div : n -> n -> n

  val modulo : n -> n -> n

  val to_nat : n -> nat

  val of_nat : nat -> n
 end

module Z :
 sig
  val double : z -> z

  val succ_double : z -> z

  val pred_double : z -> z

  val pos_sub : positive -> positive -> z

  val add : z -> z -> z

  val opp : z -> z

  val sub : z -> z -> z

  val mul : z -> z -> z

  val compare : z -> z -> comparison

  val leb : z -> z -> bool

  val ltb : z -> z -> bool

  val to_nat : z -> nat

  val to_N : z -> n

  val of_nat : nat -> z

  val of_N : n -> z

  val pos_div_eucl : positive -> z -> z * z

  val div_eucl : z -> z -> z * z

  val div : z -> z -> z

  val modulo : z -> z -> z
 end

val nth : nat -> 'a1 list -> 'a1 -> 'a1

val concat : 'a1 list list -> 'a1 list

val map : ('a1 -> 'a2) -> 'a1 list -> 'a2 list

val flat_map : ('a1 -> 'a2 list) -> 'a1 list -> 'a2 list

val fold_right : ('a2 -> 'a1 -> 'a1) -> 'a1 -> 'a2 list -> 'a1

val existsb : ('a1 -> bool) -> 'a1 list -> bool

val forallb : ('a1 -> bool) -> 'a1 list -> bool

val filter : ('a1 -> bool) -> 'a1 list -> 'a1 list

val seq : nat -> nat -> nat list

val list_sum : nat list -> nat

type byte = n

val escape_leader : n

val escape_base_json : (n list * n list) list

val escape_all_chars : n list

val escape_all_first_code : n

val leader : byte

type table = (byte * byte) list

val esc_code : table -> byte -> byte option

val unesc_code : table -> byte -> byte option

val escape : table -> byte list -> byte list

type ures =
| UOk of byte list * byte list
| UErr of byte

val ucons : byte -> ures -> ures

val unesc : table -> byte list -> nat -> ures

val unescape_data : table -> byte list -> nat -> ures

type rres =
| RData of byte list
| REof
| RErr of byte

val er_read :
  table -> byte list -> byte list list -> nat -> rres * (byte list * byte
  list list)

val next_size : nat list -> nat -> nat * nat list

type rend =
| EndEof of byte list
| EndErr of byte
| EndFuel

val er_run :
  nat -> table -> byte list -> byte list list -> nat list -> nat -> byte list
  list * rend

val er_fuel : byte list -> byte list list -> nat

val ew_write : table -> byte list list -> byte list list

val latin1 : n list -> byte list option

val table_of_json : n list list list -> table option

val escape_all_pairs : n list -> n -> n list list list

val builtin_json : bool -> n list list list

val builtin_table : bool -> table

type chan = nat

type pid = nat

type wgid = nat

type alt =
| SendAlt of chan
| RecvAlt of chan
| DoneAlt
| TimerAlt
| DefaultAlt

type iokind =
| RecvLine
| WriteWire
| PauseGate
| FileIO
| Unknown

type stmt =
| Sel of (alt * stmt list) list
| Io of iokind
| Cancel
| IfCtxExit
| Return
| RecvClose of chan
| SendOnce of chan
| Join of pid
| WgWait of wgid
| WgAdd of wgid
| WgDone of wgid
| Branch of stmt list * stmt list
| LoopCtx of stmt list
| LoopRange of chan * stmt list
| LoopData of stmt list

type proc = { body : stmt list; finally : stmt list; defer_close : chan list;
              exit_cancel : bool; rank : nat }

type net = { procs_of : proc list; caps : nat list; senders : pid option list }

val noproc : proc

val info : net -> pid -> proc

val nprocs : net -> nat

val capof : net -> chan -> nat

val sender : net -> chan -> pid option

val exitsS : stmt -> bool

val exitsL : stmt list -> bool

type condition =
| W1
| W2
| W3
| W4
| W5

val is_wake : alt -> bool

val has_wake : (alt * stmt list) list -> bool

val opt_pid_eqb : pid option -> pid option -> bool

val closer_ok : net -> pid -> chan -> bool

val alt_ok : net -> alt -> bool

val check : net -> pid -> bool -> stmt -> condition option

val checkb : net -> pid -> bool -> stmt -> bool

val okS : net -> pid -> bool -> stmt -> bool

val okL : net -> pid -> bool -> stmt list -> bool

val violS : net -> pid -> bool -> stmt -> ((pid * stmt) * condition) list

val violL : net -> pid -> bool -> stmt list -> ((pid * stmt) * condition) list

val ok_proc : net -> pid -> bool

val nodupb : nat list -> bool

val closers_unique : net -> bool

val wf : net -> bool

val wf_violations : net -> ((pid * stmt) * condition) list

val flatS : stmt -> stmt list

val flatL : stmt list -> stmt list

val all_stmts : proc -> stmt list

val is_range : stmt -> bool

val count : (stmt -> bool) -> stmt list -> nat

val net_counts : net -> nat list

val wg_bufInitWG : wgid

val ch_send_sendFileDataV2_0 : chan

val ch_send_ReadData_0 : chan

val ch_send_ReadData_1 : chan

val ch_send_CalculateMD5_0 : chan

val ch_send_EncodeData_0 : chan

val ch_send_SendData_0 : chan

val ch_send_RecvAck_0 : chan

val p_send_CalculateMD5 : pid

val p_send_RecvAck : pid

val p_send_ShowProgress : pid

val send_ReadData_body : stmt list

val send_ReadData_finally : stmt list

val send_ReadData_proc : proc

val send_CalculateMD5_body : stmt list

val send_CalculateMD5_finally : stmt list

val send_CalculateMD5_proc : proc

val send_EncodeData_body : stmt list

val send_EncodeData_finally : stmt list

val send_EncodeData_proc : proc

val send_SendData_body : stmt list

val send_SendData_finally : stmt list

val send_SendData_proc : proc

val send_RecvAck_body : stmt list

val send_RecvAck_finally : stmt list

val send_RecvAck_proc : proc

val send_ShowProgress_body : stmt list

val send_ShowProgress_finally : stmt list

val send_ShowProgress_proc : proc

val send_main_body : stmt list

val send_main_finally : stmt list

val send_main_proc : proc

val send_net : net

val ch_recv_recvFileDataV2_0 : chan

val ch_recv_RecvData_0 : chan

val ch_recv_RecvData_1 : chan

val ch_recv_SendAck_0 : chan

val ch_recv_DecodeData_0 : chan

val ch_recv_DecodeData_1 : chan

val ch_recv_CalculateMD5_0 : chan

val ch_recv_SaveData_0 : chan

val p_recv_SendAck : pid

val p_recv_CalculateMD5 : pid

val p_recv_SaveData : pid

val p_recv_ShowProgress : pid

val recv_RecvData_body : stmt list

val recv_RecvData_finally : stmt list

val recv_RecvData_proc : proc

val recv_SendAck_body : stmt list

val recv_SendAck_finally : stmt list

val recv_SendAck_proc : proc

val recv_DecodeData_body : stmt list

val recv_DecodeData_finally : stmt list

val recv_DecodeData_proc : proc

val recv_CalculateMD5_body : stmt list

val recv_CalculateMD5_finally : stmt list

val recv_CalculateMD5_proc : proc

val recv_SaveData_body : stmt list

val recv_SaveData_finally : stmt list

val recv_SaveData_proc : proc

val recv_ShowProgress_body : stmt list

val recv_ShowProgress_finally : stmt list

val recv_ShowProgress_proc : proc

val recv_main_body : stmt list

val recv_main_finally : stmt list

val recv_main_proc : proc

val recv_net : net

val ch_hash_RecvHashAck_0 : chan

val p_hash_SendHash : pid

val p_hash_RecvHashAck : pid

val hash_SendHash_body : stmt list

val hash_SendHash_finally : stmt list

val hash_SendHash_proc : proc

val hash_RecvHashAck_body : stmt list

val hash_RecvHashAck_finally : stmt list

val hash_RecvHashAck_proc : proc

val hash_main_body : stmt list

val hash_main_finally : stmt list

val hash_main_proc : proc

val hash_net : net
