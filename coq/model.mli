
val negb : bool -> bool

type nat =
| O
| S of nat

val fst : ('a1 * 'a2) -> 'a1

val snd : ('a1 * 'a2) -> 'a2

val length : 'a1 list -> nat

val app : 'a1 list -> 'a1 list -> 'a1 list

type comparison =
| Eq
| Lt
| Gt

val compOpp : comparison -> comparison

val add : nat -> nat -> nat

type positive =
| XI of positive
| XO of positive
| XH

type n =
| N0
| Npos of positive

type z =
| Z0
| Zpos of positive
| Zneg of positive

module Nat :
 sig
  val leb : nat -> nat -> bool
 end

module Pos :
 sig
  type mask =
  | IsNul
  | IsPos of positive
  | IsNeg
 end

module Coq_Pos :
 sig
  val succ : positive -> positive

  val add : positive -> positive -> positive

  val add_carry : positive -> positive -> positive

  val pred_double : positive -> positive

  type mask = Pos.mask =
  | IsNul
  | IsPos of positive
  | IsNeg

  val succ_double_mask : mask -> mask

  val double_mask : mask -> mask

  val double_pred_mask : positive -> mask

  val sub_mask : positive -> positive -> mask

  val sub_mask_carry : positive -> positive -> mask

  val mul : positive -> positive -> positive

  val size : positive -> positive

  val compare_cont : comparison -> positive -> positive -> comparison

  val compare : positive -> positive -> comparison

  val eqb : positive -> positive -> bool

  val iter_op : ('a1 -> 'a1 -> 'a1) -> positive -> 'a1 -> 'a1

  val to_nat : positive -> nat

  val of_succ_nat : nat -> positive
 end

module N :
 sig
  val succ_double : n -> n

  val double : n -> n

  val add : n -> n -> n

  val sub : n -> n -> n

  val mul : n -> n -> n

  val compare : n -> n -> comparison

  val eqb : n -> n -> bool

  val leb : n -> n -> bool

  val ltb : n -> n -> bool

  val log2 : n -> n

  val pos_div_eucl : positive -> n -> n * n

  val div_eucl : n -> n -> n * n

  val div : n -> n -> n

  val modulo : n -> n -> n

  val to_nat : n -> nat

  val of_nat : nat -> n
 end

module Z :
 sig
  val double : z -> z

  val succ_double : z -> z

  val pred_double : z -> z

  val pos_sub : positive -> positive -> z

  val add : z -> z -> z

  val opp : z -> z

  val sub : z -> z -> z

  val mul : z -> z -> z

  val compare : z -> z -> comparison

  val leb : z -> z -> bool

  val ltb : z -> z -> bool

  val to_nat : z -> nat

  val to_N : z -> n

  val of_nat : nat -> z

  val of_N : n -> z

  val pos_div_eucl : positive -> z -> z * z

  val div_eucl : z -> z -> z * z

  val div : z -> z -> z

  val modulo : z -> z -> z
 end

val nth : nat -> 'a1 list -> 'a1 -> 'a1

val rev : 'a1 list -> 'a1 list

val concat : 'a1 list list -> 'a1 list

val map : ('a1 -> 'a2) -> 'a1 list -> 'a2 list

val existsb : ('a1 -> bool) -> 'a1 list -> bool

val forallb : ('a1 -> bool) -> 'a1 list -> bool

val filter : ('a1 -> bool) -> 'a1 list -> 'a1 list

val firstn : nat -> 'a1 list -> 'a1 list

val skipn : nat -> 'a1 list -> 'a1 list

type byte = n

val lF : byte

val cR : byte

val list_eqb : n list -> n list -> bool

val is_digit : n -> bool

val b64_alphabet : byte list

val b64_pad : byte

val b64_char : n -> byte

val b64_index_from : byte list -> n -> byte -> n option

val b64_index : byte -> n option

val is_b64_byte : byte -> bool

val b64_enc3 : byte -> byte -> byte -> byte list

val b64_groups : byte list -> byte list * byte list

val b64_tail : byte list -> byte list

val b64_encode : byte list -> byte list

val b64_writer_go : byte list -> byte list list -> byte list list * byte list

val b64_writer : byte list list -> byte list list * byte list

val is_newline : byte -> bool

val b64_dec4 : n -> n -> n -> n -> byte list

val is_nil : 'a1 list -> bool

val b64_quanta : byte list -> byte list option

val b64_strip : byte list -> byte list

val b64_decode : byte list -> byte list option

val escape_leader : n

val escape_base_json : (n list * n list) list

val escape_all_chars : n list

val escape_all_first_code : n

val trzsz_letter_ranges : (n * n) list

val trzsz_letter_chars : n list

val send_line_format : n list

val deliver_data_prefix : n list

val data_v2_binary_format : n list

val data_v2_base64_prefix : n list

val data_v1_binary_format : n list

val pause_line_format : n list

val ack_line_format : n list

val leader : byte

type table = (byte * byte) list

val esc_code : table -> byte -> byte option

val unesc_code : table -> byte -> byte option

val escape : table -> byte list -> byte list

type ures =
| UOk of byte list * byte list
| UErr of byte

val ucons : byte -> ures -> ures

val unesc : table -> byte list -> nat -> ures

val unescape_data : table -> byte list -> nat -> ures

type rres =
| RData of byte list
| REof
| RErr of byte

val er_read :
  table -> byte list -> byte list list -> nat -> rres * (byte list * byte
  list list)

val next_size : nat list -> nat -> nat * nat list

type rend =
| EndEof of byte list
| EndErr of byte
| EndFuel

val er_run :
  nat -> table -> byte list -> byte list list -> nat list -> nat -> byte list
  list * rend

val er_fuel : byte list -> byte list list -> nat

val ew_write : table -> byte list list -> byte list list

val latin1 : n list -> byte list option

val table_of_json : n list list list -> table option

val escape_all_pairs : n list -> n -> n list list list

val builtin_json : bool -> n list list list

val builtin_table : bool -> table

val wire_letter : byte -> bool

val wire_fmt : byte list -> byte list list -> byte list

val wire_dec_go : nat -> n -> byte list -> byte list

val wire_dec : n -> byte list

val wire_undec_go : n -> byte list -> n option

val wire_undec : byte list -> n option

val wire_line : byte list -> byte list -> byte list -> byte list

val wire_int_line : byte list -> n -> byte list -> byte list

val wire_pause_line : byte list -> byte list -> byte list

val wire_ack_line : n -> n -> byte list -> byte list

val wire_data_frame : bool -> byte list -> byte list -> byte list

val wire_data_piece : bool -> byte list -> byte list -> byte list

val wire_frames_go :
  byte list -> byte list -> nat -> nat list -> nat -> byte list list

val wire_frames : nat list -> nat -> byte list -> byte list list

val wire_resplit :
  byte list list -> nat list -> nat -> (bool * byte list) list

val wire_render_piece : bool -> byte list -> (bool * byte list) -> byte list

val wire_split_lf : byte list -> (byte list * byte list) option

val wire_split_colon : byte list -> (byte list * byte list) option

val wire_check : byte list -> byte list -> byte list option

val wire_DATA : byte list

val wire_recv :
  nat -> bool -> byte list -> (byte list list * byte list) option

val wire_encode_bytes : (byte list -> byte list) -> byte list -> byte list

val wire_decode_string :
  (byte list -> byte list option) -> byte list -> byte list option

val wire_v1_chunk :
  (byte list -> byte list) -> bool -> table -> byte list -> byte list -> byte
  list

val wire_v1_decode :
  (byte list -> byte list option) -> bool -> table -> byte list -> byte list
  option

val wire_v1_recv :
  (byte list -> byte list option) -> bool -> table -> byte list -> (byte
  list * byte list) option
