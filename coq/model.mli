
val negb : bool -> bool

type nat =
| O
| S of nat

val option_map : ('a1 -> 'a2) -> 'a1 option -> 'a2 option

val fst : ('a1 * 'a2) -> 'a1

val snd : ('a1 * 'a2) -> 'a2

val length : 'a1 list -> nat

val app : 'a1 list -> 'a1 list -> 'a1 list

type comparison =
| Eq
| Lt
| Gt

val compOpp : comparison -> comparison

val pred : nat -> nat

val add : nat -> nat -> nat

val mul : nat -> nat -> nat

val sub : nat -> nat -> nat

type positive =
| XI of positive
| XO of positive
| XH

type n =
| N0
| Npos of positive

type z =
| Z0
| Zpos of positive
| Zneg of positive

module Nat :
 sig
  val eqb : nat -> nat -> bool

  val leb : nat -> nat -> bool

  val ltb : nat -> nat -> bool

  val min : nat -> nat -> nat
 end

module Pos :
 sig
  type mask =
  | IsNul
  | IsPos of positive
  | IsNeg
 end

module Coq_Pos :
 sig
  val succ : positive -> positive

  val add : positive -> positive -> positive

  val add_carry : positive -> positive -> positive

  val pred_double : positive -> positive

  type mask = Pos.mask =
  | IsNul
  | IsPos of positive
  | IsNeg

  val succ_double_mask : mask -> mask

  val double_mask : mask -> mask

  val double_pred_mask : positive -> mask

  val sub_mask : positive -> positive -> mask

  val sub_mask_carry : positive -> positive -> mask

  val mul : positive -> positive -> positive

  val compare_cont : comparison -> positive -> positive -> comparison

  val compare : positive -> positive -> comparison

  val eqb : positive -> positive -> bool

  val iter_op : ('a1 -> 'a1 -> 'a1) -> positive -> 'a1 -> 'a1

  val to_nat : positive -> nat

  val of_succ_nat : nat -> positive
 end

module N :
 sig
  val succ_double : n -> n

  val double : n -> n

  val add : n -> n -> n

  val sub : n -> n -> n

  val mul : n -> n -> n

  val compare : n -> n -> comparison

  val eqb : n -> n -> bool

  val leb : n -> n -> bool

  val ltb : n -> n -> bool

  val pos_div_eucl : positive -> n -> n * n

  val div_eucl : n -> n -> n * n

  val div : n -> n -> n

  val modulo : n -> n -> n

  val to_nat : n -> nat

  val of_nat : nat -> n
 end

module Z :
 sig
  val double : z -> z

  val succ_double : z -> z

  val pred_double : z -> z

  val pos_sub : positive -> positive -> z

  val add : z -> z -> z

  val opp : z -> z

  val sub : z -> z -> z

  val mul : z -> z -> z

  val compare : z -> z -> comparison

  val leb : z -> z -> bool

  val ltb : z -> z -> bool

  val eqb : z -> z -> bool

  val to_nat : z -> nat

  val to_N : z -> n

  val of_nat : nat -> z

  val of_N : n -> z

  val pos_div_eucl : positive -> z -> z * z

  val div_eucl : z -> z -> z * z

  val div : z -> z -> z

  val modulo : z -> z -> z
 end

val concat : 'a1 list list -> 'a1 list

val map : ('a1 -> 'a2) -> 'a1 list -> 'a2 list

val forallb : ('a1 -> bool) -> 'a1 list -> bool

val firstn : nat -> 'a1 list -> 'a1 list

val skipn : nat -> 'a1 list -> 'a1 list

val repeat : 'a1 -> nat -> 'a1 list

type byte = n

val list_eqb : n list -> n list -> bool

val escape_leader : n

val escape_base_json : (n list * n list) list

val escape_all_chars : n list

val escape_all_first_code : n

val resume_min_protocol : n

val resume_v3_truncate : bool

val resume_v2_truncate : bool

val leader : byte

type table = (byte * byte) list

val esc_code : table -> byte -> byte option

val unesc_code : table -> byte -> byte option

val escape : table -> byte list -> byte list

type ures =
| UOk of byte list * byte list
| UErr of byte

val ucons : byte -> ures -> ures

val unesc : table -> byte list -> nat -> ures

val unescape_data : table -> byte list -> nat -> ures

type rres =
| RData of byte list
| REof
| RErr of byte

val er_read :
  table -> byte list -> byte list list -> nat -> rres * (byte list * byte
  list list)

val next_size : nat list -> nat -> nat * nat list

type rend =
| EndEof of byte list
| EndErr of byte
| EndFuel

val er_run :
  nat -> table -> byte list -> byte list list -> nat list -> nat -> byte list
  list * rend

val er_fuel : byte list -> byte list list -> nat

val ew_write : table -> byte list list -> byte list list

val latin1 : n list -> byte list option

val table_of_json : n list list list -> table option

val escape_all_pairs : n list -> n -> n list list list

val builtin_json : bool -> n list list list

val builtin_table : bool -> table

type digest = n list

type hmsg =
| Hash of z * digest
| Over

type ack = { a_step : z; a_match : bool }

type file = { f_data : byte list; f_off : nat }

val f_write : file -> byte list -> file

val f_seek : file -> nat -> file

val f_truncate : file -> nat -> file

val bn : n -> nat

val send_hashes :
  n -> (byte list -> digest) -> nat -> nat option -> byte list -> nat -> nat
  -> byte list -> hmsg list option

type rstate = { r_match : bool; r_mstep : z; r_fed : byte list; r_off : 
                nat; r_acks : ack list }

val r_init : rstate

type rout =
| ROver of rstate
| RBlocked of rstate
| RPanic of rstate * z
| RReadErr of rstate * z

val recv_hashes :
  (byte list -> digest) -> byte list -> hmsg list -> rstate -> rout

type sres =
| SDone of z
| SErr of z
| SBlocked

val recv_acks : z -> ack list -> z -> sres

type outcome = { o_hashes : hmsg list; o_acks : ack list; o_mrecv : z;
                 o_msend : z; o_sent : byte list; o_final : byte list }

type result =
| Done of outcome
| SenderBlocked of hmsg list * ack list
| SenderErr of z
| RecvFail of rout
| OutOfFuel

val opened : n -> byte list -> byte list

val no_exchange : byte list -> byte list -> result

val run :
  n -> (byte list -> digest) -> n -> nat option -> byte list -> byte list ->
  result

val block_end : n -> nat -> nat -> nat

val good_blocks :
  n -> (byte list -> digest) -> nat -> byte list -> byte list -> nat -> nat
  -> nat

val agreed : n -> (byte list -> digest) -> byte list -> byte list -> nat

val abs_nblocks : n -> n -> n

val abs_agreed : n -> n -> n -> n

val abs_good : n -> n -> n -> n

val abs_nacks : n -> n -> n -> n

val abs_stops_ok : n -> n -> n -> n -> bool

val run_id : n -> n -> nat option -> byte list -> byte list -> result

val agreed_id : n -> byte list -> byte list -> nat
