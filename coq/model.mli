
val negb : bool -> bool

type nat =
| O
| S of nat

val fst : ('a1 * 'a2) -> 'a1

val snd : ('a1 * 'a2) -> 'a2

val length : 'a1 list -> nat

val app : 'a1 list -> 'a1 list -> 'a1 list

type comparison =
| Eq
| Lt
| Gt

val compOpp : comparison -> comparison

val add : nat -> nat -> nat

val mul : nat -> nat -> nat

val sub : nat -> nat -> nat

type positive =
| XI of positive
| XO of positive
| XH

type n =
| N0
| Npos of positive

type z =
| Z0
| Zpos of positive
| Zneg of positive

module Nat :
 sig
  val leb : nat -> nat -> bool

  val min : nat -> nat -> nat
 end

module Pos :
 sig
  type mask =
  | IsNul
  | IsPos of positive
  | IsNeg
 end

module Coq_Pos :
 sig
  val succ : positive -> positive

  val add : positive -> positive -> positive

  val add_carry : positive -> positive -> positive

  val pred_double : positive -> positive

  type mask = Pos.mask =
  | IsNul
  | IsPos of positive
  | IsNeg

  val succ_double_mask : mask -> mask

  val double_mask : mask -> mask

  val double_pred_mask : positive -> mask

  val sub_mask : positive -> positive -> mask

  val sub_mask_carry : positive -> positive -> mask

  val mul : positive -> positive -> positive

  val size_nat : positive -> nat

  val compare_cont : comparison -> positive -> positive -> comparison

  val compare : positive -> positive -> comparison

  val eqb : positive -> positive -> bool

  val iter_op : ('a1 -> 'a1 -> 'a1) -> positive -> 'a1 -> 'a1

  val to_nat : positive -> nat

  val of_succ_nat : nat -> positive
 end

module N :
 sig
  val succ_double : n -> n

  val double : n -> n

  val add : n -> n -> n

  val sub : n -> n -> n

  val mul : n -> n -> n

  val compare : n -> n -> comparison

  val eqb : n -> n -> bool

  val leb : n -> n -> bool

  val ltb : n -> n -> bool

  val size_nat : n -> nat

  val pos_div_eucl : positive -> n -> n * n

  val div_eucl : n -> n -> n * n

  val div : n -> n -> n

  val modulo : n -> n -> n

  val to_nat : n -> nat

  val of_nat : nat -> n
 end

module Z :
 sig
  val double : z -> z

  val succ_double : z -> z

  val pred_double : z -> z

  val pos_sub : positive -> positive -> z

  val add : z -> z -> z

  val opp : z -> z

  val sub : z -> z -> z

  val mul : z -> z -> z

  val compare : z -> z -> comparison

  val leb : z -> z -> bool

  val ltb : z -> z -> bool

  val to_nat : z -> nat

  val to_N : z -> n

  val of_nat : nat -> z

  val of_N : n -> z

  val pos_div_eucl : positive -> z -> z * z

  val div_eucl : z -> z -> z * z

  val div : z -> z -> z

  val modulo : z -> z -> z
 end

val nth_error : 'a1 list -> nat -> 'a1 option

val concat : 'a1 list list -> 'a1 list

val map : ('a1 -> 'a2) -> 'a1 list -> 'a2 list

val fold_left : ('a1 -> 'a2 -> 'a1) -> 'a2 list -> 'a1 -> 'a1

val forallb : ('a1 -> bool) -> 'a1 list -> bool

val filter : ('a1 -> bool) -> 'a1 list -> 'a1 list

val firstn : nat -> 'a1 list -> 'a1 list

val skipn : nat -> 'a1 list -> 'a1 list

val seq : nat -> nat -> nat list

type byte = n

val list_eqb : n list -> n list -> bool

val escape_leader : n

val escape_base_json : (n list * n list) list

val escape_all_chars : n list

val escape_all_first_code : n

val tunnel_uid_cut_if_longer : n

val tunnel_uid_cut : n

val tunnel_client_hello_fmt : n list

val tunnel_server_hello_fmt : n list

val tunnel_hello_read_size : n

val tunnel_reply_read_size : n

val tunnel_pump_bufsize : n

val leader : byte

type table = (byte * byte) list

val esc_code : table -> byte -> byte option

val unesc_code : table -> byte -> byte option

val escape : table -> byte list -> byte list

type ures =
| UOk of byte list * byte list
| UErr of byte

val ucons : byte -> ures -> ures

val unesc : table -> byte list -> nat -> ures

val unescape_data : table -> byte list -> nat -> ures

type rres =
| RData of byte list
| REof
| RErr of byte

val er_read :
  table -> byte list -> byte list list -> nat -> rres * (byte list * byte
  list list)

val next_size : nat list -> nat -> nat * nat list

type rend =
| EndEof of byte list
| EndErr of byte
| EndFuel

val er_run :
  nat -> table -> byte list -> byte list list -> nat list -> nat -> byte list
  list * rend

val er_fuel : byte list -> byte list list -> nat

val ew_write : table -> byte list list -> byte list list

val latin1 : n list -> byte list option

val table_of_json : n list list list -> table option

val escape_all_pairs : n list -> n -> n list list list

val builtin_json : bool -> n list list list

val builtin_table : bool -> table

val dec_fuel : nat -> n -> n list -> n list

val dec_N : n -> n list

val dec_Z : z -> n list

type farg =
| FStr of n list
| FInt of z

val sprintf : n list -> farg list -> n list

val cut_uid : n list -> n list

val client_hello : n list -> z -> n list

val server_hello : n list -> z -> n list

val hello_matches : n list -> n list -> bool

type pev =
| PWrite of n list
| PClose

type src =
| SrcInband
| SrcConn of nat

type hpc =
| HRefused
| HPending
| HAccepted
| HRead
| HCompare of n list option
| HReply
| HCas
| HPumpStart
| HCloseListener
| HDone

type conn = { k_script : pev list; k_rx : n list; k_eof : bool; k_pc : 
              hpc; k_first : n list option; k_tx : n list; k_closed : 
              bool; k_won : bool; k_pump : bool }

val k_first : conn -> n list option

val k_tx : conn -> n list

val k_closed : conn -> bool

val k_won : conn -> bool

val k_pump : conn -> bool

val new_conn : pev list -> hpc -> conn

val set_pc : hpc -> conn -> conn

val set_closed : conn -> conn

val set_rx : n list -> conn -> conn

val upd : nat -> ('a1 -> 'a1) -> 'a1 list -> 'a1 list

val peer_step : conn -> conn option

type apc =
| AAccept
| ACheck of nat
| ADone

type actst =
| ActWaiting
| ActOk
| ActErr

type sstate = { s_conns : conn list; s_lis : bool; s_apc : apc;
                s_tconn : nat option; s_tconnected : bool;
                s_writer : nat option; s_act : actst;
                s_inbuf : (src * n list) list; s_dropped : n list list }

val s_conns : sstate -> conn list

val s_lis : sstate -> bool

val s_tconn : sstate -> nat option

val s_tconnected : sstate -> bool

val s_writer : sstate -> nat option

val s_act : sstate -> actst

val s_inbuf : sstate -> (src * n list) list

val s_dropped : sstate -> n list list

val s_init : sstate

val with_conns : sstate -> conn list -> sstate

type slabel =
| LConnect of pev list
| LPeer of nat
| LAccept of nat
| LAcceptErr
| LCheck
| LHandler of nat
| LWriteFail of nat
| LPump of nat * nat
| LInband of n list
| LAct of bool
| LCleanup

val add_received :
  bool -> src -> n list -> (src * n list) list -> n list list -> (src * n
  list) list * n list list

val sstep : n list -> n list -> sstate -> slabel -> sstate option

type kpc =
| KCall
| KChk
| KWrite
| KRead
| KCmp of n list option
| KSend
| KDone

type spc =
| SSelect
| SStore
| SPump
| SDone

type mpc =
| MWait
| MLoad
| MSent of bool

type cstate = { c_conn : conn option; c_kpc : kpc; c_chan : bool option;
                c_spc : spc; c_timer : bool; c_timedout : bool;
                c_wg_done : bool; c_mpc : mpc; c_tconn : bool;
                c_tconnected : bool; c_writer_tunnel : bool; c_pump : 
                bool; c_inbuf : (src * n list) list; c_dropped : n list list }

val c_init : cstate

type clabel =
| CConnector of pev list option
| CK of bool * bool
| CPeer
| CTimer
| CSelChan
| CSelTimer
| CS
| CMain
| CPumpRead of nat
| CInband of n list
| CCleanup

val cset : cstate -> conn option -> kpc -> bool option -> cstate

val cgive_up : cstate -> conn -> cstate

val cstep : n list -> n list -> cstate -> clabel -> cstate option

val first_some : (nat -> 'a1 option) -> nat list -> 'a1 option

val pending_idx : sstate -> nat list

val sched_once : n list -> n list -> sstate -> sstate option

val settle_fuel : sstate -> nat

type cobs =
| ObsRefused
| ObsOpenSilent
| ObsClosedSilent
| ObsReplied of n list * bool

val observe : conn -> cobs

type coutcome =
| CoNil
| CoConn of bool * bool * n list option

val client_labels : coutcome -> clabel list

val crun_skip : n list -> n list -> cstate -> clabel list -> cstate

val client_decides : n list -> z -> coutcome -> bool option

type rev =
| RConnect
| RWrite of nat * n list
| RClose of nat
| RInband of n list
| RAct of bool
| RCleanup

val pump_all : n list -> n list -> sstate -> nat -> sstate option

val rsched_once : n list -> n list -> sstate -> sstate option

val rsettle : nat -> n list -> n list -> sstate -> sstate

val push_script : nat -> pev -> sstate -> sstate

val or_same : sstate -> sstate option -> sstate

val rapply : n list -> n list -> sstate -> rev -> sstate

val rreplay : n list -> z -> rev list -> sstate
