
val negb : bool -> bool

type nat =
| O
| S of nat

val fst : ('a1 * 'a2) -> 'a1

val snd : ('a1 * 'a2) -> 'a2

val length : 'a1 list -> nat

val app : 'a1 list -> 'a1 list -> 'a1 list

type comparison =
| Eq
| Lt
| Gt

val compOpp : comparison -> comparison

val add : nat -> nat -> nat

val sub : nat -> nat -> nat

type positive =
| XI of positive
| XO of positive
| XH

type n =
| N0
| Npos of positive

type z =
| Z0
| Zpos of positive
| Zneg of positive

module Nat :
 sig
  val leb : nat -> nat -> bool

  val ltb : nat -> nat -> bool
 end

module Pos :
 sig
  type mask =
  | IsNul
  | IsPos of positive
  | IsNeg
 end

module Coq_Pos :
 sig
  val succ : positive -> positive

  val add : positive -> positive -> positive

  val add_carry : positive -> positive -> positive

  val pred_double : positive -> positive

  type mask = Pos.mask =
  | IsNul
  | IsPos of positive
  | IsNeg

  val succ_double_mask : mask -> mask

  val double_mask : mask -> mask

  val double_pred_mask : positive -> mask

  val sub_mask : positive -> positive -> mask

  val sub_mask_carry : positive -> positive -> mask

  val mul : positive -> positive -> positive

  val compare_cont : comparison -> positive -> positive -> comparison

  val compare : positive -> positive -> comparison

  val eqb : positive -> positive -> bool

  val iter_op : ('a1 -> 'a1 -> 'a1) -> positive -> 'a1 -> 'a1

  val to_nat : positive -> nat

  val of_succ_nat : nat -> positive
 end

module N :
 sig
  val succ_double : n -> n

  val double : n -> n

  val add : n -> n -> n

  val sub : n -> n -> n

  val mul : n -> n -> n

  val compare : n -> n -> comparison

  val eqb : n -> n -> bool

  val leb : n -> n -> bool

  val ltb : n -> n -> bool

  val pos_div_eucl : positive -> n -> n * n

  val div_eucl : n -> n -> n * n

  val div : n -> n -> n

  val modulo : n -> n -> n

  val to_nat : n -> nat

  val of_nat : nat -> n
 end

module Z :
 sig
  val double : z -> z

  val succ_double : z -> z

  val pred_double : z -> z

  val pos_sub : positive -> positive -> z

  val add : z -> z -> z

  val opp : z -> z

  val sub : z -> z -> z

  val mul : z -> z -> z

  val compare : z -> z -> comparison

  val leb : z -> z -> bool

  val ltb : z -> z -> bool

  val to_nat : z -> nat

  val to_N : z -> n

  val of_nat : nat -> z

  val of_N : n -> z

  val pos_div_eucl : positive -> z -> z * z

  val div_eucl : z -> z -> z * z

  val div : z -> z -> z

  val modulo : z -> z -> z
 end

val nth : nat -> 'a1 list -> 'a1 -> 'a1

val removelast : 'a1 list -> 'a1 list

val rev : 'a1 list -> 'a1 list

val concat : 'a1 list list -> 'a1 list

val map : ('a1 -> 'a2) -> 'a1 list -> 'a2 list

val existsb : ('a1 -> bool) -> 'a1 list -> bool

val forallb : ('a1 -> bool) -> 'a1 list -> bool

val firstn : nat -> 'a1 list -> 'a1 list

val skipn : nat -> 'a1 list -> 'a1 list

type byte = n

val nonempty : 'a1 list -> bool

val has_prefix : n list -> n list -> bool

val index_of : n list -> n list -> nat option

val last_index_of : n list -> n list -> nat option

val index_byte : n -> n list -> nat option

val buffer_line_newline : n

val buffer_line_interrupt : n

val buffer_line_cr : n

val escape_leader : n

val escape_base_json : (n list * n list) list

val escape_all_chars : n list

val escape_all_first_code : n

val win_init_last : n

val win_terminator : n

val win_after_terminator : n

val win_interrupt : n

val win_newline : n

val win_move_final : n

val win_digit_lo : n

val win_digit_hi : n

val win_home_prev : n

val win_home_final : n

val win_esc : n

val trzsz_letter_ranges : (n * n) list

val trzsz_letter_singles : n list

val vt100_end_ranges : (n * n) list

val recv_marker_open : n list

val recv_marker_close : n list

val recv_fallback_byte : n

val tmux_status_begin : n list

val tmux_status_begin_skip : n

val tmux_status_mid : n list

val tmux_status_mid_skip : n

val tmux_status_end : n list

val tmux_status_end_skip : n

val nl : byte

val intr : byte

val cr : byte

type pending = byte list list

type rres =
| Done of byte list * pending
| Blocked
| Interrupted of pending

val has_byte : byte -> byte list -> bool

val ends_cr : byte list -> bool

type cres =
| CLine of byte list * byte list
| CIntr of byte list
| CMore of byte list

val in_chunk : nat -> bool -> byte list -> byte list -> cres

val read_line : bool -> byte list -> pending -> rres

val read_binary : nat -> byte list -> pending -> rres

val read_binary_op : z -> pending -> rres

val pop_buffer : pending -> byte list option * pending

val pop_all : nat -> pending -> byte list list

val pop_all_fuel : pending -> nat

type op =
| OpLine of bool
| OpBinary of z

type result =
| RData of byte list
| RBlocked
| RInterrupted

val step : op -> pending -> rres

val run_st : op list -> pending -> result list * pending

val run : op list -> pending -> result list

val run_cont : op list -> pending -> result list * pending

val split_at : byte -> byte list -> byte list * byte list option

type fres =
| FDone of byte list * byte list
| FBlocked
| FInterrupted

val ref_line : byte list -> fres

val ref_junk_line : nat -> byte list -> byte list -> fres

val ref_binary : z -> byte list -> fres

val ref_step : op -> byte list -> fres

val ref_run_st : op list -> byte list -> result list * byte list

val ref_run : op list -> byte list -> result list

val leader : byte

type table = (byte * byte) list

val esc_code : table -> byte -> byte option

val unesc_code : table -> byte -> byte option

val escape : table -> byte list -> byte list

type ures =
| UOk of byte list * byte list
| UErr of byte

val ucons : byte -> ures -> ures

val unesc : table -> byte list -> nat -> ures

val unescape_data : table -> byte list -> nat -> ures

type rres0 =
| RData0 of byte list
| REof
| RErr of byte

val er_read :
  table -> byte list -> byte list list -> nat -> rres0 * (byte list * byte
  list list)

val next_size : nat list -> nat -> nat * nat list

type rend =
| EndEof of byte list
| EndErr of byte
| EndFuel

val er_run :
  nat -> table -> byte list -> byte list list -> nat list -> nat -> byte list
  list * rend

val er_fuel : byte list -> byte list list -> nat

val ew_write : table -> byte list list -> byte list list

val latin1 : n list -> byte list option

val table_of_json : n list list list -> table option

val escape_all_pairs : n list -> n -> n list list list

val builtin_json : bool -> n list list list

val builtin_table : bool -> table

val marker : byte list -> byte list

val marker_cut : byte list -> byte list -> byte list

val strip_tmux : nat -> byte list -> byte list

val strip_tmux_status : byte list -> byte list

val recv_line : byte list -> bool -> pending -> rres

val in_ranges : (n * n) list -> byte -> bool

val is_trzsz_letter : byte -> bool

val is_vt100_end : byte -> bool

type wst = { w_last : byte; w_skip : bool; w_nl : bool; w_dup : bool;
             w_home : bool; w_prehome : bool }

val w_init : wst

val last_is : byte list -> byte -> bool

val set_last : byte list -> byte -> byte list

val win_byte : wst -> byte list -> byte -> (wst * byte list) option

val win_fold : wst -> byte list -> byte list -> (wst * byte list) option

type wcres =
| WCLine of byte list * nat * byte list
| WCIntr of nat * byte list
| WCMore of wst * byte list

val win_chunk : nat -> wst -> byte list -> nat -> byte list -> wcres

type wres =
| WDone of byte list * nat * pending
| WBlocked
| WInterrupted of nat * pending

val win_read : wst -> byte list -> nat -> pending -> wres

val read_line_windows : nat -> pending -> wres

val recv_line_windows : byte list -> nat -> pending -> wres

val win_run : byte list list -> nat -> pending -> result list

val junk_run : byte list list -> bool -> pending -> result list
