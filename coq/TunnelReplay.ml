open BinNat
open BinNums
open Consts
open Datatypes
open List0
open Nat0
open PeanoNat
open Tunnel

type rev =
| RConnect
| RWrite of nat * coq_N list
| RClose of nat
| RInband of coq_N list
| RAct of bool
| RCleanup

(** val pump_all :
    coq_N list -> coq_N list -> sstate -> nat -> sstate option **)

let pump_all ch sh s c =
  match nth_error s.s_conns c with
  | Some k ->
    sstep ch sh s (LPump (c,
      (Nat.min (length k.k_rx) (N.to_nat tunnel_pump_bufsize))))
  | None -> None

(** val rsched_once : coq_N list -> coq_N list -> sstate -> sstate option **)

let rsched_once ch sh s =
  match sched_once ch sh s with
  | Some s' -> Some s'
  | None -> first_some (pump_all ch sh s) (seq O (length s.s_conns))

(** val rsettle : nat -> coq_N list -> coq_N list -> sstate -> sstate **)

let rec rsettle fuel ch sh s =
  match fuel with
  | O -> s
  | S f ->
    (match rsched_once ch sh s with
     | Some s' -> rsettle f ch sh s'
     | None -> s)

(** val push_script : nat -> pev -> sstate -> sstate **)

let push_script c e s =
  with_conns s
    (upd c (fun k -> { k_script = (app k.k_script (e :: [])); k_rx = k.k_rx;
      k_eof = k.k_eof; k_pc = k.k_pc; k_first = k.k_first; k_tx = k.k_tx;
      k_closed = k.k_closed; k_won = k.k_won; k_pump = k.k_pump }) s.s_conns)

(** val or_same : sstate -> sstate option -> sstate **)

let or_same s = function
| Some s' -> s'
| None -> s

(** val rapply : coq_N list -> coq_N list -> sstate -> rev -> sstate **)

let rapply ch sh s e =
  let s1 =
    match e with
    | RConnect -> or_same s (sstep ch sh s (LConnect []))
    | RWrite (c, bs) ->
      let s0 = push_script c (PWrite bs) s in
      or_same s0 (sstep ch sh s0 (LPeer c))
    | RClose c ->
      let s0 = push_script c PClose s in or_same s0 (sstep ch sh s0 (LPeer c))
    | RInband bs -> or_same s (sstep ch sh s (LInband bs))
    | RAct tun -> or_same s (sstep ch sh s (LAct tun))
    | RCleanup -> or_same s (sstep ch sh s LCleanup)
  in
  rsettle
    (add (settle_fuel s1)
      (mul (S (S (S (S O))))
        (length (concat (map (fun c -> c.k_rx) s1.s_conns))))) ch sh s1

(** val rreplay : coq_N list -> coq_Z -> rev list -> sstate **)

let rreplay uid port evs =
  fold_left (rapply (client_hello uid port) (server_hello uid port)) evs
    s_init
