open BinNat
open BinNums
open Consts
open Datatypes
open List0
open Nat0
open PeanoNat
open Tunnel

val rt_is_prefix : coq_N list -> coq_N list -> bool

val rt_replace_all :
  coq_N list -> coq_N list -> coq_N list -> nat -> coq_N list

val rt_port_tag : coq_N list -> coq_Z -> coq_N list

val rt_rewrite : coq_N list -> coq_Z -> coq_Z -> coq_N list -> coq_N list

type rt_end = { e_script : pev list; e_rx : coq_N list; e_eof : bool;
                e_tx : coq_N list; e_closed : bool }

val e_tx : rt_end -> coq_N list

val e_closed : rt_end -> bool

val rt_new_end : pev list -> rt_end

val rt_end_close : rt_end -> rt_end

val rt_end_write : coq_N list -> rt_end -> rt_end

val rt_end_drop : nat -> rt_end -> rt_end

val rt_end_peer : rt_end -> rt_end option

type rt_src =
| RsCli of nat
| RsSrv of nat
| RsRelay
| RsInband of bool

type rt_dir =
| RdIn
| RdOut

type rt_pump =
| PmNone
| PmRun
| PmWait
| PmDone

type rt_half = { h_chan : (rt_src * coq_N list) list; h_chan_closed : 
                 bool; h_writer : bool; h_pump : rt_pump;
                 h_log : (rt_src * coq_N list) list }

val rt_new_half : rt_half

type rt_bridge = { b_in : rt_half; b_out : rt_half; b_relay : bool }

val rt_half_of : rt_dir -> rt_bridge -> rt_half

val rt_set_half : rt_dir -> rt_half -> rt_bridge -> rt_bridge

val rt_set_relay : bool -> rt_bridge -> rt_bridge

type rt_outcome =
| RoBusy
| RoNoConnector
| RoBadClient
| RoDialFailed
| RoSrvWriteFailed
| RoBadServer
| RoReplyFailed
| RoWon
| RoLost

type rt_pc =
| RtRefused
| RtPending
| RtAccepted
| RtLoadConn
| RtRead
| RtCmp of coq_N list option
| RtDial
| RtWriteSrv
| RtReadSrv
| RtCmpSrv of coq_N list option
| RtReply
| RtNew
| RtCas
| RtStoreRelay
| RtGoIn
| RtGoOut
| RtCloseLis
| RtCloseC
| RtCloseS
| RtDone of rt_outcome

type rt_pair = { p_cli : rt_end; p_srv : rt_end option; p_pc : rt_pc;
                 p_first : coq_N list option; p_sfirst : coq_N list option;
                 p_br : rt_bridge option; p_won : nat option }

val p_cli : rt_pair -> rt_end

val p_srv : rt_pair -> rt_end option

val p_pc : rt_pair -> rt_pc

val rt_new_pair : pev list -> rt_pc -> rt_pair

val rt_set_pc : rt_pc -> rt_pair -> rt_pair

val rt_set_cli : rt_end -> rt_pair -> rt_pair

val rt_set_srv : rt_end -> rt_pair -> rt_pair

val rt_set_br : rt_bridge -> rt_pair -> rt_pair

val rt_close_cli : rt_pair -> rt_pair

val rt_close_srv : rt_pair -> rt_pair

val rt_give_up : rt_outcome -> rt_pair -> rt_pair

val rt_src_end : rt_dir -> rt_pair -> rt_end option

val rt_dst_end : rt_dir -> rt_pair -> rt_end option

val rt_set_src_end : rt_dir -> rt_end -> rt_pair -> rt_pair

val rt_set_dst_end : rt_dir -> rt_end -> rt_pair -> rt_pair

val rt_tag : rt_dir -> nat -> rt_src

type rt_apc =
| RaAccept
| RaCheck of nat
| RaDone

type rt_status =
| StStandby
| StHandshaking
| StTransferring

type rt_hspc =
| HsRecvAct
| HsStore of bool * bool
| HsSendAct of bool
| HsRecvCfg
| HsSendCfg
| HsErr1
| HsErr2
| HsFlushIn of bool
| HsFlushOut of bool
| HsFlushEnd of bool
| HsIdle

type rt_out = (rt_src * coq_N list) * bool

type rt_hs = { x_status : rt_status; x_pc : rt_hspc; x_lock : bool;
               x_bufin : (rt_src * coq_N list) list;
               x_bufout : (rt_src * coq_N list) list; x_outin : rt_out list;
               x_outout : rt_out list }

val x_status : rt_hs -> rt_status

val x_outin : rt_hs -> rt_out list

val x_outout : rt_hs -> rt_out list

val rt_hs_init : rt_hs

val rt_buf : rt_dir -> rt_hs -> (rt_src * coq_N list) list

val rt_set_buf : rt_dir -> (rt_src * coq_N list) list -> rt_hs -> rt_hs

val rt_add_out : rt_dir -> rt_out -> rt_hs -> rt_hs

val rt_set_pc_lock : rt_hspc -> bool -> rt_hs -> rt_hs

val rt_hs_finish : rt_status -> rt_hs -> rt_hs

val rt_set_status : rt_status -> rt_hs -> rt_hs

val rt_drop_bytes :
  nat -> (rt_src * coq_N list) list -> (rt_src * coq_N list) list

val rt_buf_bytes : (rt_src * coq_N list) list -> nat

type rt_state = { r_pairs : rt_pair list; r_lis : bool; r_apc : rt_apc;
                  r_connector : bool; r_trelay : nat option; r_era : 
                  nat; r_tconnected : bool; r_x : rt_hs }

val r_pairs : rt_state -> rt_pair list

val r_trelay : rt_state -> nat option

val r_x : rt_state -> rt_hs

val rt_init : rt_state

val rt_with_pairs : rt_state -> rt_pair list -> rt_state

val rt_upd_pair : rt_state -> nat -> (rt_pair -> rt_pair) -> rt_state

type rt_label =
| RLConnect of pev list
| RLPeerC of nat
| RLPeerS of nat
| RLAccept of nat
| RLAcceptErr
| RLCheck
| RLHandler of nat * pev list option * bool
| RLWriter of nat * rt_dir
| RLPump of nat * rt_dir * nat
| RLPumpEof of nat * rt_dir
| RLPumpExit of nat * rt_dir
| RLPumpSpin of nat * rt_dir
| RLSetConnector of bool
| RLInband of rt_dir * coq_N list
| RLHsRead of nat * bool * bool * bool
| RLHs of coq_N list
| RLReset

val rt_with_x : rt_state -> rt_hs -> rt_state

val rt_handshaking : rt_state -> bool

val rt_half_push : (rt_src * coq_N list) -> rt_half -> rt_half

val rt_half_set_pump : rt_pump -> rt_half -> rt_half

val rt_half_close_chan : rt_half -> rt_half

val rt_chan_has_room : rt_half -> bool

val rt_route :
  rt_state -> rt_dir -> (rt_src * coq_N list) -> rt_hspc -> bool -> rt_state
  option

val rt_reset : rt_state -> rt_hs -> rt_state

val rt_handler :
  coq_N list -> coq_N list -> coq_N list -> coq_N list -> rt_state -> nat ->
  rt_pair -> pev list option -> bool -> rt_state option

val rt_step :
  coq_N list -> coq_N list -> coq_N list -> coq_N list -> rt_state ->
  rt_label -> rt_state option

type rt_obs =
| RtObsRefused
| RtObsOpenSilent
| RtObsClosedSilent
| RtObsGot of coq_N list * bool

val rt_observe_end : rt_end -> rt_obs

val rt_observe_cli : rt_pair -> rt_obs
