open BinNat
open BinNums
open Bytes0
open Consts
open Datatypes
open List0
open Nat0
open PeanoNat

type cfg = { cT : nat; cSL : nat; cGL : nat; cP3 : bool }

val cfg_of : coq_N -> coq_Z -> coq_N -> cfg

type timer = nat option

val fresh : cfg -> timer

val dec : timer -> timer

val fired : timer -> bool

type lclass =
| CKeep
| CGood
| CNoColon
| CWrongType

val classify : coq_N list -> coq_N list -> lclass

val payload_of : coq_N list -> coq_N list

val keepalive_line : coq_N list -> coq_N list

type rcore = { pausing : bool; pidx : nat; pbt : bool; stopped : bool;
               tmo : timer; ntmo : timer; rbt : bool; pflag : bool }

val upd_pflag : rcore -> bool -> rcore

val upd_stopped : rcore -> rcore

val upd_timers : rcore -> timer -> timer -> rcore

val consume_rbt : rcore -> rcore

val do_pause : rcore -> rcore

val do_resume : cfg -> rcore -> bool -> rcore

type phase =
| PIdle
| PGate of nat * nat
| PRead of nat

val is_read : phase -> bool

type 'l ev =
| ETick
| EArrive of 'l
| EPause
| EResume
| EStop
| ECall

type 'l out =
| ODelivered of 'l * bool
| OTimeout of bool
| OStopped of bool
| OBadLine of bool

type 'l rstate = { core : rcore; queue : 'l list; ph : phase }

val arm : cfg -> rcore -> rcore

type 'l pre_res =
| PExit of rcore * phase * 'l out option
| PGo of rcore * nat

val gate_check : cfg -> rcore -> nat -> 'a1 pre_res

type entry =
| AtTop
| AfterGate of nat
| GotLine of nat

val pre : cfg -> entry -> rcore -> 'a1 pre_res

val rd :
  ('a1 -> lclass) -> cfg -> 'a1 list -> entry -> rcore -> 'a1 rstate * 'a1
  out option

val on_timeout :
  ('a1 -> lclass) -> cfg -> 'a1 list -> nat -> rcore -> 'a1 rstate * 'a1 out
  option

val rtick :
  ('a1 -> lclass) -> cfg -> 'a1 rstate -> 'a1 rstate * 'a1 out option

val rstep :
  ('a1 -> lclass) -> cfg -> 'a1 rstate -> 'a1 ev -> 'a1 rstate * 'a1 out
  option

val rrun :
  ('a1 -> lclass) -> cfg -> 'a1 rstate -> 'a1 ev list -> 'a1 rstate * 'a1 out
  option list

val core0 : rcore

val rinit : 'a1 rstate

type sphase =
| SIdle
| SSleep of nat
| SPassed

type wout =
| WKeep
| WFrame
| WStopErr

val gate_enter : cfg -> bool -> bool -> sphase * wout list

type sev =
| SCall
| STick
| SWrite
| SPauseEv
| SResumeEv
| SStopEv

type sstate = { s_pausing : bool; s_stopped : bool; s_ph : sphase }

val sphase_step : cfg -> bool -> bool -> sphase -> sev -> sphase * wout list

val sstep : cfg -> sstate -> sev -> sstate * wout list

val srun : cfg -> sstate -> sev list -> sstate * wout list

val count_keeps : wout list -> nat

type wline =
| WLKeep
| WLData of nat

val cls_w : wline -> lclass

val cls_a : nat -> lclass

type csph =
| CSGate of nat
| CSIn of nat * sphase
| CSPush of nat
| CSDone

type epi =
| EpNone
| EpPausing of nat
| EpResumed of nat * nat

type cstate = { cA : nat rstate; cAcked : nat; cS : csph; cCnt : nat;
                cR : wline rstate; cDeliv : nat list; cErrA : bool;
                cErrR : bool; cEp : epi }

type cev =
| XTick
| XPause
| XResume
| XSCall
| XSWrite
| XSPush
| XRCall
| XATake

val slack : cfg -> nat

val set_A : cstate -> nat rstate -> nat -> bool -> cstate

val feedA : cfg -> cstate -> nat ev -> cstate

val feedR : cfg -> cstate -> wline ev -> cstate

val set_S : cstate -> csph -> cstate

val set_cnt : cstate -> nat -> cstate

val set_ep : cstate -> epi -> cstate

val emit : cfg -> cstate -> nat -> wout list -> cstate

val our_pausing : cstate -> bool

val our_stopped : cstate -> bool

val s_move : cfg -> cstate -> nat -> sphase -> sev -> cstate

val r_live : nat -> cstate -> bool

val quiescent : nat -> nat -> cstate -> bool

val ep_pause : epi -> epi

val ep_tick : cfg -> epi -> epi

val cstep : cfg -> nat -> nat -> nat -> cstate -> cev -> cstate option

val crun : cfg -> nat -> nat -> nat -> cstate -> cev list -> cstate option

val cinit : nat -> cstate

type aph =
| AIdle
| AGate of nat
| ARead

type rph =
| RIdle
| RRead of nat

type ast = { xPausing : bool; xA : aph; xAq : nat; xAcked : nat; xS : 
             csph; xCnt : nat; xR : rph; xRq : wline list; xDeliv : nat list;
             xBad : bool; xEp : epi }

val first_data : wline list -> (nat * wline list) option

val x_ack : ast -> ast

val x_deliver : ast -> rph -> wline list -> nat -> ast

val x_setR : ast -> rph -> wline list -> ast

val x_rarrive : cfg -> ast -> wline -> ast

val x_rcall : cfg -> ast -> ast

val x_setA : ast -> aph -> nat -> nat -> ast

val x_aread : ast -> ast

val x_acall : cfg -> ast -> ast

val x_setS : ast -> csph -> ast

val x_setCnt : ast -> nat -> ast

val x_bad : ast -> ast

val x_flags : ast -> bool -> epi -> ast

val x_gate : cfg -> ast -> nat -> ast

val x_live : nat -> ast -> bool

val x_quiescent : nat -> nat -> ast -> bool

val x_tickR : ast -> ast

val x_tickA : cfg -> ast -> ast

val x_tickS : cfg -> ast -> ast

val astep : cfg -> nat -> nat -> nat -> ast -> cev -> ast option

val arun : cfg -> nat -> nat -> nat -> ast -> cev list -> ast option

val ainit : nat -> ast

val abs_of : cstate -> ast
