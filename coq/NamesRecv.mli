open BinInt
open BinNums
open Bytes0
open Datatypes
open Fs
open List0
open Names
open Path

val nr_add_name : name list -> name -> name list

type nr_record = { nr_raw : coq_N list; nr_payload : coq_N list;
                   nr_entries : (coq_N list * coq_N list) list }

type nr_kind =
| NrFile
| NrDir
| NrArchive

val nr_kind_of : (coq_N list -> src option) -> config -> coq_N list -> nr_kind

val nr_entries_run :
  (coq_N list -> src option) -> checks -> config -> path -> (coq_N
  list * coq_N list) list -> state -> bool * state

val nr_recv_files :
  (coq_N list -> src option) -> checks -> config -> path -> nr_record list ->
  state -> name list -> name list option * state

val nr_own_record : (coq_N list -> src option) -> config -> nr_record -> bool

val nr_own : (coq_N list -> src option) -> config -> nr_record list -> bool

val nr_run_gen :
  (coq_N list -> src option) -> checks -> config -> path -> nr_record list ->
  fs -> name list option * state
