open BinNat
open BinNums
open Datatypes
open List0
open Path

type node =
| File of coq_N list
| Dir

type fs = (path * node) list

type effect =
| EMkdir of path
| ECreate of path
| EOpen of path
| ETrunc of path
| ERemove of path

(** val effect_path : effect -> path **)

let effect_path = function
| EMkdir p -> p
| ECreate p -> p
| EOpen p -> p
| ETrunc p -> p
| ERemove p -> p

(** val lookup : fs -> path -> node option **)

let rec lookup f p =
  match f with
  | [] -> None
  | p0 :: f' ->
    let (q, n) = p0 in if path_eqb q p then Some n else lookup f' p

(** val get : fs -> path -> node option **)

let get f p = match p with
| [] -> Some Dir
| _ :: _ -> lookup f p

(** val set : fs -> path -> node -> fs **)

let set f p n =
  (p, n) :: (filter (fun kv -> negb (path_eqb (fst kv) p)) f)

(** val name_max : coq_N **)

let name_max =
  Npos (Coq_xI (Coq_xI (Coq_xI (Coq_xI (Coq_xI (Coq_xI (Coq_xI Coq_xH)))))))

(** val name_len : name -> coq_N **)

let name_len c =
  N.of_nat (length c)

(** val has_nul : name -> bool **)

let has_nul c =
  existsb (N.eqb N0) c

(** val bad_path : path -> bool **)

let bad_path p =
  existsb has_nul p

type stat_res =
| SFound of node
| SNotExist
| SOther

(** val walk : fs -> path -> name list -> stat_res **)

let rec walk f pre = function
| [] -> (match get f pre with
         | Some n -> SFound n
         | None -> SNotExist)
| c :: rest' ->
  (match get f pre with
   | Some n ->
     (match n with
      | File _ -> SOther
      | Dir ->
        if N.ltb name_max (name_len c)
        then SOther
        else walk f (app pre (c :: [])) rest')
   | None -> SNotExist)

(** val stat : fs -> path -> stat_res **)

let stat f p =
  if bad_path p then SOther else walk f [] p

(** val write0 : coq_N list -> coq_N list -> coq_N list **)

let write0 old new0 =
  app new0 (skipn (length new0) old)

(** val open_create :
    fs -> path -> bool -> coq_N list -> (fs * effect list) option **)

let open_create f p trunc payload =
  match p with
  | [] -> None
  | _ :: _ ->
    (match stat f (removelast p) with
     | SFound n ->
       (match n with
        | File _ -> None
        | Dir ->
          if (||) (has_nul (last p []))
               (N.ltb name_max (name_len (last p [])))
          then None
          else (match lookup f p with
                | Some n0 ->
                  (match n0 with
                   | File old ->
                     Some
                       ((set f p (File
                          (write0 (if trunc then [] else old) payload))),
                       ((if trunc then ETrunc p else EOpen p) :: []))
                   | Dir -> None)
                | None -> Some ((set f p (File payload)), ((ECreate p) :: []))))
     | _ -> None)

(** val mk_down : fs -> path -> name list -> (bool * fs) * effect list **)

let rec mk_down f pre = function
| [] -> ((true, f), [])
| c :: rest' ->
  if (||) (has_nul c) (N.ltb name_max (name_len c))
  then ((false, f), [])
  else (match lookup f (app pre (c :: [])) with
        | Some n ->
          (match n with
           | File _ -> ((false, f), [])
           | Dir -> mk_down f (app pre (c :: [])) rest')
        | None ->
          let (p, es) =
            mk_down (set f (app pre (c :: [])) Dir) (app pre (c :: [])) rest'
          in
          (p, ((EMkdir (app pre (c :: []))) :: es)))

(** val mkdir_all : fs -> path -> (bool * fs) * effect list **)

let mkdir_all f p =
  mk_down f [] p

(** val remove_all : fs -> path -> fs * effect list **)

let remove_all f p =
  ((filter (fun kv -> negb (is_prefix p (fst kv))) f),
    (map (fun kv -> ERemove (fst kv))
      (filter (fun kv -> is_prefix p (fst kv)) f)))
