open BinNat
open BinNums
open Bytes0
open Consts
open Datatypes
open List0
open Nat0
open PeanoNat

type chunk = coq_N list

type path = coq_N list

type kind =
| KDir
| KRegular
| KOther

val in_ranges : (coq_N * coq_N) list -> coq_N -> bool

val index_any : coq_N list -> coq_N list -> nat option

val replace_all_f :
  nat -> coq_N list -> coq_N list -> coq_N list -> coq_N list

val replace_all : coq_N list -> coq_N list -> coq_N list -> coq_N list

val trim_vt100_f : bool -> coq_N list -> coq_N list

val trim_vt100 : coq_N list -> coq_N list

val trim_right : coq_N list -> coq_N list -> coq_N list

val osc52_bad_b64 : coq_N list -> bool

val osc52_header : nat -> coq_N list -> coq_N list option

val osc52_loop :
  nat -> coq_N list option -> coq_N list -> coq_N list list -> coq_N list
  option * coq_N list list

val detect_osc52 :
  coq_N list option -> coq_N list -> coq_N list option * coq_N list list

type dres = { d_files : (path list * bool) option; d_ignore : bool;
              d_win : bool }

val strip_paste : coq_N list -> coq_N list option

val next_linux_path : coq_N list -> (path * nat) option

val file_path_ok : (path -> kind option) -> path -> bool option

val linux_loop :
  (path -> kind option) -> nat -> coq_N list -> path list -> bool -> (path
  list * bool) option

val last_is : coq_N -> coq_N list -> bool

val detect_drag_files_on_linux :
  (path -> kind option) -> coq_N list -> (path list * bool) option

val detect_drag_linux : (path -> kind option) -> coq_N list -> dres

type opts = { o_drag : bool; o_trace : bool; o_zmodem : bool; o_osc52 : 
              bool; o_cmd : coq_N list; o_cmd_not_trz : bool; o_fixed : 
              bool }

type pstate =
| PNone
| POpen
| PClosing

val p_set : pstate -> bool

type dphase =
| DWait
| DInterrupt
| DCmd

type hphase =
| HChoosing
| HOwning

type haction =
| HIo of coq_N list * coq_N list
| HTakeDrag
| HRefuse
| HFailEarly
| HAccept
| HDone
| HError
| HStop
| HBackground

type obs =
| ToTerm of coq_N list
| ToServer of coq_N list
| Clip of coq_N list

type ('dstate, 'zstate) state = { transfer : bool; zmodem : 'zstate option;
                                  prompt : pstate; prompts : bool;
                                  trace_on : bool; interrupting : bool;
                                  skip_cmd : bool;
                                  cur_cmd : coq_N list option;
                                  osc : coq_N list option; detect_on : 
                                  bool; dragging : bool; drag_has_dir : 
                                  bool; drag_files : path list option;
                                  held : coq_N list option; det : 'dstate;
                                  drag_procs : dphase list;
                                  handlers : hphase list }

val init : 'a1 -> ('a1, 'a2) state

val set_transfer : bool -> ('a1, 'a2) state -> ('a1, 'a2) state

val set_zmodem : 'a2 option -> ('a1, 'a2) state -> ('a1, 'a2) state

val set_prompt : pstate -> ('a1, 'a2) state -> ('a1, 'a2) state

val set_prompts : bool -> ('a1, 'a2) state -> ('a1, 'a2) state

val set_trace_on : bool -> ('a1, 'a2) state -> ('a1, 'a2) state

val set_interrupting : bool -> ('a1, 'a2) state -> ('a1, 'a2) state

val set_skip_cmd : bool -> ('a1, 'a2) state -> ('a1, 'a2) state

val set_cur_cmd : coq_N list option -> ('a1, 'a2) state -> ('a1, 'a2) state

val set_osc : coq_N list option -> ('a1, 'a2) state -> ('a1, 'a2) state

val set_detect_on : bool -> ('a1, 'a2) state -> ('a1, 'a2) state

val set_drag :
  bool -> bool -> path list option -> ('a1, 'a2) state -> ('a1, 'a2) state

val set_held : coq_N list option -> ('a1, 'a2) state -> ('a1, 'a2) state

val set_det : 'a1 -> ('a1, 'a2) state -> ('a1, 'a2) state

val set_drag_procs : dphase list -> ('a1, 'a2) state -> ('a1, 'a2) state

val set_handlers : hphase list -> ('a1, 'a2) state -> ('a1, 'a2) state

val reset_drag : ('a1, 'a2) state -> ('a1, 'a2) state

val add_drag : path list -> bool -> ('a1, 'a2) state -> ('a1, 'a2) state

val trace_log :
  coq_N list -> coq_N list -> opts -> ('a1, 'a2) state -> coq_N list -> coq_N
  list * ('a1, 'a2) state

val drag_command : opts -> ('a1, 'a2) state -> coq_N list

val out_forward :
  (coq_N list -> bool) -> (coq_N list -> 'a2) -> opts -> ('a1, 'a2) state ->
  obs list -> coq_N list -> ('a1, 'a2) state * obs list

val out_detect :
  ('a1 -> coq_N list -> (coq_N list * 'a2 option) * 'a1) -> ('a2 -> bool) ->
  (coq_N list -> bool) -> (coq_N list -> 'a3) -> opts -> ('a1, 'a3) state ->
  obs list -> coq_N list -> ('a1, 'a3) state * obs list

val out_zmodem :
  ('a2 -> coq_N list -> bool * 'a2) -> opts -> ('a1, 'a2) state -> coq_N list
  -> (('a1, 'a2) state, ('a1, 'a2) state * obs list) sum

val out_step :
  ('a1 -> coq_N list -> (coq_N list * 'a2 option) * 'a1) -> ('a2 -> bool) ->
  (coq_N list -> bool) -> (coq_N list -> 'a3) -> ('a3 -> coq_N list ->
  bool * 'a3) -> coq_N list -> coq_N list -> opts -> ('a1, 'a3) state ->
  coq_N list -> ('a1, 'a3) state * obs list

val drag_verdict :
  (coq_N list -> dres) -> bool -> ('a1, 'a2) state -> coq_N list -> ('a1,
  'a2) state * obs list

val in_step :
  ('a2 -> bool) -> ('a2 -> 'a2) -> (coq_N list -> dres) -> (coq_N list ->
  bool) -> opts -> ('a1, 'a2) state -> coq_N list -> ('a1, 'a2) state * obs
  list

val hold_timer :
  (coq_N list -> dres) -> ('a1, 'a2) state -> ('a1, 'a2) state * obs list

val remove_nth : nat -> 'a1 list -> 'a1 list

val set_nth : nat -> 'a1 -> 'a1 list -> 'a1 list

val drag_step : opts -> ('a1, 'a2) state -> nat -> ('a1, 'a2) state * obs list

val handler_exit :
  opts -> ('a1, 'a2) state -> nat -> hphase -> ('a1, 'a2) state

val handler_step :
  opts -> ('a1, 'a2) state -> nat -> haction -> ('a1, 'a2) state * obs list

type 'zstate event =
| EvOut of chunk
| EvIn of chunk
| EvDetectOn
| EvHoldTimer
| EvDrag of nat
| EvHandler of nat * haction
| EvPromptEnd
| EvZmodem of 'zstate

val step :
  ('a1 -> coq_N list -> (coq_N list * 'a2 option) * 'a1) -> ('a2 -> bool) ->
  (coq_N list -> bool) -> (coq_N list -> 'a3) -> ('a3 -> coq_N list ->
  bool * 'a3) -> ('a3 -> bool) -> ('a3 -> 'a3) -> (coq_N list -> dres) ->
  coq_N list -> coq_N list -> (coq_N list -> bool) -> opts -> ('a1, 'a3)
  state -> 'a3 event -> ('a1, 'a3) state * obs list

val run :
  ('a1 -> coq_N list -> (coq_N list * 'a2 option) * 'a1) -> ('a2 -> bool) ->
  (coq_N list -> bool) -> (coq_N list -> 'a3) -> ('a3 -> coq_N list ->
  bool * 'a3) -> ('a3 -> bool) -> ('a3 -> 'a3) -> (coq_N list -> dres) ->
  coq_N list -> coq_N list -> (coq_N list -> bool) -> opts -> ('a1, 'a3)
  state -> 'a3 event list -> ('a1, 'a3) state * obs list

val silent_detect : unit -> coq_N list -> (coq_N list * unit option) * unit

val corr_run :
  (path -> kind option) -> (coq_N list -> bool) -> coq_N list -> coq_N list
  -> opts -> bool -> unit event list -> obs list
