open BinInt
open BinNat
open BinNums
open Bytes0
open Consts
open Datatypes
open List0

type rn_str = coq_N list

type n_action = { na_lang : rn_str; na_version : rn_str; na_confirm : 
                  bool; na_newline : rn_str; na_protocol : coq_Z;
                  na_binary : bool; na_support_dir : bool; na_tunnel : 
                  bool; na_fork : bool }

type n_wire_action = { nwa_lang : rn_str option; nwa_version : rn_str option;
                       nwa_confirm : bool option;
                       nwa_newline : rn_str option;
                       nwa_protocol : coq_Z option; nwa_binary : bool option;
                       nwa_support_dir : bool option;
                       nwa_tunnel : bool option; nwa_fork : bool option }

type n_wire_escape =
| WEscTable of (coq_N * coq_N) list
| WEscObject

type n_config = { nc_quiet : bool; nc_binary : bool; nc_directory : bool;
                  nc_overwrite : bool; nc_timeout : coq_Z;
                  nc_newline : rn_str; nc_protocol : coq_Z;
                  nc_bufsize : coq_Z;
                  nc_escape : (coq_N * coq_N) list option;
                  nc_pane_width : coq_Z; nc_junk : bool; nc_compress : 
                  coq_Z; nc_fork : bool }

type n_wire_config = { nwc_quiet : bool option; nwc_binary : bool option;
                       nwc_directory : bool option;
                       nwc_overwrite : bool option;
                       nwc_timeout : coq_Z option;
                       nwc_newline : rn_str option;
                       nwc_protocol : coq_Z option;
                       nwc_bufsize : coq_Z option;
                       nwc_escape : n_wire_escape option;
                       nwc_pane_width : coq_Z option; nwc_junk : bool option;
                       nwc_compress : coq_Z option; nwc_fork : bool option }

val rn_dflt : 'a1 option -> 'a1 -> 'a1

val decode_action_into : n_action -> n_wire_action -> n_action

val encode_action : n_action -> n_wire_action

val decode_config_into : n_config -> n_wire_config -> n_config option

val marshal_escape : (coq_N * coq_N) list option -> n_wire_escape option

val encode_config : n_config -> n_wire_config

val action_zero : rn_str -> bool -> n_action

val relay_action_init : n_action

val server_action_init : n_action

val config_zero : coq_Z -> rn_str -> coq_Z -> n_config

type rn_env = { ne_tmux_mode : coq_N; ne_pane_width : coq_Z;
                ne_win_server : bool }

val relay_config_init : rn_env -> bool -> n_config

val rewrite_action : n_action -> n_action

val rewrite_config : rn_env -> n_config -> n_config

val relay_action : n_wire_action -> n_wire_action

val relay_config : rn_env -> bool -> n_wire_config -> n_wire_config option

type rn_status =
| NStandby
| NHandshaking
| NTransferring

val rn_status_code : rn_status -> coq_N

type rn_hs_result =
| HsBadAction
| HsRefused of n_wire_action
| HsBadConfig of n_wire_action
| HsDone of n_wire_action * n_wire_config

val rn_handshake :
  rn_env -> n_wire_action option -> n_wire_config option -> rn_hs_result

val hs_confirmed : rn_hs_result -> bool

val status_after_handshake : rn_hs_result -> rn_status

type rn_read =
| RdOk
| RdGarbled
| RdBlocked

val rn_read_line : bool -> bool -> rn_read

type 'a rn_line = { ln_win : bool; ln_body : 'a option }

type rn_out_msg =
| OAct of n_wire_action
| OCfg of n_wire_config
| OFail

type rn_hs2 = { h2_to_server : (rn_out_msg * rn_str) list;
                h2_to_client : (rn_out_msg * rn_str) list;
                h2_status : rn_status; h2_cli_win : bool }

val rn_nl_to_client : rn_env -> bool -> bool -> rn_str

val rn_nl_to_server : rn_env -> bool -> bool -> rn_str

val rn_reader_from_client : rn_env -> bool -> bool

val rn_reader_from_server : rn_env -> bool -> bool -> bool

val rn_hs2_fail :
  rn_env -> bool -> bool -> (rn_out_msg * rn_str) list -> rn_hs2

val rn_handshake2 :
  rn_env -> bool -> n_wire_action rn_line -> n_wire_config rn_line option ->
  rn_hs2

val rn_has_marker : coq_N list list -> coq_N list -> bool

val rn_end_in : coq_N list -> bool

val rn_end_out : coq_N list -> bool

type rn_event =
| NIn of coq_N list
| NOut of coq_N list * bool
| NHsEnd of bool

type rn_fwd =
| FParked
| FRaw
| FRewritten
| FNone

val rn_step : rn_status -> rn_event -> rn_status * rn_fwd

val rn_run :
  rn_status -> rn_event list -> rn_status * (rn_status * rn_fwd) list

type rt_state = rn_status * bool

type rt_event =
| TMain of rn_event
| THsAct of bool
| TTunIn of coq_N list
| TTunOut of coq_N list

val rn_status_eqb : rn_status -> rn_status -> bool

val rt_reset : rn_status -> rt_state -> rt_state

val rn_end_tun_in : coq_N list -> bool

val rn_end_tun_out : coq_N list -> bool

val rt_step : rt_state -> rt_event -> rt_state * rn_fwd

val rt_run : rt_state -> rt_event list -> rt_state * (rt_state * rn_fwd) list

type rn_server_args = { ns_quiet : bool; ns_overwrite : bool;
                        ns_binary : bool; ns_directory : bool;
                        ns_fork : bool; ns_bufsize : coq_Z;
                        ns_timeout : coq_Z; ns_compress : coq_Z;
                        ns_escape : (coq_N * coq_N) list;
                        ns_tmux_mode : coq_N; ns_pane_width : coq_Z }

type rn_server_result =
| SrvCancelled
| SrvNoFork
| SrvNoDirectory
| SrvConfig of n_wire_config

val rn_server_config : rn_server_args -> n_action -> rn_server_result

val server_own_init : n_action -> n_config

val rn_client_init : bool -> bool -> n_config

val relays_action : nat -> n_wire_action -> n_wire_action

val relays_config :
  rn_env list -> bool -> n_wire_config -> n_wire_config option

type rn_outcome =
| OutRefused of rn_server_result
| OutRelayFailed of n_config option
| OutClientFailed of n_config option
| OutAgreed of n_config * n_config

val negotiate :
  rn_server_args -> bool -> rn_env list -> n_wire_action -> rn_outcome
