open BinNums

val archive_newline : coq_N

val archive_split_byte : coq_N

val archive_write_extra : coq_N

val archive_header_extra : coq_N

val archive_min_protocol : coq_N

val archive_flag_gt : coq_N

val archive_send_gt : coq_N

val archive_v3_protocol : coq_N

val archive_writer_needs_dir : coq_N

val archive_reader_file_nil : bool

val archive_probe_guard_fires : bool

val archive_probe_nofile_compress : bool

val buffer_line_newline : coq_N

val buffer_line_interrupt : coq_N

val buffer_line_cr : coq_N

val buffer_queue_capacity : coq_N

val buffer_add_blocks : bool

val det_min_len : coq_N

val det_marker : coq_N list

val det_finished_offset : coq_N

val det_finished_words : coq_N list list

val det_win_id : coq_N list

val det_win_id_len : coq_N

val det_win_suffix : coq_N list

val det_client_old : coq_N list

val det_client_new : coq_N list

val det_id_min_len : coq_N

val det_plain_id_len : coq_N

val det_plain_suffix : coq_N list

val det_prune_limit : coq_N

val det_prune_keep : coq_N

val det_rewrite_min_len : coq_N

val det_rewrite_suffix : coq_N list

val det_retag_back : coq_N

val det_retag_char : coq_N

val det_relay_offset : coq_N

val det_relay_scan_chars : coq_N list

val det_relay_scan_lo : coq_N

val det_relay_scan_hi : coq_N

val det_relay_suffix : coq_N list

val det_version_sep : coq_N list

val det_version_bits : coq_N

val det_trz_format : coq_N list

val escape_leader : coq_N

val escape_base_json : (coq_N list * coq_N list) list

val escape_all_chars : coq_N list

val escape_all_first_code : coq_N

val osc52_prefix : coq_N list

val osc52_terms : coq_N list

val osc52_kind_c : coq_N

val osc52_kind_p : coq_N

val osc52_sep : coq_N

val osc52_limit : coq_N

val osc52_hdr_skip : coq_N

val osc52_kind_len : coq_N

val osc52_b64_ranges : (coq_N * coq_N) list

val drag_paste_probe : coq_N list

val drag_paste_begin : coq_N list

val drag_paste_end : coq_N list

val drag_paste_minlen : coq_N

val drag_quote : coq_N

val drag_slash : coq_N

val drag_space : coq_N

val drag_min_len : coq_N

val trace_enable_marker : coq_N list

val trace_disable_marker : coq_N list

val show_cursor_seq : coq_N list

val hide_cursor_seq : coq_N list

val drag_default_cmd : coq_N list

val drag_dir_flag : coq_N list

val drag_cmd_end : coq_N list

val drag_interrupt_byte : coq_N

val skip_trim_cutset : coq_N list

val skip_echo_repl : coq_N list

val vt100_esc : coq_N

val vt100_end_ranges : (coq_N * coq_N) list

val guards_hash_step : coq_Z

val guards_default_bufsize : coq_Z

val guards_init_buffer_size : coq_Z

val guards_default_timeout : coq_Z

val guards_v1_init_bufsize : coq_Z

val guards_data_min_bufsize : coq_Z

val guards_data_factor : coq_Z

val guards_bufsize_clamp : coq_Z

val guards_ack_fast_ms : coq_Z

val guards_ack_slow_ms : coq_Z

val guards_grow_factor : coq_Z

val guards_min_chunk : coq_Z

val names_max_len : coq_N

val names_max_tries : coq_N

val names_reject_exact : coq_N list list

val names_reject_bytes : coq_N list

val names_check_in_unmarshal : bool

val names_check_in_create_file : bool

val win_init_last : coq_N

val win_terminator : coq_N

val win_after_terminator : coq_N

val win_interrupt : coq_N

val win_newline : coq_N

val win_move_final : coq_N

val win_digit_lo : coq_N

val win_digit_hi : coq_N

val win_home_prev : coq_N

val win_home_final : coq_N

val win_esc : coq_N

val noise_letter_ranges : (coq_N * coq_N) list

val trzsz_letter_singles : coq_N list

val noise_vt100_end_ranges : (coq_N * coq_N) list

val recv_marker_open : coq_N list

val recv_marker_close : coq_N list

val recv_fallback_byte : coq_N

val tmux_status_begin : coq_N list

val tmux_status_begin_skip : coq_N

val tmux_status_mid : coq_N list

val tmux_status_mid_skip : coq_N

val tmux_status_end : coq_N list

val tmux_status_end_skip : coq_N

val pause_gate_sleep_ms : coq_N

val pause_reader_sleep_ms : coq_N

val pause_final_ack_poll_ms : coq_N

val pause_ack_window : coq_N

val pause_protocol3 : coq_N

val pause_keepalive_written : coq_N list

val pause_keepalive_tested : coq_N list

val pause_colon : coq_N

val pause_timeout_unit_ms : coq_N

val pause_ignore_chunk_count : coq_N

val progress_ellipsis_reserve : coq_Z

val progress_ellipsis_dots : coq_N list

val progress_ellipsis_added : coq_Z

val progress_tmux_min : coq_Z

val progress_tmux_margin : coq_Z

val progress_initial_step : coq_Z

val progress_hide_cursor : coq_N list

val progress_clamped : bool

val progress_throttle_ms : coq_Z

val progress_pct_default : coq_N list

val progress_pct_scale : coq_Z

val progress_redraw_tmux_fmt : coq_N list

val progress_redraw_cr_fmt : coq_N list

val progress_bar_min : coq_Z

val progress_bar_brackets : coq_Z

val progress_bar_fmt : coq_N list

val progress_bar_full_rune : coq_N

val progress_bar_empty_rune : coq_N

val progress_pane_ignored : coq_Z

val progress_show_cursor : coq_N list

val progress_bar_min_length : coq_Z

val progress_multi_threshold : coq_Z

val progress_multi_fmt : coq_N list

val progress_left_sep : coq_N list

val progress_ladder :
  ((coq_N * (coq_Z * coq_Z)) * (coq_N list * coq_N list)) list

val c02_succ_waits_saver : bool

val c02_resume_rest_guard : coq_N

val c02_resume_truncates : coq_N

val c02_resume_size_guard : coq_N

val pump_transfer_buf_size : coq_N

val pump_filter_buf_size : coq_N

val pump_relay_stdin_buf_size : coq_N

val pump_relay_stdout_buf_size : coq_N

val pump_tunnel_in_buf_size : coq_N

val pump_tunnel_out_buf_size : coq_N

val relay_standby : coq_N

val relay_handshaking : coq_N

val relay_transferring : coq_N

val relay_reset_guarded : bool

val relay_handshaking_stored_by_reader : bool

val relayneg_protocol_version : coq_Z

val relayneg_relay_stand_by : coq_N

val relayneg_relay_handshaking : coq_N

val relayneg_relay_transferring : coq_N

val relayneg_tmux_normal_mode : coq_N

val relayneg_markers_in : coq_N list list

val relayneg_markers_out : coq_N list list

val relayneg_markers_tunnel_in : coq_N list list

val relayneg_markers_tunnel_out : coq_N list list

val relayneg_ctrl_c_len : coq_N

val relayneg_ctrl_c : coq_N

val relayneg_relay_act_newline : coq_N list

val relayneg_relay_act_binary : bool

val relayneg_server_act_newline : coq_N list

val relayneg_server_act_binary : bool

val relayneg_relay_cfg_timeout : coq_Z

val relayneg_relay_cfg_newline : coq_N list

val relayneg_relay_cfg_bufsize : coq_Z

val relayneg_client_cfg_timeout : coq_Z

val relayneg_client_cfg_newline : coq_N list

val relayneg_client_cfg_bufsize : coq_Z

val relayneg_relay_cfg_win_newline : coq_N list

val relayneg_client_win_newline : coq_N list

val relayneg_reset_clears_tunnel_flag : bool

val relayneg_handshake_sets_tunnel_flag : bool

val relayneg_to_client_nl : coq_N list

val relayneg_to_client_win_nl : coq_N list

val relayneg_to_server_nl : coq_N list

val relayneg_to_server_win_nl : coq_N list

val relayneg_escape_table_has_marshaler : bool

val prefix_hash_step : coq_N

val resume_min_protocol : coq_N

val resume_v3_truncate : bool

val resume_v2_truncate : bool

val resume_step_guard : bool

val tr_compress_default : bool * coq_N

val tr_compress_rules : (((coq_N * coq_N) * bool) * coq_N) list

val tr_proto_json_names : coq_N

val tr_proto_pipeline : coq_N

val tr_proto_archive : coq_N

val tr_proto_resume_nosize : coq_N

val tr_resume_rest_check : bool

val tunnel_uid_cut_if_longer : coq_N

val tunnel_uid_cut : coq_N

val tunnel_client_hello_fmt : coq_N list

val tunnel_server_hello_fmt : coq_N list

val tunnel_hello_read_size : coq_N

val tunnel_reply_read_size : coq_N

val tunnel_pump_bufsize : coq_N

val rtunnel_rewrite_fmt : coq_N list

val rtunnel_hello_read_size : coq_N

val rtunnel_chan_cap : coq_N

val rtunnel_pump_bufsize : coq_N

val trzsz_letter_ranges : (coq_N * coq_N) list

val trzsz_letter_chars : coq_N list

val send_line_format : coq_N list

val deliver_data_prefix : coq_N list

val data_v2_binary_format : coq_N list

val data_v2_base64_prefix : coq_N list

val data_v2_piece_terminator : coq_N list option

val data_v1_binary_format : coq_N list

val pause_line_format : coq_N list

val ack_line_format : coq_N list

val zmodem_over_and_out : coq_N list

val zmodem_cannot_open : coq_N list

val zmodem_cancel_sub : coq_N list

val zmodem_cancel_full : coq_N list

val zmodem_cleanup_ms : coq_N

val zmodem_client_timeout_ms : coq_N

val zmodem_server_timeout_ms : coq_N

val zmodem_launch_delay_ms : coq_N

val zmodem_kill_delay_ms : coq_N

val zmodem_default_path_delay_ms : coq_N

val zmodem_finish_max_len : coq_N

val zmodem_cleanup_enter : coq_N list

val zmodem_ctrl_c : coq_N
