open Base64
open BinNat
open BinNums
open Bytes0
open Consts
open Datatypes
open Escape
open List0
open PeanoNat

(** val wire_letter : byte -> bool **)

let wire_letter b =
  (||)
    (existsb (fun r -> (&&) (N.leb (fst r) b) (N.leb b (snd r)))
      trzsz_letter_ranges) (existsb (N.eqb b) trzsz_letter_chars)

(** val wire_fmt : byte list -> byte list list -> byte list **)

let rec wire_fmt f args =
  match f with
  | [] -> []
  | c :: r ->
    if N.eqb c (Npos (Coq_xI (Coq_xO (Coq_xI (Coq_xO (Coq_xO Coq_xH))))))
    then (match r with
          | [] -> c :: []
          | _ :: r' ->
            (match args with
             | [] -> wire_fmt r' []
             | a :: args' -> app a (wire_fmt r' args')))
    else c :: (wire_fmt r args)

(** val wire_dec_go : nat -> coq_N -> byte list -> byte list **)

let rec wire_dec_go fuel n acc =
  let acc' =
    (N.add (Npos (Coq_xO (Coq_xO (Coq_xO (Coq_xO (Coq_xI Coq_xH))))))
      (N.modulo n (Npos (Coq_xO (Coq_xI (Coq_xO Coq_xH)))))) :: acc
  in
  (match fuel with
   | O -> acc'
   | S f ->
     if N.eqb (N.div n (Npos (Coq_xO (Coq_xI (Coq_xO Coq_xH))))) N0
     then acc'
     else wire_dec_go f (N.div n (Npos (Coq_xO (Coq_xI (Coq_xO Coq_xH)))))
            acc')

(** val wire_dec : coq_N -> byte list **)

let wire_dec n =
  wire_dec_go (N.to_nat (N.log2 n)) n []

(** val wire_undec_go : coq_N -> byte list -> coq_N option **)

let rec wire_undec_go acc = function
| [] -> Some acc
| c :: r ->
  if is_digit c
  then wire_undec_go
         (N.add (N.mul acc (Npos (Coq_xO (Coq_xI (Coq_xO Coq_xH)))))
           (N.sub c (Npos (Coq_xO (Coq_xO (Coq_xO (Coq_xO (Coq_xI
             Coq_xH)))))))) r
  else None

(** val wire_undec : byte list -> coq_N option **)

let wire_undec l = match l with
| [] -> None
| _ :: _ -> wire_undec_go N0 l

(** val wire_line : byte list -> byte list -> byte list -> byte list **)

let wire_line typ payload newline =
  wire_fmt send_line_format (typ :: (payload :: (newline :: [])))

(** val wire_int_line : byte list -> coq_N -> byte list -> byte list **)

let wire_int_line typ n newline =
  wire_line typ (wire_dec n) newline

(** val wire_pause_line : byte list -> byte list -> byte list **)

let wire_pause_line typ newline =
  wire_fmt pause_line_format (typ :: (newline :: []))

(** val wire_ack_line : coq_N -> coq_N -> byte list -> byte list **)

let wire_ack_line len step newline =
  wire_fmt ack_line_format
    ((wire_dec len) :: ((wire_dec step) :: (newline :: [])))

(** val wire_data_frame : bool -> byte list -> byte list -> byte list **)

let wire_data_frame binary newline frame =
  if binary
  then app deliver_data_prefix
         (app (wire_dec (N.of_nat (length frame))) (app newline frame))
  else app deliver_data_prefix (app frame newline)

(** val wire_data_piece : bool -> byte list -> byte list -> byte list **)

let wire_data_piece binary newline piece =
  if binary
  then app
         (wire_fmt data_v2_binary_format
           ((wire_dec (N.of_nat (length piece))) :: (newline :: []))) piece
  else app data_v2_base64_prefix
         (app piece
           (match data_v2_piece_terminator with
            | Some literal -> literal
            | None -> newline))

(** val wire_frames_go :
    byte list -> byte list -> nat -> nat list -> nat -> byte list list **)

let rec wire_frames_go s acc room sizes dflt =
  match s with
  | [] -> (match acc with
           | [] -> []
           | _ :: _ -> (rev acc) :: [])
  | b :: r ->
    (match room with
     | O ->
       let (n, sizes') = next_size sizes dflt in
       (rev (b :: acc)) :: (wire_frames_go r [] n sizes' dflt)
     | S room' ->
       (match room' with
        | O ->
          let (n, sizes') = next_size sizes dflt in
          (rev (b :: acc)) :: (wire_frames_go r [] n sizes' dflt)
        | S _ -> wire_frames_go r (b :: acc) room' sizes dflt))

(** val wire_frames : nat list -> nat -> byte list -> byte list list **)

let wire_frames sizes dflt s =
  let (n, sizes') = next_size sizes dflt in wire_frames_go s [] n sizes' dflt

(** val wire_resplit :
    byte list list -> nat list -> nat -> (bool * byte list) list **)

let rec wire_resplit fs sizes dflt =
  match fs with
  | [] -> []
  | f :: r ->
    let (n, sizes') = next_size sizes dflt in
    if Nat.leb (length f) n
    then (true, f) :: (wire_resplit r sizes' dflt)
    else let pieces = wire_frames sizes' dflt f in
         app (map (fun p -> (false, p)) pieces)
           (wire_resplit r (skipn (length pieces) sizes') dflt)

(** val wire_render_piece :
    bool -> byte list -> (bool * byte list) -> byte list **)

let wire_render_piece binary newline p =
  if fst p
  then wire_data_frame binary newline (snd p)
  else wire_data_piece binary newline (snd p)

(** val wire_split_lf : byte list -> (byte list * byte list) option **)

let rec wire_split_lf = function
| [] -> None
| c :: r ->
  if N.eqb c coq_LF
  then Some ([], r)
  else (match wire_split_lf r with
        | Some p -> let (l, rest) = p in Some ((c :: l), rest)
        | None -> None)

(** val wire_split_colon : byte list -> (byte list * byte list) option **)

let rec wire_split_colon = function
| [] -> None
| c :: r ->
  if N.eqb c (Npos (Coq_xO (Coq_xI (Coq_xO (Coq_xI (Coq_xI Coq_xH))))))
  then Some ([], r)
  else (match wire_split_colon r with
        | Some p -> let (a, b) = p in Some ((c :: a), b)
        | None -> None)

(** val wire_check : byte list -> byte list -> byte list option **)

let wire_check typ line =
  match wire_split_colon line with
  | Some p ->
    let (l, buf) = p in
    (match l with
     | [] -> None
     | _ :: t -> if list_eqb t typ then Some buf else None)
  | None -> None

(** val wire_DATA : byte list **)

let wire_DATA =
  (Npos (Coq_xO (Coq_xO (Coq_xI (Coq_xO (Coq_xO (Coq_xO
    Coq_xH))))))) :: ((Npos (Coq_xI (Coq_xO (Coq_xO (Coq_xO (Coq_xO (Coq_xO
    Coq_xH))))))) :: ((Npos (Coq_xO (Coq_xO (Coq_xI (Coq_xO (Coq_xI (Coq_xO
    Coq_xH))))))) :: ((Npos (Coq_xI (Coq_xO (Coq_xO (Coq_xO (Coq_xO (Coq_xO
    Coq_xH))))))) :: [])))

(** val wire_recv :
    nat -> bool -> byte list -> (byte list list * byte list) option **)

let rec wire_recv fuel binary w =
  match fuel with
  | O -> None
  | S f ->
    (match wire_split_lf w with
     | Some p ->
       let (line, rest) = p in
       (match wire_check wire_DATA line with
        | Some buf ->
          if binary
          then (match wire_undec buf with
                | Some n ->
                  if N.eqb n N0
                  then Some ([], rest)
                  else if Nat.leb (N.to_nat n) (length rest)
                       then (match wire_recv f binary
                                     (skipn (N.to_nat n) rest) with
                             | Some p0 ->
                               let (fs, rest') = p0 in
                               Some (((firstn (N.to_nat n) rest) :: fs),
                               rest')
                             | None -> None)
                       else None
                | None -> None)
          else (match buf with
                | [] -> Some ([], rest)
                | _ :: _ ->
                  (match wire_recv f binary rest with
                   | Some p0 ->
                     let (fs, rest') = p0 in Some ((buf :: fs), rest')
                   | None -> None))
        | None -> None)
     | None -> None)

(** val wire_encode :
    (byte list list -> byte list list) -> bool -> bool -> table -> byte list
    list -> byte list **)

let wire_encode zcomp binary compress t chunks =
  let mid = if compress then zcomp chunks else chunks in
  if binary then concat (ew_write t mid) else b64_writer_all mid

(** val wire_decode :
    (byte list -> byte list option) -> bool -> bool -> table -> byte list
    list -> nat list -> nat -> byte list option **)

let wire_decode zdecomp binary compress t fs rsizes rdflt =
  let mid =
    if binary
    then (match t with
          | [] -> Some (concat fs)
          | _ :: _ ->
            let (outs, r) = er_run (er_fuel [] fs) t [] fs rsizes rdflt in
            (match r with
             | EndEof _ -> Some (concat outs)
             | _ -> None))
    else b64_decode (concat fs)
  in
  (match mid with
   | Some m -> if compress then zdecomp m else Some m
   | None -> None)

(** val wire_encode_bytes :
    (byte list -> byte list) -> byte list -> byte list **)

let wire_encode_bytes zl d =
  b64_encode (zl d)

(** val wire_decode_string :
    (byte list -> byte list option) -> byte list -> byte list option **)

let wire_decode_string unzl s =
  match b64_decode s with
  | Some z -> unzl z
  | None -> None

(** val wire_v1_chunk :
    (byte list -> byte list) -> bool -> table -> byte list -> byte list ->
    byte list **)

let wire_v1_chunk zl binary t newline chunk =
  if binary
  then let buf = escape t chunk in
       app
         (wire_fmt data_v1_binary_format
           ((wire_dec (N.of_nat (length buf))) :: [])) buf
  else wire_line wire_DATA (wire_encode_bytes zl chunk) newline

(** val wire_v1_decode :
    (byte list -> byte list option) -> bool -> table -> byte list -> byte
    list option **)

let wire_v1_decode unzl binary t payload =
  if binary
  then (match unescape_data t payload O with
        | UOk (o, rem) -> (match rem with
                           | [] -> Some o
                           | _ :: _ -> None)
        | UErr _ -> None)
  else wire_decode_string unzl payload

(** val wire_v1_recv :
    (byte list -> byte list option) -> bool -> table -> byte list -> (byte
    list * byte list) option **)

let wire_v1_recv unzl binary t w =
  match wire_split_lf w with
  | Some p ->
    let (line, rest) = p in
    (match wire_check wire_DATA line with
     | Some buf ->
       if binary
       then (match wire_undec buf with
             | Some n ->
               if Nat.leb (N.to_nat n) (length rest)
               then (match wire_v1_decode unzl true t
                             (firstn (N.to_nat n) rest) with
                     | Some c -> Some (c, (skipn (N.to_nat n) rest))
                     | None -> None)
               else None
             | None -> None)
       else (match wire_v1_decode unzl false t buf with
             | Some c -> Some (c, rest)
             | None -> None)
     | None -> None)
  | None -> None
