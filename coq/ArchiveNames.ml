open BinNat
open BinNums
open Bytes0
open List0
open Names

(** val anm_replacement : byte list **)

let anm_replacement =
  (Npos (Coq_xI (Coq_xI (Coq_xI (Coq_xI (Coq_xO (Coq_xI (Coq_xI
    Coq_xH)))))))) :: ((Npos (Coq_xI (Coq_xI (Coq_xI (Coq_xI (Coq_xI (Coq_xI
    (Coq_xO Coq_xH)))))))) :: ((Npos (Coq_xI (Coq_xO (Coq_xI (Coq_xI (Coq_xI
    (Coq_xI (Coq_xO Coq_xH)))))))) :: []))

(** val anm_enc1 : coq_N -> byte list **)

let anm_enc1 c =
  if N.ltb c (Npos (Coq_xO (Coq_xO (Coq_xO (Coq_xO (Coq_xO (Coq_xO (Coq_xO
       Coq_xH))))))))
  then c :: []
  else if N.ltb c (Npos (Coq_xO (Coq_xO (Coq_xO (Coq_xO (Coq_xO (Coq_xO
            (Coq_xO (Coq_xO (Coq_xO (Coq_xO (Coq_xO Coq_xH))))))))))))
       then (N.add (Npos (Coq_xO (Coq_xO (Coq_xO (Coq_xO (Coq_xO (Coq_xO
              (Coq_xI Coq_xH))))))))
              (N.div c (Npos (Coq_xO (Coq_xO (Coq_xO (Coq_xO (Coq_xO (Coq_xO
                Coq_xH))))))))) :: ((N.add (Npos (Coq_xO (Coq_xO (Coq_xO
                                      (Coq_xO (Coq_xO (Coq_xO (Coq_xO
                                      Coq_xH))))))))
                                      (N.modulo c (Npos (Coq_xO (Coq_xO
                                        (Coq_xO (Coq_xO (Coq_xO (Coq_xO
                                        Coq_xH))))))))) :: [])
       else if (&&)
                 (N.leb (Npos (Coq_xO (Coq_xO (Coq_xO (Coq_xO (Coq_xO (Coq_xO
                   (Coq_xO (Coq_xO (Coq_xO (Coq_xO (Coq_xO (Coq_xI (Coq_xI
                   (Coq_xO (Coq_xI Coq_xH)))))))))))))))) c)
                 (N.ltb c (Npos (Coq_xO (Coq_xO (Coq_xO (Coq_xO (Coq_xO
                   (Coq_xO (Coq_xO (Coq_xO (Coq_xO (Coq_xO (Coq_xO (Coq_xO
                   (Coq_xO (Coq_xI (Coq_xI Coq_xH)))))))))))))))))
            then anm_replacement
            else if N.ltb c (Npos (Coq_xO (Coq_xO (Coq_xO (Coq_xO (Coq_xO
                      (Coq_xO (Coq_xO (Coq_xO (Coq_xO (Coq_xO (Coq_xO (Coq_xO
                      (Coq_xO (Coq_xO (Coq_xO (Coq_xO Coq_xH)))))))))))))))))
                 then (N.add (Npos (Coq_xO (Coq_xO (Coq_xO (Coq_xO (Coq_xO
                        (Coq_xI (Coq_xI Coq_xH))))))))
                        (N.div c (Npos (Coq_xO (Coq_xO (Coq_xO (Coq_xO
                          (Coq_xO (Coq_xO (Coq_xO (Coq_xO (Coq_xO (Coq_xO
                          (Coq_xO (Coq_xO Coq_xH))))))))))))))) :: ((N.add
                                                                    (Npos
                                                                    (Coq_xO
                                                                    (Coq_xO
                                                                    (Coq_xO
                                                                    (Coq_xO
                                                                    (Coq_xO
                                                                    (Coq_xO
                                                                    (Coq_xO
                                                                    Coq_xH))))))))
                                                                    (N.modulo
                                                                    (N.div c
                                                                    (Npos
                                                                    (Coq_xO
                                                                    (Coq_xO
                                                                    (Coq_xO
                                                                    (Coq_xO
                                                                    (Coq_xO
                                                                    (Coq_xO
                                                                    Coq_xH))))))))
                                                                    (Npos
                                                                    (Coq_xO
                                                                    (Coq_xO
                                                                    (Coq_xO
                                                                    (Coq_xO
                                                                    (Coq_xO
                                                                    (Coq_xO
                                                                    Coq_xH))))))))) :: (
                        (N.add (Npos (Coq_xO (Coq_xO (Coq_xO (Coq_xO (Coq_xO
                          (Coq_xO (Coq_xO Coq_xH))))))))
                          (N.modulo c (Npos (Coq_xO (Coq_xO (Coq_xO (Coq_xO
                            (Coq_xO (Coq_xO Coq_xH))))))))) :: []))
                 else if N.ltb c (Npos (Coq_xO (Coq_xO (Coq_xO (Coq_xO
                           (Coq_xO (Coq_xO (Coq_xO (Coq_xO (Coq_xO (Coq_xO
                           (Coq_xO (Coq_xO (Coq_xO (Coq_xO (Coq_xO (Coq_xO
                           (Coq_xI (Coq_xO (Coq_xO (Coq_xO
                           Coq_xH)))))))))))))))))))))
                      then (N.add (Npos (Coq_xO (Coq_xO (Coq_xO (Coq_xO
                             (Coq_xI (Coq_xI (Coq_xI Coq_xH))))))))
                             (N.div c (Npos (Coq_xO (Coq_xO (Coq_xO (Coq_xO
                               (Coq_xO (Coq_xO (Coq_xO (Coq_xO (Coq_xO
                               (Coq_xO (Coq_xO (Coq_xO (Coq_xO (Coq_xO
                               (Coq_xO (Coq_xO (Coq_xO (Coq_xO
                               Coq_xH))))))))))))))))))))) :: ((N.add (Npos
                                                                 (Coq_xO
                                                                 (Coq_xO
                                                                 (Coq_xO
                                                                 (Coq_xO
                                                                 (Coq_xO
                                                                 (Coq_xO
                                                                 (Coq_xO
                                                                 Coq_xH))))))))
                                                                 (N.modulo
                                                                   (N.div c
                                                                    (Npos
                                                                    (Coq_xO
                                                                    (Coq_xO
                                                                    (Coq_xO
                                                                    (Coq_xO
                                                                    (Coq_xO
                                                                    (Coq_xO
                                                                    (Coq_xO
                                                                    (Coq_xO
                                                                    (Coq_xO
                                                                    (Coq_xO
                                                                    (Coq_xO
                                                                    (Coq_xO
                                                                    Coq_xH))))))))))))))
                                                                   (Npos
                                                                   (Coq_xO
                                                                   (Coq_xO
                                                                   (Coq_xO
                                                                   (Coq_xO
                                                                   (Coq_xO
                                                                   (Coq_xO
                                                                   Coq_xH))))))))) :: (
                             (N.add (Npos (Coq_xO (Coq_xO (Coq_xO (Coq_xO
                               (Coq_xO (Coq_xO (Coq_xO Coq_xH))))))))
                               (N.modulo
                                 (N.div c (Npos (Coq_xO (Coq_xO (Coq_xO
                                   (Coq_xO (Coq_xO (Coq_xO Coq_xH))))))))
                                 (Npos (Coq_xO (Coq_xO (Coq_xO (Coq_xO
                                 (Coq_xO (Coq_xO Coq_xH))))))))) :: (
                             (N.add (Npos (Coq_xO (Coq_xO (Coq_xO (Coq_xO
                               (Coq_xO (Coq_xO (Coq_xO Coq_xH))))))))
                               (N.modulo c (Npos (Coq_xO (Coq_xO (Coq_xO
                                 (Coq_xO (Coq_xO (Coq_xO Coq_xH))))))))) :: [])))
                      else anm_replacement

(** val anm_utf8 : coq_N list -> byte list **)

let anm_utf8 cps =
  flat_map anm_enc1 cps

(** val anm_valid : coq_N list -> bool **)

let anm_valid cps =
  valid_name (anm_utf8 cps)
