open Datatypes

val pred : nat -> nat

val add : nat -> nat -> nat

val mul : nat -> nat -> nat

val sub : nat -> nat -> nat
